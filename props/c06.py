"""C06 — the bundled parsers accept the same language and build the same tree.

Theorems: coq/theories/C06 (Pratt loop over binding-power tables; tables regenerated from the
three parsers' sources; equivalence-of-tables theorem, grammar round trip, restricted
instances + refutation witnesses for the known classes).

Correspondence, every run:
 A. operator fragment (model-tied): token lists -> Coq [run_case] (reference table = SPEC, and
    the three regenerated tables = IMPL-MODEL) and -> the three real parsers.  Compared: ir tree,
    peg tree, rowan "no error" against the SPEC; each parser against its own model.
 B. whole syntax (differential): exhaustive token strings over a 25-token alphabet, generated
    valid programs, single-token mutations, literal corpus -> ir vs peg (accept + tree with
    positions erased), rowan "no error" vs ir accept.  A disagreement is a violation unless
    it is in a known class, and membership is VERIFIED by a repair: the class's canonical
    rewrite of the input must make the parsers agree again.
"""
import itertools
import json
import os
import re

from vlib import core
from vlib.core import cq_list

IMPORTS = ("From Coq Require Import List NArith.\n"
           "From JrV Require Import Common.PrecOps Gen.GenPrec C06.Model.\nImport ListNotations.\n")

SYM = {"Or": "||", "And": "&&", "BitOr": "|", "BitXor": "^", "BitAnd": "&", "Eq": "==", "Neq": "!=", "Lt": "<",
       "Gt": ">", "Lte": "<=", "Gte": ">=", "In": "in", "Lhs": "<<", "Rhs": ">>", "Add": "+", "Sub": "-",
       "Mul": "*", "Div": "/", "Mod": "%"}
BINOPS = list(SYM)
SYM_BIN = {v: k for k, v in SYM.items()}
UNOPS = {"UPlus": "+", "UMinus": "-", "UNot": "!", "UBitNot": "~"}
SYM_UN = {v: k for k, v in UNOPS.items()}
UN_TOK = {"UPlus": "Add", "UMinus": "Sub", "UNot": "!", "UBitNot": "~"}
# independent copy of the grammar's levels (Jsonnet specification), used by the python renderer
LEVEL = {"Or": 1, "And": 2, "BitOr": 3, "BitXor": 4, "BitAnd": 5, "Eq": 6, "Neq": 6, "Lt": 7, "Gt": 7, "Lte": 7,
         "Gte": 7, "In": 7, "Lhs": 8, "Rhs": 8, "Add": 9, "Sub": 9, "Mul": 10, "Div": 10, "Mod": 10}
ATOMS = ["a", "b", "c", "d", "e", "f", "g", "h", "i", "j", "k", "m"]

K_IR_UNARY = "C06-ir-prefix-binds-like-mul"
K_ROWAN_UPLUS = "C06-rowan-no-unary-plus"
K_PEG_LONE_COMMA = "C06-peg-lone-comma"
K_PEG_LOCAL = "C06-peg-local-binds-list"
K_IR_COLONS = "C06-ir-split-colons"
K_ROWAN_LOCAL = "C06-rowan-local-assert-only-at-head"
K_ROWAN_IMPORT = "C06-rowan-import-nonstring-panic"
K_ROWAN_LENIENT = "C06-rowan-lenient-local-list"
K_PEG_NUM = "C06-peg-number-lexing"
K_LEX_COMMENT = "C06-lexer-comment-odd-stars"
K_ROWAN_COMP = "C06-rowan-lenient-comprehension"
K_PEG_INDEX = "C06-peg-index-chain-split-by-whitespace"
K_ROWAN_LEX = "C06-rowan-ignores-lexical-and-literal-errors"


# ------------------------------------------------------------------ part A: operator fragment
def tok_coq(t):
    if isinstance(t, int):
        return f"TAtom {t}%N"
    return {"(": "TLP", ")": "TRP", "!": "TNot", "~": "TBitNot"}.get(t) or f"TOp {t}"


def tok_src(t):
    if isinstance(t, int):
        return ATOMS[t]
    return t if t in "()!~" else SYM[t]


def toks_src(ts):
    return " ".join(tok_src(t) for t in ts)


def tree_render(e, redundant=None):
    """expr tuple ('a',n) ('u',U,e) ('b',B,l,r) -> token list with minimal parentheses; with
    `redundant` (an Rng) extra parentheses are sprinkled."""
    def top(x):
        return LEVEL[x[1]] if x[0] == "b" else 11

    def par(ts):
        return ["("] + ts + [")"]

    def go(x):
        if x[0] == "a":
            return [x[1]]
        if x[0] == "u":
            inner = go(x[2])
            return [UN_TOK[x[1]]] + (inner if top(x[2]) >= 11 else par(inner))
        lv = LEVEL[x[1]]
        l, r = go(x[2]), go(x[3])
        return (l if top(x[2]) >= lv else par(l)) + [x[1]] + (r if top(x[3]) > lv else par(r))

    if redundant is None:
        return go(e)

    def go2(x):
        """returns (tokens, toplevel)"""
        if x[0] == "a":
            ts, lv = [x[1]], 11
        elif x[0] == "u":
            its, ilv = go2(x[2])
            ts, lv = [UN_TOK[x[1]]] + (its if ilv >= 11 else par(its)), 11
        else:
            l0 = LEVEL[x[1]]
            lt, ll = go2(x[2])
            rt, rl = go2(x[3])
            ts, lv = (lt if ll >= l0 else par(lt)) + [x[1]] + (rt if rl > l0 else par(rt)), l0
        if redundant.chance(0.2):
            return par(ts), 11
        return ts, lv
    return go2(e)[0]


def tree_of_coq(t):
    """Coq res expr -> python ('ok', tree) / ('err',) / ('fuel',)"""
    if t == "Err":
        return ("err",)
    if t == "OutOfFuel":
        return ("fuel",)
    assert isinstance(t, core.App) and t.name == "Ok", t

    def ex(x):
        if x.name == "EAtom":
            return ("a", int(x.args[0]))
        if x.name == "EUn":
            return ("u", x.args[0], ex(x.args[1]))
        return ("b", x.args[0], ex(x.args[1]), ex(x.args[2]))
    return ("ok", ex(t.args[0]))


def tree_of_code(r):
    """harness answer of one parser -> same shape; None when the tree leaves the fragment"""
    if "panic" in r:
        return ("panic", r["panic"])
    if "err" in r:
        return ("err",)

    def ex(x):
        if x[0] == "v" and x[1] in ATOMS:
            return ("a", ATOMS.index(x[1]))
        if x[0] == "u":
            return ("u", SYM_UN[x[1]], ex(x[2]))
        if x[0] == "b":
            return ("b", SYM_BIN[x[1]], ex(x[2]), ex(x[3]))
        raise ValueError(f"outside the operator fragment: {x[0]}")
    return ("ok", ex(r["ok"]))


def show(t):
    if t[0] != "ok":
        return t[0] if t[0] != "panic" else f"panic {t[1][:80]}"

    def go(x):
        if x[0] == "a":
            return ATOMS[x[1]]
        if x[0] == "u":
            return f"({UNOPS[x[1]]}{go(x[2])})"
        return f"({go(x[2])} {SYM[x[1]]} {go(x[3])})"
    return go(t[1])


class TreeGen:
    def __init__(self, rng):
        self.rng = rng

    def tree(self, d, counter):
        r = self.rng.below(100)
        if d == 0 or r < 15:
            counter[0] += 1
            return ("a", (counter[0] - 1) % len(ATOMS))
        if r < 35:
            return ("u", self.rng.choice(list(UNOPS)), self.tree(d - 1, counter))
        return ("b", self.rng.choice(BINOPS), self.tree(d - 1, counter), self.tree(d - 1, counter))


def fragment_cases(run):
    """-> list of (token list, expected tree or None, kind)"""
    thorough = run.tier == "thorough"
    rng = run.rng.fork("fragment")
    out = []
    # (1) exhaustive short strings over reduced alphabets
    a9 = [0, "(", ")", "Sub", "Mul", "!", "BitXor", "Add", "Lt"]
    a6 = [0, "(", ")", "Sub", "Mul", "BitXor"]
    for n in range(1, 5):
        for t in itertools.product(a9, repeat=n):
            out.append((list(t), None, "exhaustive"))
    for n in ((5, 6) if thorough else ()):
        for t in itertools.product(a6, repeat=n):
            out.append((list(t), None, "exhaustive"))
    # (2) every operator pair / prefix-operator pair in every position
    for b1 in BINOPS:
        for b2 in BINOPS:
            out.append(([0, b1, 1, b2, 2], None, "pairs"))
    for u in UN_TOK.values():
        for b in BINOPS:
            out.append(([u, 0, b, 1], None, "pairs"))
            out.append(([0, b, u, 1], None, "pairs"))
            out.append((["(", u, 0, ")", b, 1], None, "pairs"))
            out.append(([u, "(", 0, b, 1, ")"], None, "pairs"))
            for b2 in (BINOPS if thorough else ["Or", "BitXor", "Lt", "In", "Add", "Sub", "Mul", "Mod"]):
                out.append(([u, 0, b, 1, b2, 2], None, "pairs"))
                out.append(([0, b, u, 1, b2, 2], None, "pairs"))
        for u2 in UN_TOK.values():
            out.append(([u, u2, 0], None, "pairs"))
            out.append(([0, "Mul", u, u2, 1, "Add", 2], None, "pairs"))
    # (3) generated operator trees, minimal and redundant parentheses; the generated tree is the
    #     expected result by construction (independent of the Coq reference parser)
    g = TreeGen(rng)
    ntrees = 6000 if thorough else 700
    trees = []
    for k in range(ntrees):
        e = g.tree(1 + k % 4, [0])
        trees.append(e)
        out.append((tree_render(e), e, "tree-minimal"))
        out.append((tree_render(e, redundant=rng), e, "tree-redundant"))
    # (4) single-token mutations of valid strings
    vocab = [0, 1, "(", ")", "!", "~"] + BINOPS
    for k, e in enumerate(trees[: (3000 if thorough else 500)]):
        ts = tree_render(e)
        if len(ts) < 2:
            continue
        i = rng.below(len(ts))
        m = rng.below(4)
        if m == 0:
            mt = ts[:i] + ts[i + 1:]
        elif m == 1:
            mt = ts[:i] + [ts[i]] + ts[i:]
        elif m == 2:
            j = rng.below(len(ts))
            mt = list(ts)
            mt[i], mt[j] = mt[j], mt[i]
        else:
            mt = ts[:i] + [rng.choice(vocab)] + ts[i + 1:]
        out.append((mt, None, "mutation"))
    return out


def parse_batch(binary, srcs):
    reqs = [{"srcs": srcs[i:i + 400]} for i in range(0, len(srcs), 400)]
    outs = core.run_harness(binary, "parse", reqs)
    res = []
    for o, rq in zip(outs, reqs):
        if isinstance(o, list) and len(o) == len(rq["srcs"]):
            res.extend(o)
        else:
            res.extend([{"ir": {"panic": f"harness: {o}"}, "peg": {"panic": f"harness: {o}"},
                         "rowan": {"panic": f"harness: {o}"}}] * len(rq["srcs"]))
    return res


def part_a(run, binary, failures, model_diffs):
    cases = fragment_cases(run)
    seen, uniq = set(), []
    for ts, exp, kind in cases:
        k = (toks_src(ts), exp is not None)
        if k not in seen:
            seen.add(k)
            uniq.append((ts, exp, kind))
    # `operand (` is a call in the real grammar: outside the fragment the model speaks about
    cases = [c for c in uniq if not any(c[0][i] == "(" and (isinstance(c[0][i - 1], int) or c[0][i - 1] == ")")
                                        for i in range(1, len(c[0])))]
    run.count("A:skipped(call syntax, outside the fragment)", len(uniq) - len(cases))
    run.log(f"A: {len(cases)} operator-fragment token lists")
    BATCH = 40
    exprs = [cq_list([f"run_case {cq_list([tok_coq(t) for t in ts])}" for ts, _, _ in cases[i:i + BATCH]])
             for i in range(0, len(cases), BATCH)]
    model = []
    for i, chunk in enumerate(core.coq_eval(IMPORTS, exprs)):
        n = len(cases[i * BATCH:(i + 1) * BATCH])
        if isinstance(chunk, list) and len(chunk) == n:
            model.extend(chunk)
        else:
            model.extend([("ERROR", str(chunk)[:300])] * n)
    run.log("A: model evaluated")
    code = parse_batch(binary, [toks_src(ts) for ts, _, _ in cases])
    run.log("A: harness done")
    skipped = 0
    for (ts, exp, kind), m, r in zip(cases, model, code):
        src = toks_src(ts)
        run.count(f"A:{kind}")
        run.count(f"A:len{min(len(ts), 12) if len(ts) < 12 else '12+'}")
        if isinstance(m, tuple) and m and m[0] == "ERROR":
            run.obligation("model.eval", False, str(m[1])[:300])
            continue
        ref, mir, mpeg, mrow = (tree_of_coq(x) for x in m[:4])
        k_um, k_row = m[4]
        if "fuel" in (ref[0], mir[0], mpeg[0], mrow[0]):
            skipped += 1
            continue
        run.note_case("A:" + src, ref[0] == "ok" and len(ts) >= 3)
        run.count("A:valid" if ref[0] == "ok" else "A:invalid")
        case = {"source": src, "tokens": [tok_src(t) for t in ts], "part": "A"}
        try:
            cir, cpeg = tree_of_code(r["ir"]), tree_of_code(r["peg"])
        except ValueError as ex:
            failures.append({"case": case, "summary": f"C06 parser built a node outside the operator fragment: {src}",
                             "expected": show(ref), "got": str(ex)})
            continue
        crow = ("panic", r["rowan"]["panic"]) if "panic" in r["rowan"] else \
            (("ok",) if r["rowan"].get("errors") == 0 else ("err",))
        # the generated tree is what the grammar assigns (independent oracle) -> the reference parser agrees
        if exp is not None and ref != ("ok", exp):
            run.obligation("spec.reference_parser_vs_generated_tree", False,
                           f"{src}: generated {show(('ok', exp))}, reference table parses {show(ref)}")

        def judge(who, got, model_res, known_flag, kid, accept_only=False):
            want = ref
            g, w, mm = got, want, model_res
            if accept_only:
                g, w, mm = (got[0],), (want[0],), (model_res[0],)
            if g != w:
                f = {"case": case, "parser": who, "expected": show(want), "got": show(got),
                     "summary": f"C06 {who} disagrees with the grammar on `{src}`: expected {show(want)}, "
                                f"got {show(got)}"}
                if known_flag and g == mm and got[0] != "panic":
                    f["known"] = kid
                    run.count(f"known:{kid}")
                failures.append(f)
            if g != mm:
                model_diffs.append({"case": case, "parser": who, "model": show(model_res), "code": show(got)})

        judge("ir-parser", cir, mir, k_um, K_IR_UNARY)
        judge("peg-parser", cpeg, mpeg, False, None)     # no known class left for peg (fixed 1596e0a)
        judge("rowan-parser(no error)", crow, mrow, k_row, K_ROWAN_UPLUS, accept_only=True)
        if len(run.samples) < 4 and kind == "tree-redundant" and len(ts) > 8:
            run.samples.append({"source": src, "grammar_tree": show(ref), "ir": show(cir), "peg": show(cpeg),
                                "rowan_no_error": crow[0] == "ok"})
    run.coverage["skipped_out_of_fuel"] = skipped


# ------------------------------------------------------------------ part B: whole syntax
ALPHA = ['x', '1', '"s"', '+', '-', '*', '!', '(', ')', '[', ']', '{', '}', ':', ',', '.', ';', '=', 'local', 'if',
         'then', 'else', 'function', 'for', 'in']
RESERVED = ["assert", "else", "error", "false", "for", "function", "if", "import", "importstr", "importbin", "in",
            "local", "null", "tailstrict", "then", "self", "super", "true"]
OPERAND_END = re.compile(r'^(?:[A-Za-z_]\w*|\d[\w.+-]*|".*"|\'.*\'|@.*|\)|\]|\}|\$)$', re.S)
KEYWORD_NOT_OPERAND = {"assert", "else", "error", "for", "function", "if", "import", "importstr", "importbin", "in",
                       "local", "then"}


def ends_operand(tok):
    return bool(OPERAND_END.match(tok)) and tok not in KEYWORD_NOT_OPERAND


class ProgGen:
    """valid standard-syntax programs as token lists (joined by single spaces)"""

    def __init__(self, rng):
        self.rng = rng
        self.n = 0

    def ident(self):
        return self.rng.choice(["x", "y", "z", "foo", "_a1", "std", "selfish", "iffy", "in_", "nullable"])

    def string(self):
        return self.rng.choice(['"s"', "'t'", '"a_b"', '@"v""w"', "@'v''w'", '"\\n\\t\\"q\\u0041"', "''", '"if"'])

    def number(self):
        return self.rng.choice(["0", "1", "42", "1.5", "0.25", "1e3", "2E-2", "1_000", "1.0e+2", "10"])

    def atom(self):
        r = self.rng.below(12)
        if r < 4:
            return [self.ident()]
        if r < 6:
            return [self.number()]
        if r < 8:
            return [self.string()]
        return [self.rng.choice(["null", "true", "false", "self", "$", "super . f", "super [ 1 ]"])]

    def commas(self, items, close, allow_trailing=True):
        out = []
        for i, it in enumerate(items):
            if i:
                out.append(",")
            out += it
        if items and allow_trailing and self.rng.chance(0.25):
            out.append(",")
        return out

    def params(self, d):
        n = self.rng.below(4)
        ps, seen = [], set()
        for i in range(n):
            nm = f"p{i}"
            ps.append([nm] + (["="] + self.expr(d - 1) if self.rng.chance(0.3) else []))
        return ["("] + self.commas(ps, ")") + [")"]

    def args(self, d):
        n = self.rng.below(4)
        named_from = self.rng.randint(0, n)
        xs = []
        for i in range(n):
            xs.append(([f"n{i}", "="] if i >= named_from else []) + self.expr(d - 1))
        return ["("] + self.commas(xs, ")") + [")"] + (["tailstrict"] if self.rng.chance(0.15) else [])

    def bind(self, d):
        if self.rng.chance(0.3):
            return [self.ident()] + self.params(d) + ["="] + self.expr(d - 1)
        return [self.ident(), "="] + self.expr(d - 1)

    def field(self, d):
        r = self.rng.below(10)
        name = [self.ident()] if r < 5 else [self.string()] if r < 7 else ["["] + self.expr(d - 1) + ["]"]
        vis = self.rng.choice([":", ":", "::", ":::"])
        if self.rng.chance(0.2):
            return name + self.params(d) + [vis] + self.expr(d - 1)
        return name + (["+"] if self.rng.chance(0.2) else []) + [vis] + self.expr(d - 1)

    def objinside(self, d):
        if self.rng.chance(0.2):
            pre = [["local"] + self.bind(d)] if self.rng.chance(0.4) else []
            f = [["["] + self.expr(d - 1) + ["]", ":"] + self.expr(d - 1)]
            post = [["local"] + self.bind(d)] if self.rng.chance(0.3) else []
            body = self.commas(pre + f + post, "}", allow_trailing=True)
            return body + self.compspecs(d)
        ms = []
        for _ in range(self.rng.below(4)):
            r = self.rng.below(10)
            if r < 7:
                ms.append(self.field(d))
            elif r < 9:
                ms.append(["local"] + self.bind(d))
            else:
                ms.append(["assert"] + self.expr(d - 1) + ([":"] + self.expr(d - 1) if self.rng.chance(0.5) else []))
        return self.commas(ms, "}")

    def compspecs(self, d):
        out = ["for", self.ident(), "in"] + self.expr(d - 1)
        for _ in range(self.rng.below(3)):
            if self.rng.chance(0.5):
                out += ["if"] + self.expr(d - 1)
            else:
                out += ["for", self.ident(), "in"] + self.expr(d - 1)
        return out

    def primary(self, d):
        if d <= 0:
            return self.atom()
        r = self.rng.below(100)
        if r < 25:
            return self.atom()
        if r < 35:
            return ["("] + self.expr(d - 1) + [")"]
        if r < 47:
            return ["{"] + self.objinside(d) + ["}"]
        if r < 57:
            items = [self.expr(d - 1) for _ in range(self.rng.below(4))]
            return ["["] + self.commas(items, "]") + ["]"]
        if r < 63:
            return ["["] + self.expr(d - 1) + ([","] if self.rng.chance(0.2) else []) + self.compspecs(d) + ["]"]
        return self.atom()

    def postfix(self, d):
        out = self.primary(d)
        for _ in range(self.rng.below(3) if d > 0 else 0):
            r = self.rng.below(10)
            if r < 3:
                out += [".", self.ident()]
            elif r < 5:
                out += ["["] + self.expr(d - 1) + ["]"]
            elif r < 7:
                a = self.expr(d - 1) if self.rng.chance(0.6) else []
                b = self.expr(d - 1) if self.rng.chance(0.5) else []
                sl = a + [":"] + b
                if self.rng.chance(0.4):
                    sl += [":"] + (self.expr(d - 1) if self.rng.chance(0.6) else [])
                out += ["["] + sl + ["]"]
            elif r < 9:
                out += self.args(d)
            else:
                out += ["{"] + self.objinside(d) + ["}"]
        return out

    def unary(self, d):
        if self.rng.chance(0.15):
            return [self.rng.choice(["-", "!", "~", "+"])] + self.unary(d)
        return self.postfix(d)

    def binary(self, d):
        out = self.unary(d)
        for _ in range(self.rng.choice([0, 0, 1, 1, 2, 3]) if d > 0 else 0):
            out += [self.rng.choice(list(SYM.values()))] + self.unary(d - 1)
        return out

    def expr(self, d):
        """an expression; the open-ended forms (local, if, function, assert, error, import) only
        where nothing follows inside the same expression, i.e. here at the head"""
        if d <= 0:
            return self.atom()
        r = self.rng.below(100)
        if r < 55:
            return self.binary(d)
        if r < 63:
            bs = [self.bind(d) for _ in range(self.rng.randint(1, 2))]
            return ["local"] + self.commas(bs, ";", allow_trailing=False) + [";"] + self.expr(d - 1)
        if r < 72:
            return ["if"] + self.expr(d - 1) + ["then"] + self.expr(d - 1) + \
                (["else"] + self.expr(d - 1) if self.rng.chance(0.6) else [])
        if r < 79:
            return ["function"] + self.params(d) + self.expr(d - 1)
        if r < 84:
            return ["assert"] + self.expr(d - 1) + ([":"] + self.expr(d - 1) if self.rng.chance(0.4) else []) + \
                [";"] + self.expr(d - 1)
        if r < 88:
            return ["error"] + self.expr(d - 1)
        if r < 92:
            return [self.rng.choice(["import", "importstr", "importbin"]), self.rng.choice(['"a.jsonnet"', "'b'"])]
        # an open-ended form as the last operand of a binary operator (standard Jsonnet allows it)
        return self.unary(d - 1) + [self.rng.choice(["+", "&&", "==", "*"])] + \
            self.rng.choice([["local", "q", "=", "1", ";", "q"], ["if", "x", "then", "y"],
                             ["function", "(", ")", "1"], ["error", '"e"'], ["assert", "x", ";", "y"]])


LITERALS = [
    # escapes
    r'"\\"', r'"\""', r"'\''", r'"\/"', r'"\b\f\n\r\t"', r'"Aé中"', r'"😀"',
    r'"\ud83d"', r'"\ude00"', r'"\ud83dx"', r'"\u12"', r'"\u12G4"', r'"\q"', r'"\a"', r'"\0"', r'"\'"', r"'\"'",
    '"a\nb"', '"tab\there"', '"\\\n"', '"é中😀"', "''", '""', '"\\', "'abc", '"abc',
    # verbatim
    '@"a""b"', "@'a''b'", '@"a\\nb"', "@'\\'", '@"', "@'", '@"a"b"', "@'a'b'", '@"multi\nline"', "@x", '@ "a"',
    '@"""', "@''''", '@""""',
    # text blocks
    "|||\n  a\n|||", "|||\n  a\n  b\n|||", "|||\n  a\n\n  b\n|||", "|||\n\n  a\n|||", "|||\n  a\n   b\n|||",
    "|||\n\ta\n\tb\n|||", "|||-\n  a\n|||", "|||-\n  a\n\n|||", "|||\n  a\n  |||", "|||\n    a\n  |||",
    "|||\n  a\n |||", "|||   \n  a\n|||", "|||\t\n  a\n|||", "|||\n  a\n|||\n", "|||\n  a|||\n|||",
    "|||\n  a\n  |||b\n|||", "|||\na\n|||", "|||\n  a", "|||\n  a\n", "||| x\n  a\n|||", "|||", "|||\n|||",
    "|||\n  \n|||", "|||\n  a\n b\n|||", "|||\r\n  a\r\n|||", "|||\n  a\\n\n|||", "{ a: |||\n    t\n  |||, b: 1 }",
    "|||\n  a\n|||  + 'x'", "|||\n  é中\n|||", "|||-\n  a\n  b\n\n\n|||", "|||\n \ta\n \tb\n|||",
    "|||\n  a\n\t|||", "|||\n  a\n   |||", "|||--\n  a\n|||", "|||- \n  a\n|||",
    # numbers
    "0", "00", "01", "007", "1", "10", "1_000", "1__0", "1_", "_1", "0_1", "1_000.000_1", "1_0e1_0", "1.", "1.5",
    ".5", "1.e3", "1.5e", "1e", "1e+", "1e+5", "1E-5", "1e5", "1e05", "1.05", "1.5.5", "1e5e5", "0x10", "0b1",
    "1e400", "1e-400", "123456789012345678901234567890", "0.1", "0e0", "0.0", "1_.5", "1._5", "1e_5", "1.5_",
    "9007199254740993", "1.7976931348623157e308", "1.7976931348623159e308", "4.9e-324", "1 .5", "1. 5", "1 e5",
    "-1", "- 1", "1-1", "1 -1", "1.foo", "1.e", "1 . foo", "1 .foo", "2.x", "0.x", "1_000.foo",
    # identifiers and reserved words
    "x", "_", "_x1", "x1_", "1x", "iff", "inx", "x in y", "xin y", "x iny", "nullx", "null", "nulls", "selfie",
    "tailstrictx", "importstrx", "$", "$.a", "$x", "$ x", "$['a']", "import'a'", 'import"a"', "importstr'a'",
    "importx 'a'", "local local = 1; 1", "local x = 1; local", "{ local: 1 }", "{ if: 1 }", "{ 'if': 1 }",
    "{ x: 1 }.if", "{ x: 1 }.x", "x.self", "x.null", "function(if) 1", "function(x, x) 1", "f(if=1)", "f(x=1)",
    "f(x==1)", "f(x =1)", "f(x= =1)", "f(x=1, 2)", "f(1, x=2)", "f(x=1, x=2)", "f(1,)", "f(,1)", "f(1,,2)",
    # comments and whitespace
    "1 // c", "1 # c", "1 /* c */", "/* c */ 1", "1 /* c", "/*/ 1", "/**/ 1", "1 /***/", "1 //", "#\n1", "//\r\n1",
    "1\t+\r\n2", "a/**/b", "a/* */+/* */b", "1 /* * / */", "a//b\n+c", "a #b\n+c", "a/ /b",
    # operators glued together
    "a<-b", "a<<-b", "a!=!b", "a==-b", "a&&&b", "a|||b", "a||||b", "a<=>b", "a>>=b", "a<<<b", "a>>>b", "a!b",
    "a~b", "a!==b", "a=b", "a===b", "a--b", "a++b", "a+-+b", "a-!-b", "a*-b", "a**b", "a%-b", "a%%b", "a^~b",
    "!a", "!!a", "~-a", "-~a", "a in b in c", "a in(b)", "(a)in b", "a::b", "{a::b}", "{a:::b}", "{a::::b}",
    "{a+:b}", "{a+::b}", "{a+:::b}", "{a + : b}", "{a+ :b}", "{a: :b}", "{a:: :b}", "{a : :: b}", "{a+ ::b}",
    "[1,2,]", "[,]", "[1,,2]", "[1 for x in y]", "[1, for x in y]", "[1 for x in y,]", "[1 for x in y if z]",
    "[1 if z for x in y]", "[for x in y]", "{[k]: 1 for k in y}", "{[k]: 1, for k in y}", "{a: 1 for k in y}",
    "{'a': 1 for k in y}", "{[k]: 1 for k in y, }", "{local z = 1, [k]: z for k in y}",
    "{[k]: z, local z = 1 for k in y}", "{[k]: 1, [j]: 2 for k in y}", "{assert true, [k]: 1 for k in y}",
    "{for k in y}", "{,}", "{a: 1,}", "{a: 1,,}", "{a: 1 b: 2}", "{a: 1; b: 2}", "local a = 1, b = 2; a",
    "local a = 1,; a", "local ; a", "local a = 1 a", "local a(x) = x; a", "local a(x,) = x; a", "local a() = 1; a",
    "local a(,) = 1; a", "function() 1", "function(,) 1", "function(x,) 1", "function(x=1,) 1", "function(x=) 1",
    "function x", "function", "a[1]", "a[1:]", "a[:1]", "a[::]", "a[:]", "a[1:2:3]", "a[1::3]", "a[::3]", "a[:2:]",
    "a[1:2:3:4]", "a[]", "a[1,2]", "a[:::]", "a[1 2]", "a.b.c", "a.b[1].c", "a . b", "a.\nb", "a.1", "a.'b'",
    "a{}", "a{b:1}", "a {b:1}", "a{b:1}{c:2}", "a{}.b", "a{}[1]", "a{}(1)", "1{}", "(a){}", "a(1){}", "a[1]{}",
    "a.b{}", "-a{}", "a+b{}", "if a then b{}", "error a{}", "a tailstrict", "a() tailstrict", "a()tailstrict",
    "a() tailstrict()", "a(1) tailstrict . b", "if a then b", "if a then b else c", "if a then b else",
    "if a b", "if a then if b then c else d", "if a then b else c + d", "(if a then b else c) + d",
    "a + if b then c else d", "a + if b then c else d + e", "a + function(x) x + 1", "a + error 'x' + 1",
    "a + local x = 1; x + 1", "a * local x = 1; x", "-local x = 1; x", "!if a then b else c", "a + assert b; c",
    "a == import 'x'", "error", "error error 'x'", "assert a; b", "assert a : 'm'; b", "assert a, b",
    "assert a : 'm' : 'n'; b", "local x = 1; x;", "a;", ";", "", " ", "\n", "()", "(a", "a)", "((a))", "[", "]",
    "[[]]", "{{}}", "{}{}", "[][]", "[](1)", "{}.a", "{}[1]", "'a' 'b'", "'a'.b", "'a'[0]", "1[0]", "1(0)",
    "null.a", "self.a", "super.a", "super", "super + 1", "a in super", "'a' in super", "super[1]", "super{}",
    "self{}", "$.a.b", "$ . a", "x.y(z)[1]{a:1}", "local f(x, y=1) = x + y; f(2, y=3)",
]


def programs(run):
    thorough = run.tier == "thorough"
    rng = run.rng.fork("programs")
    g = ProgGen(rng)
    out = []
    nprog = 12000 if thorough else 1500
    progs = []
    for k in range(nprog):
        ts = " ".join(g.expr(1 + k % 4)).split(" ")    # one lexer token per element
        if len(ts) > 120:
            continue
        progs.append(ts)
        out.append((" ".join(ts), "program", ts))
    vocab = ALPHA + RESERVED + ["::", ":::", "tailstrict", "$", "==", "||", "^", "~", "%", "<", "<<"]
    nmut = 3
    for ts in progs:
        if len(ts) < 2:
            continue
        for _ in range(nmut):
            i = rng.below(len(ts))
            m = rng.below(5)
            if m == 0:
                mt = ts[:i] + ts[i + 1:]
            elif m == 1:
                mt = ts[:i] + [ts[i]] + ts[i:]
            elif m == 2:
                j = min(len(ts) - 1, i + 1)
                mt = list(ts)
                mt[i], mt[j] = mt[j], mt[i]
            elif m == 3:
                mt = ts[:i] + [rng.choice(RESERVED)] + ts[i + 1:]
            else:
                mt = ts[:i] + [rng.choice(vocab)] + ts[i + 1:]
            out.append((" ".join(mt), "mutation", mt))
    return out


def exhaustive_strings(run, limit=None):
    thorough = run.tier == "thorough" or limit == "thorough"
    out = []
    for n in range(1, 5 if thorough else 4):
        for t in itertools.product(ALPHA, repeat=n):
            out.append((" ".join(t), "exhaustive", list(t)))
    if not thorough:
        a13 = ['x', '1', '+', '*', '(', ')', '[', ']', '{', '}', ',', ';', 'local']
        for t in itertools.product(a13, repeat=4):
            out.append((" ".join(t), "exhaustive", list(t)))
    if thorough:
        a12 = ['x', '1', '+', '-', '(', ')', '[', ']', '{', '}', ':', ',']
        for t in itertools.product(a12, repeat=5):
            out.append((" ".join(t), "exhaustive", list(t)))
        a8 = ['x', ',', '(', ')', '[', ']', ':', '=']
        for t in itertools.product(a8, repeat=6):
            out.append((" ".join(t), "exhaustive", list(t)))
    return out


# ---- tree canonicalisation for the two known regroupings (used only to classify a MISMATCH)
MULSYM = ("*", "/", "%")


def regroup(t, unary=True, xor=False):
    """bottom-up: push a prefix operator down the left spine of a `* / %` chain (what the grammar
    says ir's tree should have been)"""
    if not isinstance(t, list):
        return t
    t = [regroup(x, unary, xor) for x in t]
    if unary and len(t) == 3 and t[0] == "u" and isinstance(t[2], list) and t[2][:1] == ["b"] and t[2][1] in MULSYM:
        def push(b):
            if isinstance(b, list) and b[:1] == ["b"] and b[1] in MULSYM:
                return ["b", b[1], push(b[2]), b[3]]
            return regroup(["u", t[1], b], unary, xor)
        return push(t[2])
    return t


def flat_index(t):
    """Index{Index{x, p}, q} -> Index{x, p ++ q}: without `?.` the two mean the same"""
    if not isinstance(t, list):
        return t
    t = [flat_index(x) for x in t]
    if len(t) == 3 and t[0] == "index" and isinstance(t[1], list) and t[1][:1] == ["index"]:
        return ["index", t[1][1], t[1][2] + t[2]]
    return t


def strip_uplus(t):
    if not isinstance(t, list):
        return t
    t = [strip_uplus(x) for x in t]
    if len(t) == 3 and t[0] == "u" and t[1] == "+":
        return t[2]
    return t


CANONS = [(K_PEG_INDEX, flat_index), (K_IR_UNARY, lambda t: regroup(t, True, False))]


def tree_mismatch_class(a, b):
    """smallest set of known regroupings that makes the two trees equal -> its first id"""
    for n in (1, 2):
        for combo in itertools.combinations(CANONS, n):
            x, y = a, b
            for _, fn in combo:
                x, y = fn(x), fn(y)
            if x == y:
                return combo[-1][0] if combo[0][0] == K_PEG_INDEX and n > 1 else combo[0][0]
    return None


def opseq(t):
    """canonical form that forgets how operators are grouped: every maximal region of unary /
    binary operator nodes becomes its in-order sequence"""
    if not isinstance(t, list):
        return t
    if t[:1] == ["u"] or t[:1] == ["b"]:
        seq = []

        def walk(x):
            if isinstance(x, list) and x[:1] == ["u"] and len(x) == 3:
                seq.append(("op", x[1]))
                walk(x[2])
            elif isinstance(x, list) and x[:1] == ["b"] and len(x) == 4:
                walk(x[2])
                seq.append(("op", x[1]))
                walk(x[3])
            else:
                seq.append(opseq(x))
        walk(t)
        return ["opseq", seq]
    return [opseq(x) for x in t]


def lexical_trigger(toks):
    """the python twin of Model.v known_unary_mul on a general token list: a prefix-position
    operator followed later by `* / %`"""
    if toks is None:
        return None
    for i, t in enumerate(toks):
        if t in ("+", "-", "!", "~") and (i == 0 or not ends_operand(toks[i - 1]) or toks[i - 1] == ")"):
            if any(x in MULSYM for x in toks[i + 1:]):
                return K_IR_UNARY
    return None


def same_tree(a, b):
    return tree_mismatch_class(a, b) is not None or a == b


def unary_plus_positions(toks):
    """`+` tokens in prefix position: at the start, or after a token that cannot end an operand
    (a `)` that closes `function ( ... )` does not end an operand either)"""
    stack, opener = [], {}
    for i, t in enumerate(toks):
        if t == "(":
            stack.append(i)
        elif t == ")" and stack:
            opener[i] = stack.pop()

    def ends(i):
        t = toks[i]
        if t == ")":
            o = opener.get(i)
            return not (o is not None and o > 0 and toks[o - 1] == "function")
        return ends_operand(t)

    out = []
    for i, t in enumerate(toks):
        if t != "+":
            continue
        if i + 1 < len(toks) and toks[i + 1] in (":", "::", ":::") and i > 0:
            continue        # field `name +: value`
        if i == 0 or not ends(i - 1):
            out.append(i)
    return out


def is_string_tok(t):
    return t[:1] in "\"'" or t[:2] in ('@"', "@'") or t[:3] == "|||"


def repairs(toks):
    """candidate (repair name, repaired token list) pairs for a disagreeing input; a known class
    is only granted when its repair restores agreement (see classify)"""
    out = []
    n = len(toks)
    idx = [i for i in range(1, n) if toks[i] == "," and toks[i - 1] in ("(", "[", "{")]
    if idx:
        out.append(("lone_comma", [t for i, t in enumerate(toks) if i not in idx]))
    # local's bind list: trailing comma, no bind at all
    idx = [i for i in range(n - 1) if toks[i] == "," and toks[i + 1] == ";"]
    t2 = [t for i, t in enumerate(toks) if i not in idx]
    rep, changed = [], bool(idx)
    for i, t in enumerate(t2):
        rep.append(t)
        if t == "local" and i + 1 < len(t2) and t2[i + 1] == ";":
            rep += ["zz", "=", "0"]
            changed = True
    if changed:
        out.append(("local_list", rep))
    # `:` `:` written apart where the language has the single tokens `::` and `:::`
    if any(toks[i] in (":", "::") and toks[i + 1] in (":", "::") for i in range(n - 1)):
        rep, i = [], 0
        while i < n:
            if toks[i] in (":", "::", ":::"):
                j, cnt = i, 0
                while j < n and toks[j] in (":", "::", ":::"):
                    cnt += len(toks[j])
                    j += 1
                rep.append(":" * cnt)
                i = j
            else:
                rep.append(toks[i])
                i += 1
        out.append(("colons", rep))
    up = unary_plus_positions(toks)
    if up:
        out.append(("uplus_a", [t for i, t in enumerate(toks) if i not in up]))
    return out


def verdicts(r):
    ir, peg, ro = r["ir"], r["peg"], r["rowan"]
    return {
        "ir": "panic" if "panic" in ir else "ok" if "ok" in ir else "err",
        "peg": "panic" if "panic" in peg else "ok" if "ok" in peg else "err",
        "rowan": "panic" if "panic" in ro else "ok" if ro.get("errors") == 0 else "err",
    }


def disagreements(r):
    """-> list of (kind, text)"""
    v = verdicts(r)
    out = []
    if v["ir"] == "panic":
        out.append(("ir-panic", r["ir"]["panic"][:120]))
    if v["peg"] == "panic":
        out.append(("peg-panic", r["peg"]["panic"][:120]))
    if "panic" not in (v["ir"], v["peg"]):
        if v["ir"] != v["peg"]:
            out.append(("accept", f"ir-parser {'accepts' if v['ir'] == 'ok' else 'rejects'}, "
                                  f"peg-parser {'accepts' if v['peg'] == 'ok' else 'rejects'}"))
        elif v["ir"] == "ok" and r["ir"]["ok"] != r["peg"]["ok"]:
            out.append(("tree", "ir-parser and peg-parser build different trees"))
    if v["ir"] != "panic":
        if v["rowan"] == "panic" and v["ir"] == "ok":
            out.append(("rowan-panic", "rowan-parser panics on a text ir-parser accepts: " + r["rowan"]["panic"][:100]))
        elif v["rowan"] != "panic" and v["rowan"] != v["ir"]:
            out.append(("rowan", f"ir-parser {'accepts' if v['ir'] == 'ok' else 'rejects'}, rowan-parser reports "
                                 f"{'no error' if v['rowan'] == 'ok' else 'errors'}"))
    return out


OP_TOKENS = set(SYM.values()) | {"!", "~"}


def part_b(run, binary, failures, cases=None):
    if cases is None:
        cases = exhaustive_strings(run) + programs(run) + [(s, "literal", None) for s in LITERALS]
    seen, uniq = set(), []
    for c in cases:
        if c[0] not in seen:
            seen.add(c[0])
            uniq.append(c)
    cases = uniq
    run.log(f"B: {len(cases)} source texts")
    res = parse_batch(binary, [c[0] for c in cases])
    run.log("B: harness done")
    pending = []   # (case index, disagreements)
    rowan_panics_on_rejected = {}
    for i, ((src, kind, toks), r) in enumerate(zip(cases, res)):
        v = verdicts(r)
        run.count(f"B:{kind}")
        run.count(f"B:{kind}:{'valid' if v['ir'] == 'ok' else 'invalid'}")
        if kind != "exhaustive" or v["ir"] == "ok":
            run.note_case("B:" + src, kind != "exhaustive" or len(toks) >= 3)
        else:
            run.evaluations += 1
        if v["rowan"] == "panic" and v["ir"] != "ok":
            site = r["rowan"]["panic"].split(": ")[0]
            rowan_panics_on_rejected.setdefault(site, [0, src])[0] += 1
        d = disagreements(r)
        if kind in ("program", "mutation") and v["ir"] == "err" and v["rowan"] == "ok":
            # A recovering parser is lenient in open-ended ways (comprehension starting with `if`,
            # comma after a compspec, ...).  This direction is JUDGED on the deterministic sets
            # (exhaustive strings, corpus) and only recorded on random inputs.
            d = [x for x in d if x[0] != "rowan"]
            lenient = run.coverage.setdefault("rowan_no_error_on_random_texts_ir_rejects", {"count": 0, "examples": []})
            lenient["count"] += 1
            if len(lenient["examples"]) < 5 and len(src) < 120:
                lenient["examples"].append(src)
        if d:
            pending.append((i, d))
        elif v["ir"] == "ok" and kind == "program" and len(run.samples) < 9 and 20 < len(src) < 160:
            run.samples.append({"source": src, "all_three_agree": True})
    run.coverage["rowan_panics_on_texts_ir_rejects"] = {k: {"count": n, "example": ex}
                                                        for k, (n, ex) in rowan_panics_on_rejected.items()}
    run.log(f"B: {len(pending)} disagreeing inputs to classify")
    # ---- classification by verified repair
    rep_srcs, rep_meta = [], {}
    for i, d in pending:
        src, kind, toks = cases[i]
        if toks is None:
            continue
        for kid, rt in repairs(toks):
            rep_meta[(i, kid)] = len(rep_srcs)
            rep_srcs.append(" ".join(rt))
    rep_res = parse_batch(binary, rep_srcs) if rep_srcs else []
    for i, d in pending:
        src, kind, toks = cases[i]
        r = res[i]
        v = verdicts(r)
        case = {"source": src, "part": "B", "kind": kind}
        for what, text in d:
            f = {"case": case, "what": what, "summary": f"C06 {text}: {src[:200]!r}",
                 "expected": "the three parsers agree", "got": {k: (r[k] if len(json.dumps(r[k])) < 400 else v[k])
                                                               for k in ("ir", "peg", "rowan")}}
            kid = classify(what, src, kind, toks, r, v, i, rep_meta, rep_res)
            if kid:
                f["known"] = kid
                run.count(f"known:{kid}")
            failures.append(f)


def import_nonstring(toks):
    return toks is not None and any(
        toks[j] in ("import", "importstr", "importbin") and
        not (j + 1 < len(toks) and is_string_tok(toks[j + 1])) for j in range(len(toks)))


def rename(t, old, new):
    if isinstance(t, list):
        return [rename(x, old, new) for x in t]
    return new if t in old else t


def classify(what, src, kind, toks, r, v, i, rep_meta, rep_res):
    """known-finding id for one disagreement, or None.  Every class is verified on the input:
    tree classes by a canonicalisation that must make the two trees equal, text classes by a
    repair of the input that must restore agreement without changing the accepted tree."""
    if kind == "literal" and (src, what) in CORPUS_KNOWN:
        return CORPUS_KNOWN[(src, what)]

    def repaired(name):
        j = rep_meta.get((i, name))
        return None if j is None else rep_res[j]

    def agree_after(name, need_rowan=False):
        rr = repaired(name)
        if not rr or "ok" not in rr["ir"] or "ok" not in rr["peg"]:
            return None
        if not same_tree(rr["ir"]["ok"], rr["peg"]["ok"]) and \
                opseq(flat_index(rr["ir"]["ok"])) != opseq(flat_index(rr["peg"]["ok"])):
            return None
        if need_rowan and rr["rowan"].get("errors") != 0:
            return None
        return rr

    if what == "tree":
        a, b = r["ir"]["ok"], r["peg"]["ok"]
        k = tree_mismatch_class(a, b)
        if k is None and opseq(flat_index(a)) == opseq(flat_index(b)):
            k = lexical_trigger(toks)
        return k
    if what == "accept":
        if v["ir"] == "err" and v["peg"] == "ok":
            for name, kid in (("lone_comma", K_PEG_LONE_COMMA), ("local_list", K_PEG_LOCAL)):
                rr = agree_after(name)
                if rr and (name == "local_list" or same_tree(rr["peg"]["ok"], r["peg"]["ok"])):
                    return kid
        if v["ir"] == "ok" and v["peg"] == "err":
            rr = agree_after("colons")
            if rr and rr["ir"]["ok"] == r["ir"]["ok"]:
                return K_IR_COLONS
        return None
    if what == "rowan":
        if v["ir"] == "ok" and v["rowan"] == "err":
            rr = repaired("uplus_a")
            # (modulo operator grouping: with the `+` gone, ir regroups a following * / % chain)
            if rr and "ok" in rr["ir"] and rr["ir"]["ok"] != r["ir"]["ok"] and \
                    opseq(flat_index(rr["ir"]["ok"])) == opseq(flat_index(strip_uplus(r["ir"]["ok"]))):
                if rr["rowan"].get("errors") == 0:
                    return K_ROWAN_UPLUS
                if "parser.rs:855" in rr["rowan"].get("panic", "") and import_nonstring(toks):
                    return K_ROWAN_UPLUS        # together with C06-rowan-import-nonstring-panic
            if toks is not None and any(toks[j] in ("local", "assert") and toks[j - 1] in OP_TOKENS
                                        for j in range(1, len(toks))):
                return K_ROWAN_LOCAL
        if v["ir"] == "err" and v["rowan"] == "ok":
            if r.get("lex_error") is True:
                return K_ROWAN_LEX
            rr = repaired("local_list")
            if rr and "ok" in rr["ir"] and rr["rowan"].get("errors") == 0:
                return K_ROWAN_LENIENT
        return None
    if what == "rowan-panic":
        if "parser.rs:855" in r["rowan"]["panic"] and import_nonstring(toks):
            return K_ROWAN_IMPORT
        return None
    return None


# literal-corpus inputs with a reviewed divergence: (source, kind of disagreement) -> finding
def _corpus_known():
    t = {}
    for src in ['"\\/"', '"\\ud83d"', '"\\ude00"', '"\\ud83dx"', '"\\u12"', '"\\u12G4"', '"\\q"', '"\\a"',
                '"\\0"', '"\\\n"', "1e400", "1.7976931348623159e308"]:
        t[(src, "rowan")] = K_ROWAN_LEX
    for src in ["00", "01", "007", "0_1", "1.e3", "1._5", "1.foo", "1.e", "2.x", "0.x", "1_000.foo"]:
        t[(src, "accept")] = K_PEG_NUM
    t[("1 /***/", "accept")] = K_LEX_COMMENT
    for src in ["a++b", "a+-+b"]:
        t[(src, "rowan")] = K_ROWAN_UPLUS
    for src in ["{a: :b}", "{a:: :b}", "{a : :: b}"]:
        t[(src, "accept")] = K_IR_COLONS
    for src in ["[,]", "{,}", "local a(,) = 1; a", "function(,) 1"]:
        t[(src, "accept")] = K_PEG_LONE_COMMA
    for src in ["[1 for x in y,]", "[1 if z for x in y]", "{[k]: 1 for k in y, }"]:
        t[(src, "rowan")] = K_ROWAN_COMP
    for src in ["local a = 1,; a", "local ; a"]:
        t[(src, "accept")] = K_PEG_LOCAL
        t[(src, "rowan")] = K_ROWAN_LENIENT
    for src in ["a + local x = 1; x + 1", "a * local x = 1; x", "-local x = 1; x", "a + assert b; c"]:
        t[(src, "rowan")] = K_ROWAN_LOCAL
    return t


CORPUS_KNOWN = _corpus_known()


# ------------------------------------------------------------------ part C: literal decoding
# (source, value the Jsonnet specification assigns).  Written by hand from the specification:
# escapes \" \' \\ \/ \b \f \n \r \t \uXXXX (UTF-16 surrogate pairs combine), verbatim strings
# double their quote, a text block strips the first line's indentation from every line and
# `|||-` drops the final newline; `_` in numbers is a digit separator.
def _f(x):
    return ["n", str(core.float_to_bits(x))]


LITERAL_SPEC = [
    (r'"a\\b"', ["s", "a\\b"]), (r'"\""', ["s", '"']), (r"'\''", ["s", "'"]), (r'"\'"', ["s", "'"]),
    (r'"\b\f\n\r\t"', ["s", "\b\f\n\r\t"]), (r'"\u0041\u00e9\u4e2d"', ["s", "A\u00e9\u4e2d"]),
    (r'"\ud83d\ude00"', ["s", "\U0001F600"]), (r'"\u0000x"', ["s", "\x00x"]), (r'"\uABCD"', ["s", "\uabcd"]),
    (r'"\uabcd"', ["s", "\uabcd"]), ('"x\ny"', ["s", "x\ny"]), ("'it''s'", None), ('"\t"', ["s", "\t"]),
    ('@"a""b"', ["s", 'a"b']), ("@'a''b'", ["s", "a'b"]), ('@"a\\nb"', ["s", "a\\nb"]), ("@'\\'", ["s", "\\"]),
    ('@"a\nb"', ["s", "a\nb"]), ('@""""', ["s", '"']), ("@''", ["s", ""]), ('@"\'\'"', ["s", "''"]),
    ("|||\n  a\n|||", ["s", "a\n"]), ("|||\n  a\n  b\n|||", ["s", "a\nb\n"]),
    ("|||\n  a\n\n  b\n|||", ["s", "a\n\nb\n"]), ("|||\n\n  a\n|||", ["s", "\na\n"]),
    ("|||\n  a\n   b\n|||", ["s", "a\n b\n"]), ("|||\n\ta\n\tb\n|||", ["s", "a\nb\n"]),
    ("|||-\n  a\n|||", ["s", "a"]), ("|||-\n  a\n  b\n|||", ["s", "a\nb"]), ("|||-\n  a\n\n|||", ["s", "a\n"]),
    ("|||\n    a\n  |||", ["s", "a\n"]), ("|||\n  a\n |||", ["s", "a\n"]), ("|||   \n  a\n|||", ["s", "a\n"]),
    ("|||\n  a|||\n|||", ["s", "a|||\n"]), ("|||\n  a\\n\n|||", ["s", "a\\n\n"]), ("|||\n  a\n  \n|||", ["s", "a\n\n"]),
    ("|||\n  \u00e9\u4e2d\n|||", ["s", "\u00e9\u4e2d\n"]), ("|||\n \ta\n \tb\n|||", ["s", "a\nb\n"]),
    ("0", _f(0.0)), ("1", _f(1.0)), ("10", _f(10.0)), ("1_000", _f(1000.0)), ("1_000.000_1", _f(1000.0001)),
    ("1_0e1_0", _f(1e11)), ("1.5", _f(1.5)), ("0.25", _f(0.25)), ("1e3", _f(1000.0)), ("1E3", _f(1000.0)),
    ("1e+3", _f(1000.0)), ("25e-2", _f(0.25)), ("1.5e0", _f(1.5)), ("0.1", _f(0.1)), ("0e0", _f(0.0)),
    ("1e05", _f(1e5)), ("9007199254740993", _f(9007199254740992.0)), ("1.7976931348623157e308", _f(1.7976931348623157e308)),
    ("4.9e-324", _f(5e-324)), ("123456789012345678901234567890", _f(1.2345678901234568e29)), ("1e-400", _f(0.0)),
]


def part_c(run, binary, failures):
    cases = [(s, e) for s, e in LITERAL_SPEC if e is not None]
    res = parse_batch(binary, [s for s, _ in cases])
    for (src, exp), r in zip(cases, res):
        run.count("C:literal")
        run.note_case("C:" + src, True)
        for who in ("ir", "peg"):
            got = r[who].get("ok")
            if got != exp:
                failures.append({"case": {"source": src, "part": "C"}, "parser": who, "what": "literal",
                                 "summary": f"C06 {who}-parser decodes the literal {src!r} to {json.dumps(got)[:120]}, "
                                            f"the specification says {json.dumps(exp)[:120]}",
                                 "expected": exp, "got": r[who]})
        if r["rowan"].get("errors") != 0:
            failures.append({"case": {"source": src, "part": "C"}, "parser": "rowan", "what": "literal",
                             "summary": f"C06 rowan-parser reports an error for the valid literal {src!r}",
                             "expected": "no error", "got": r["rowan"]})
    if run.samples is not None and len(run.samples) < 12:
        run.samples.append({"literal": cases[5][0], "decoded": cases[5][1]})


# ------------------------------------------------------------------ the check
def check(run, terrs):
    proofs_ok, detail = core.check_property_file(run, "C06")
    binary, err = core.build_harness(run)
    if not binary:
        run.obligation("harness.build", False, err)
        return core.conclude(run, False, err, [], [])
    failures, model_diffs = [], []
    part_a(run, binary, failures, model_diffs)
    part_b(run, binary, failures)
    part_c(run, binary, failures)
    if os.environ.get("C06_EXPLORE"):
        explore(failures)
    run.trusted = TRUSTED
    run.assumptions = ASSUMPTIONS
    return core.conclude(run, proofs_ok, detail, failures, model_diffs,
                         search=(lambda: search(run, binary)) if run.tier == "quick" else None,
                         level="proof", rule=RULE)


def explore(failures):
    import collections
    cl = collections.Counter()
    ex = {}
    for f in failures:
        k = (f.get("known"), f.get("what") or f.get("parser"), f["case"].get("kind", "A"))
        cl[k] += 1
        ex.setdefault(k, []).append(f["case"]["source"])
    for k, n in cl.most_common():
        print("EXPLORE", n, k, [s[:70] for s in ex[k][:(40 if k[0] is None else 3)]])


def search(run, binary):
    """an obligation or the model correspondence broke: thorough-scope enumeration of both parts"""
    run.log("search: thorough-scope enumeration")
    old = run.tier
    run.tier = "thorough"
    fs, md = [], []
    try:
        part_a(run, binary, fs, md)
        part_b(run, binary, fs, cases=exhaustive_strings(run)[:1500000] + programs(run)[:20000])
    finally:
        run.tier = old
    return fs


def replay(run, data):
    binary, err = core.build_harness(run)
    f = data.get("failure", {})
    src = f.get("case", {}).get("source")
    if src is None or not binary:
        print(json.dumps(data, indent=1)[:3000])
        return 1
    out = parse_batch(binary, [src])[0]
    print("source  :", repr(src))
    print("expected:", f.get("expected"))
    print("was     :", json.dumps(f.get("got"))[:1500])
    print("now     : ir   ", json.dumps(out["ir"])[:700])
    print("          peg  ", json.dumps(out["peg"])[:700])
    print("          rowan", json.dumps(out["rowan"])[:300])
    if f.get("case", {}).get("part") == "A":
        toks = f["case"]["tokens"]
        back = {v: k for k, v in SYM.items()}
        ts = [ATOMS.index(t) if t in ATOMS else (t if t in "()!~" else back[t]) for t in toks]
        m = core.coq_eval(IMPORTS, [f"run_case {cq_list([tok_coq(t) for t in ts])}"])[0]
        print("grammar :", show(tree_of_coq(m[0])), "| models ir/peg/rowan:",
              show(tree_of_coq(m[1])), show(tree_of_coq(m[2])), show(tree_of_coq(m[3])))
    d = disagreements(out)
    print("still disagreeing:" if d else "the parsers agree now", d)
    return 0


RULE = ("A (model-tied): all token strings of length<=4 over {a ( ) - * ! ^ + <} and length 5 over {a ( ) - * ^}, "
        "every operator pair/prefix pair in every position, random operator trees (19 binary, 4 prefix operators, "
        "depth<=4) rendered with minimal and with redundant parentheses, single-token mutations; "
        "B (differential ir/peg/rowan): all token strings of length<=4 over a 25-token alphabet, generated valid "
        "programs (objects, comprehensions, params/args, slices, suffix chains, locals, asserts, imports) and 3 "
        "single-token mutations of each, a 400-entry literal/lexing corpus; distinct = distinct source text; "
        "non-trivial = at least 3 tokens and (part A) accepted by the grammar / (part B exhaustive) accepted by "
        "ir-parser")
TRUSTED = ["Coq 8.16.1 kernel incl. vm_compute (no native_compute); no axioms (all C06 theorems closed)",
           "translator/gens/prec.py: the three binding-power tables are copied from the Rust match arms and the "
           "peg `precedence!` block; self-checks that the loops still compare with `lbp < min`",
           "assumption tied only by correspondence: rust-peg's precedence! climbing equals the Pratt loop over the "
           "extracted level list; rowan's event tree has no error exactly when the loop model accepts",
           "SPEC = my reading of the Jsonnet specification's precedence table (ref_level, wf) — pinned in Pins.v",
           "correspondence: jrharness parse (span-erasing visitor), vlib generators, Coq term printer/parser",
           "outside the proof: suffixes, objects, params/args, comprehensions, literals, lexing — differential only "
           "(ir vs peg vs rowan, no third-party arbiter)"]
ASSUMPTIONS = ["impl-model transliterates expr_bp / expr_binding_power; tie = differential run on every check",
               "known classes are verified per input: the class's canonical repair must restore agreement"]
