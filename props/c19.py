"""C19 — formatting preserves the program.

Theorems: coq/theories/C19 (children.rs partition is lossless and order preserving; comments.rs
keeps every line of a block comment up to a whitespace/`*` gutter; same non-trivia tokens =>
same tree for any position-insensitive parser).  No Gallina model of dprint-core.
Deciding part: generated valid programs (every construct, 4 whitespace styles), also decorated
with comments at list slots / at every token boundary; for indent in {tabs, 2, 4} the output of
jrsonnet_formatter::format must be a diagnostic or (i) be accepted by jrsonnet_ir_parser,
(ii) have the same span-erased Expr modulo the two documented sugar pairs, (iii) carry the same
comment sequence up to the normalisation of C19_comment_text_preserved.  The two kernels are run
side by side with the real code: the Coq model of format_comments must predict the text of every
block comment in the real output, and the Coq model of children() must predict which comments
the real formatter prints before / after each element of generated arrays.
"""
import json

from vlib import core
from props import fmtcommon as F

IMPORTS = "From Coq Require Import List NArith Bool.\nFrom JrV Require Import C19.Model.\nImport ListNotations.\n"


def run_fmt(binary, srcs, lists=False):
    return core.run_harness(binary, "fmt", [{"src": s, "lists": lists} for s in srcs], timeout=600)


def kernel_side_by_side(run, binary, cases, outs):
    """model vs code on the trivia the real trees contain.
    (a) every MULTI_LINE_COMMENT of an input whose id survives: the Coq fmt_ml + render_ml at the
        indentation found in the output must give exactly the comment text found in the output;
    (b) python port of fmt_ml == Coq fmt_ml on the same comments (the port is used by the
        known-finding classifiers)."""
    diffs = []
    jobs = []  # (input token, indent string, output token)
    for case, o in zip(cases, outs):
        if "ok" not in o.get("tree", {}):
            continue
        for ind, f in o["fmt"].items():
            if "ok" not in f:
                continue
            y = f["ok"]
            outc = {}
            for k, t in f["lex"]["comments"]:
                if k == "MULTI_LINE_COMMENT":
                    m = F.CID.search(t)
                    if m:
                        outc[m.group(1)] = t
            for k, t in o["lex"]["comments"]:
                if k != "MULTI_LINE_COMMENT":
                    continue
                m = F.CID.search(t)
                if m and m.group(1) in outc:
                    t_out = outc[m.group(1)]
                    p = y.find(t_out)
                    jobs.append((t, F.find_indent(y, p), t_out))
    seen, uniq = set(), []
    for j in jobs:
        if j not in seen:
            seen.add(j)
            uniq.append(j)
    uniq = uniq[:400 if run.tier == "quick" else 4000]
    exprs = [f"(fmt_ml {F.cq_str(t)}, option_map (render_ml {F.cq_str(ind)}) (fmt_ml {F.cq_str(t)}))"
             for t, ind, _ in uniq]
    res = core.coq_eval(IMPORTS, exprs)
    n_ok = 0
    for (t, ind, t_out), r in zip(uniq, res):
        if isinstance(r, tuple) and r and r[0] == "ERROR":
            run.obligation("model.eval(fmt_ml)", False, str(r[1])[:300])
            break
        m_out, m_text = r
        port = F.fmt_ml(t)
        if F.coq_ml_out(m_out) != port:
            diffs.append({"case": {"comment": t}, "model": repr(m_out)[:200], "python_port": repr(port)[:200]})
            continue
        text = "".join(chr(int(c)) for c in m_text.args[0]) if isinstance(m_text, core.App) else None
        if text != t_out:
            diffs.append({"case": {"comment": t, "indent": ind}, "model": text, "code": t_out})
        else:
            n_ok += 1
    run.count("kernel:block-comments-predicted", n_ok)
    run.log(f"comment kernel: {n_ok}/{len(uniq)} block comments of the real output predicted by the Coq model")
    return diffs


def children_side_by_side(run, binary):
    """arrays of numbers with generated trivia between the elements: the Coq [children] model
    gives before/inline/ending comments of every element; the real formatter must print the
    before-comments on the lines above the element, the inline ones behind it on its line and
    the ending ones after the last element."""
    rng = run.rng.fork("children")
    n = 120 if run.tier == "quick" else 1500
    cases = []
    for i in range(n):
        ne = rng.randint(1, 4)
        items = []   # ("n", v) | ("t", kind, text) | ("sep",)
        src = "["
        cid = 0

        def trivia():
            nonlocal cid, src
            out = []
            for _ in range(rng.choice([0, 1, 1, 2, 3])):
                k = rng.below(5)
                if k == 0:
                    cid += 1
                    t = f"/*k{cid}q*/"
                    out.append(("MLc", t))
                elif k == 1:
                    cid += 1
                    t = f"/*\nk{cid}q\n*/"
                    out.append(("MLc", t))
                elif k == 2:
                    t = rng.choice([" ", "\n", "\n\n", "  "])
                    out.append(("Ws", t))
                elif k == 3:
                    t = " "
                    out.append(("Ws", t))
                else:
                    t = "\n"
                    out.append(("Ws", t))
            # merge adjacent whitespace (one token for the lexer)
            merged = []
            for k, t in out:
                if merged and merged[-1][0] == "Ws" and k == "Ws":
                    merged[-1] = ("Ws", merged[-1][1] + t)
                else:
                    merged.append((k, t))
            for k, t in merged:
                items.append(("t", k, t))
                src += t

        for e in range(ne):
            trivia()
            v = 10 + e
            items.append(("n", v))
            src += str(v)
            trivia()
            if e + 1 < ne or rng.chance(0.3):
                items.append(("sep",))
                src += ","
        trivia()
        src += "]"
        cases.append((src, items))
    exprs = []
    for src, items in cases:
        its = []
        for it in items:
            if it[0] == "n":
                its.append(f"INode {it[1]}")
            elif it[0] == "sep":
                its.append("ISep")
            else:
                its.append(f"ITriv {it[1]} {F.cq_str(it[2])}")
        exprs.append("children_case [" + "; ".join(its) + "]")
    res = core.coq_eval(IMPORTS, exprs)
    outs = core.run_harness(binary, "fmt", [{"src": s, "indents": [2], "tree": False} for s, _ in cases])
    diffs = []
    ok = 0
    for (src, items), r, o in zip(cases, res, outs):
        if isinstance(r, tuple) and r and r[0] == "ERROR":
            run.obligation("model.eval(children)", False, str(r[1])[:300])
            break
        f = o["fmt"]["2"]
        if "ok" not in f or not isinstance(r, core.App):
            diffs.append({"case": {"src": src}, "model": repr(r)[:200], "code": f})
            continue
        cs, (e_nl, e_triv) = r.args[0]
        y = f["ok"]
        # expected placement, read off the output text line by line
        def ids(trs):
            out = []
            for k, t in trs:
                if int(k) == 1:
                    out += F.re.findall(r"k(\d+)q", "".join(chr(int(c)) for c in t))
            return out
        exp = []
        for c in cs:
            c_nl, before, val, inline, multi = c
            exp.append((int(val), ids(before), ids(inline)))
        exp_end = ids(e_triv)
        got = []
        pending = []
        lines = y.split("\n")
        for ln in lines:
            m = F.re.match(r"^\s*(?:\[\s*)?((?:/\*\s*k\d+q\s*\*/\s*)*)(\d+),?((?:\s*/\*\s*k\d+q\s*\*/)*)", ln)
            found = F.re.findall(r"k(\d+)q", ln)
            mm = F.re.search(r"(?<![kq\d])(\d\d)(?!q)", ln)
            if mm and F.re.search(r"(?:^|[\s\[,])" + mm.group(1) + r"(?:,|\s|\]|$)", ln):
                pre = F.re.findall(r"k(\d+)q", ln[:mm.start()])
                post = F.re.findall(r"k(\d+)q", ln[mm.end():])
                got.append((int(mm.group(1)), pending + pre, post))
                pending = []
            else:
                pending += found
        got_end = pending
        # single-line arrays print several elements on one line: only judge the multi-line layout
        if y.count("\n") <= 1 or any(len(F.re.findall(r"(?<![kq\d])\d\d(?!q)", ln)) > 1 for ln in lines):
            run.count("kernel:children-single-line-skipped")
            continue
        if got != exp or got_end != exp_end:
            diffs.append({"case": {"src": src}, "model": repr((exp, exp_end)), "code": repr((got, got_end)),
                          "output": y})
        else:
            ok += 1
    run.count("kernel:children-arrays-predicted", ok)
    run.log(f"children kernel: placement of comments predicted for {ok}/{len(cases)} arrays")
    return diffs


def correspond(run, binary):
    cases = F.build_cases(run)
    run.log(f"{len(cases)} programs")
    outs = run_fmt(binary, [c["src"] for c in cases])
    failures, model_diffs = [], []
    repro = {}
    for case, o in zip(cases, outs):
        if o is None or "fmt" not in o:
            failures.append({"case": {"src": case["src"]}, "what": "harness gave no answer", "got": o,
                             "expected": "answer", "summary": "C19 harness failure"})
            continue
        fs = F.c19_failures(case, o)
        gen_bug = [f for f in fs if f.get("generator_bug")]
        if gen_bug:
            run.count("generator:invalid-program")
            continue
        failures += fs
        nontrivial = len(o["lex"]["tokens"]) >= 4
        run.note_case(case["src"], nontrivial)
        run.count("stream:" + case["stream"])
        run.count("style:" + case["style"])
        for k, v in case["features"].items():
            run.count("construct:" + k.split(":")[0], v)
        for c in case["comments"]:
            run.count("comment:" + c["form"] + "@" + ("list-slot" if c["slot"] in F.SAFE_SLOTS else c["slot"]))
        for ind, f in o["fmt"].items():
            run.count("outcome:" + ("formatted" if "ok" in f else "declined" if "diag" in f else "panic"))
        if case.get("canonical", "").startswith("C19"):
            repro[case["canonical"]] = any(f.get("known") == case["canonical"] for f in fs)
        if case.get("fixed", "").startswith("C19") and F.FIXED[case["fixed"]][1] == "preserved":
            formatted = all("ok" in f for f in o["fmt"].values())
            run.obligation(f"fixed-finding-stays-fixed.{case['fixed']}", formatted and not fs,
                           f"{case['src']!r}: expected the same program at every indent, got "
                           f"{json.dumps([f.get('ok', f) for f in o['fmt'].values()])[:300]}")
        if len(run.samples) < 8 and case["stream"] in ("clean-slot-comments", "clean") and nontrivial \
                and "ok" in o["fmt"]["2"]:
            run.samples.append({"input": case["src"][:300], "indent": 2, "output": o["fmt"]["2"]["ok"][:300]})
    for fid, ok in sorted(repro.items()):
        run.obligation(f"known-finding-still-reproduces.{fid}", ok,
                       "" if ok else f"canonical input {F.CANONICAL[fid]!r} no longer shows the finding: "
                                     "remove it from props/c19.meta.json")
    declined_clean = sum(1 for c, o in zip(cases, outs) if c["stream"] == "clean" and o and
                         all("diag" in f for f in o.get("fmt", {}).values()))
    n_clean = sum(1 for c in cases if c["stream"] == "clean")
    run.obligation("clean programs are formatted, not declined (>= 90%)", declined_clean * 10 <= n_clean,
                   f"{declined_clean}/{n_clean} declined")
    model_diffs += kernel_side_by_side(run, binary, cases, outs)
    model_diffs += children_side_by_side(run, binary)
    return failures, model_diffs


def check(run, terrs):
    stale = F.source_tie_obligations(run, terrs)
    proofs_ok, detail = core.check_property_file(run, "C19")
    binary, err = core.build_harness(run)
    if not binary:
        run.obligation("harness.build", False, err)
        return core.conclude(run, False, err, [], [])
    failures, model_diffs = correspond(run, binary)
    run.trusted = TRUSTED
    run.assumptions = ASSUMPTIONS
    return core.conclude(run, proofs_ok, detail, failures, model_diffs,
                         search=lambda: F.source_tie_search(run, binary, stale, "C19"),
                         level="proof", rule=RULE, explanation=EXPLANATION)


def replay(run, data):
    binary, err = core.build_harness(run)
    f = data.get("failure", {})
    c = f.get("case", {})
    src = c.get("src")
    if src is None:
        print(json.dumps(data, indent=1)[:3000])
        return 1
    o = run_fmt(binary, [src])[0]
    print("input   :", repr(src))
    print("indent  :", c.get("indent"))
    print("what    :", f.get("what"))
    print("was     :", json.dumps(f.get("got"))[:600])
    print("now     :", json.dumps(o["fmt"].get(str(c.get("indent", 2))))[:1500])
    return 0


RULE = ("generated valid programs over every construct (unary/binary operators, calls with named args and "
        "tailstrict, slices, array/object comprehensions, six string forms incl. text blocks with tabs, blank "
        "lines and chomping, single- and multi-binding locals, function sugar, asserts, object locals/asserts, "
        "methods, visibilities, computed names, imports, super, object extension) in four whitespace styles, "
        "plain and decorated with //, #, /* */, multi-line /* */ and /** */ comments at list slots or at any "
        "token boundary; x 3 indent settings; distinct = distinct source text, non-trivial = at least 4 tokens")
EXPLANATION = ("partial proof + exploration: theorems cover the two hand-written kernels and the token "
               "reduction; everything dprint-core decides and every Printable impl is only tested")
TRUSTED = ["Coq 8.16.1 kernel incl. vm_compute (no native_compute)",
           "no axioms (all C19 theorems closed under the global context)",
           "jrharness fmt (formatter, lexer, ir-parser under catch_unwind), vlib generators, Coq term parser",
           "translator/gens/fmtkernels.py (reads children.rs statement by statement, fails closed on anything "
           "else) and the loop interpreter C19/ModelSource.src_run_loop of the translated step",
           "modelled not verified: dprint-core layout, every Printable impl, rowan tree construction, "
           "logos lexer; C19_parse_depends_on_tokens takes position-insensitivity of the parser as hypothesis"]
ASSUMPTIONS = ["children.rs (count_newlines_before/after, should_start_with_newline, children) is translated statement "
               "by statement into Gen/GenFmt.v on every run and proved equal to the model "
               "(C19_model_is_translated_source_*); the element classification (T::cast / Trivia::cast / "
               "CustomError / TS![, ;]) is abstracted into the five item constructors",
               "comments.rs transliterated by hand; tie = side-by-side run on every check "
               "(block comment text and comment placement in arrays predicted by the Coq model)",
               "format() refuses every input with syntax errors, so error elements never reach children()"]
