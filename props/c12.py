"""C12 — std.format and the % operator implement printf-style formatting.

Theorems: coq/theories/C12 (the transliterated u16 parser refines the conversion-specifier
grammar on every string; the digit vector round-trips; the saturating padding/precision/prefix
arithmetic of render_integer equals std.jsonnet's render_int / render_hex; values are consumed
left to right; width is exact in code points; object-mode rules; refutation witnesses for the
known defect classes).
Tie: translator/gens/format.py regenerates the conversion / flag / length-modifier tables, the
digit alphabet, radixes, prefixes and default precisions from format.rs (Gen/GenFormat.v);
the correspondence runs the impl-model AND the spec (Eval vm_compute) and the real code
(`fmt % vals`, std.format, std.mod through jrharness eval) on the same cases:
  full product flag subsets (32) x width {none,0,1,5,*} x precision {none,.0,.1,.3,.*} x 15
  conversion letters (quick: a seeded twelfth plus a fixed 525-code grid) x 22 arguments; malformed / truncated strings
  (every prefix of valid codes, unknown letters, `%(`, `%(k`, u16-overflowing widths, repeated
  length modifiers); object mode with nested / dotted / missing keys; multi-code strings with
  too few / too many values.
Oracles: the Coq SPEC; for d i u o x X c s %% additionally Python's own % operator on the
subset where Python and Jsonnet agree by definition (checked against the SPEC on every run).
Float conversions are judged only inside the class where the code's binary64 arithmetic cannot
flip a rounding decision (scaled value at least 1e-6 away, relatively, from a .5 boundary, below
2^52, not next to a power of ten); outside it the difference is counted and reported, never
alarmed.
"""
import json
from fractions import Fraction

from vlib import core

IMPORTS = ("From Coq Require Import List ZArith NArith.\nFrom JrV Require Import Gen.GenFormat C12.Model.\n"
           "Import ListNotations.\nOpen Scope N_scope.\n")

CONVS = "diuoxXeEfFgGcs%"
FLAGS = "#0- +"
ERR_NAMES = {1: "truncated", 2: "unrecognized", 3: "not-enough", 4: "too-many", 5: "star-with-object",
             6: "keys-required", 7: "no-field", 8: "type", 9: "char", 10: "PANIC", 11: "FUEL", 12: "too-large"}

# known-finding ids (props/c12.meta.json)
K_SAT = "C12-int-i64-saturation"
K_FPREC = "C12-float-precision-pow-overflow"


# ------------------------------------------------------------------ values
# python-side value: ("num", float) ("str", s) ("null",) ("bool", b) ("arr", [v..]) ("obj", [(k, v)..])
def V(x):
    if isinstance(x, tuple):
        return x
    if x is None:
        return ("null",)
    if isinstance(x, bool):
        return ("bool", x)
    if isinstance(x, (int, float)):
        return ("num", float(x))
    if isinstance(x, str):
        return ("str", x)
    if isinstance(x, list):
        return ("arr", [V(e) for e in x])
    if isinstance(x, dict):
        return ("obj", [(k, V(v)) for k, v in x.items()])
    raise ValueError(x)


def num_js(f):
    if f == 0 and str(f).startswith("-"):
        return "(-0.0)"
    if f == int(f) and abs(f) < 1e17:
        return str(int(f)) if f >= 0 else f"({int(f)})"
    r = repr(f)
    return r if f >= 0 else f"({r})"


def val_js(v):
    t = v[0]
    if t == "num":
        return num_js(v[1])
    if t == "str":
        return core.jstr(v[1])
    if t == "null":
        return "null"
    if t == "bool":
        return "true" if v[1] else "false"
    if t == "arr":
        return "[" + ", ".join(val_js(e) for e in v[1]) + "]"
    if t == "obj":
        return "{" + ", ".join(f"{core.jstr(k)}: {val_js(e)}" for k, e in v[1]) + "}"
    raise ValueError(v)


def cps(s):
    return "[" + "; ".join(str(ord(c)) for c in s) + "]"


class Shown:
    """std.toString of every value the cases use, asked from the real code once (to_string is
    C05's business; `%s` is only required to insert that text)."""

    def __init__(self):
        self.map = {}

    def need(self, v, acc):
        k = val_js(v)
        if k not in self.map and k not in acc:
            acc[k] = v
        if v[0] == "arr":
            for e in v[1]:
                self.need(e, acc)
        if v[0] == "obj":
            for _, e in v[1]:
                self.need(e, acc)

    def resolve(self, binary, vals):
        acc = {}
        for v in vals:
            self.need(v, acc)
        keys = list(acc)
        outs = core.run_harness(binary, "eval", [{"code": f"std.toString({k})"} for k in keys])
        for k, o in zip(keys, outs):
            if "ok" not in o or not isinstance(o["ok"], str):
                raise RuntimeError(f"std.toString({k}) failed: {o}")
            self.map[k] = o["ok"]

    def of(self, v):
        return self.map[val_js(v)]


def val_coq(v, shown):
    t = v[0]
    if t == "num":
        n, d = v[1].as_integer_ratio()
        return f"(VNum ({n})%Z ({d})%Z {cps(shown.of(v))})"
    if t == "str":
        return f"(VStr {cps(v[1])})"
    if t in ("null", "bool", "arr"):
        return f"(VOpq {cps(shown.of(v))})"
    if t == "obj":
        return f"(VObj {fields_coq(v[1], shown)} {cps(shown.of(v))})"
    raise ValueError(v)


def fields_coq(fs, shown):
    return "[" + "; ".join(f"({cps(k)}, {val_coq(e, shown)})" for k, e in fs) + "]"


def top_coq(v, shown):
    if v[0] == "arr":
        return "(TArr [" + "; ".join(val_coq(e, shown) for e in v[1]) + "])"
    if v[0] == "obj":
        return f"(TObj {fields_coq(v[1], shown)})"
    return f"(TOne {val_coq(v, shown)})"


ARGS = [V(x) for x in (0, 1, -1, 7, 255, -255, 0.5, -0.5, 1.5, 2.5, 1e6, 123456789, 2.0 ** 53, 1e30, 1e-5,
                       "x", "é", "", [1], {"a": 1}, None, True)]
# thorough tier / search add a few more numbers
ARGS_EXTRA = [V(x) for x in (-1.5, -2.5, 8, 65, 0.25, 9.5, 99.5, 1234.5678, -0.001, 2.0 ** 63, -2.0 ** 63, 1e15,
                             0.000123456, 1e22, 3, "ab", "\U0001F600", [[1]], 65.7)]


# ------------------------------------------------------------------ cases
class Case:
    """fmt % arg;  codes: list of parsed (flags, width, prec, conv) when the generator knows them"""
    __slots__ = ("fmt", "arg", "kind", "code", "route", "fcodes")

    def __init__(self, fmt, arg, kind, code=None, route="%", fcodes=None):
        self.fmt, self.arg, self.kind, self.code, self.route = fmt, arg, kind, code, route
        self.fcodes = fcodes or []   # multi-code strings: (letter, precision, number) of every float conversion

    def jsonnet(self):
        f, a = core.jstr(self.fmt), val_js(self.arg)
        if self.route == "std.format":
            return f"std.format({f}, {a})"
        if self.route == "std.mod":
            return f"std.mod({f}, {a})"
        return f"{f} % {a}"

    def key(self):
        return self.jsonnet()


def code_text(flags, width, prec, conv, key=None):
    s = "%"
    if key is not None:
        s += "(" + key + ")"
    s += flags
    s += "" if width is None else ("*" if width == "*" else str(width))
    if prec is not None:
        s += "." + ("*" if prec == "*" else str(prec))
    return s + conv


def product_codes():
    out = []
    for m in range(32):
        flags = "".join(FLAGS[i] for i in range(5) if m >> i & 1)
        for w in (None, 0, 1, 5, "*"):
            for p in (None, 0, 1, 3, "*"):
                for cv in CONVS:
                    out.append((flags, w, p, cv))
    return out


def product_cases(rng, codes, args):
    cases = []
    for flags, w, p, cv in codes:
        nonnum = [a for a in args if a[0] != "num"]
        keep_nonnum = set()
        if cv in "diuoxXeEfFgG" and len(nonnum) > 2:
            # the outcome (a type error) does not depend on flags/width/precision: two seeded picks per code
            keep_nonnum = {val_js(rng.choice(nonnum)), val_js(rng.choice(nonnum))}
        for a in args:
            if keep_nonnum and a[0] != "num" and val_js(a) not in keep_nonnum:
                continue
            stars = []
            if w == "*":
                stars.append(V(rng.choice([0, 1, 5, 7])))
            if p == "*":
                stars.append(V(rng.choice([0, 1, 2, 3, 6])))
            arg = ("arr", stars + [a]) if stars else a
            wv = stars[0][1] if w == "*" else w
            pv = stars[-1][1] if p == "*" else p
            # the value the code is applied to: a one-element array handed over whole IS the value list
            eff = a[1][0] if (not stars and a[0] == "arr" and len(a[1]) == 1) else a
            cases.append(Case(code_text(flags, w, p, cv), arg, "product",
                              code=(flags, None if wv is None else int(wv), None if pv is None else int(pv), cv, eff)))
    return cases


def malformed_cases(rng):
    cases = []
    one = V(1)
    full = ["%(key)#0- +12.34ld", "%-08.3f", "%*.*d", "%(a.b)s", "%+5hX", "%.3Le", "%05%", "% g", "%#o", "%(é)c"]
    for f in full:
        for i in range(1, len(f) + 1):
            pre = f[:i]
            for arg in (one, V([5, 3, 1]), V({"key": 1, "a": {"b": 2}, "é": "z"})):
                cases.append(Case(pre, arg, "prefix"))
            cases.append(Case("ab" + pre, V({"key": 1, "a": {"b": 2}, "é": "z"}), "prefix"))
    for ch in "abhjklmnpqrtvwyzABCDHIJKLMNOPQRSTUVWYZ!$&'),/:;<=>?@[]^_`{|}~é中19":
        cases.append(Case("%" + ch, one, "unknown-letter"))
        cases.append(Case("%5." + ch, one, "unknown-letter"))
    for f in ("%", "%(", "%(k", "abc%", "%5", "%5.", "%.", "%l", "%-", "%(k)", "%(k)s%", "%%%", "% ", "%#", "%*",
              "%.*", "%5.3", "%5.3l", "x%", "é%"):
        for arg in (one, V([]), V({"k": 1})):
            cases.append(Case(f, arg, "truncated"))
    # u16 accumulator
    for f in ("%65535d", "%65536d", "%99999d", "%.65536d", "%70000", "%655350d", "%065536d", "%1.99999f",
              "%65535.65535d", "%(k)65536d", "%6553", "%65536", "%65536%", "a%65540s", "%.65535d"):
        cases.append(Case(f, one, "big-width"))
    for f in ("%.65535f", "%#.65535e", "%.65535G", "%.309f", "%.308f", "%.310e", "%.400g"):
        cases.append(Case(f, one, "big-precision"))
    # length modifiers
    for f in ("%ld", "%hd", "%Ld", "%lld", "%hhd", "%lhLd", "%llld", "%5.2lld", "%lls", "%ll", "%hl", "%lx", "%ll%",
              "hello %d", "%dll", "%l%"):
        cases.append(Case(f, V(5), "lenmod"))
    return cases


def object_cases(rng):
    obj = V({"a": 1, "b": "x", "c": {"d": 2.5, "e": {"f": "é"}}, "a.b": 7, "é": 3, "n": None, "": 9, "k.": 4})
    cases = []
    for f in ("%(a)d", "%(b)s", "%(c.d)f", "%(c.e.f)5s|", "%(a.b)d", "%(c.x)s", "%(x)s", "%(c.d.e)s", "%(a)s %(b)s",
              "%(a)s %(zz)s", "%(a)*d", "%(a).*d", "%(a)5.*f", "%d", "%s", "%%", "%(a)%", "%5%", "lit", "%(é)d",
              "%(n)s", "%()s", "%()d", "%(k.)d", "%(c)s", "%(c.)s", "%(.c)s", "%(a)05d|%(b)-4s|%(c.d).1f",
              "%(a)c", "%(b)c", "%(b)d", "%(a)x %(a)o %(a)e %(a)g", "%(a", "%(a)", "%(a)5", "%(c.e)s", "%(a)z"):
        cases.append(Case(f, obj, "object"))
        cases.append(Case(f, V({}), "object"))
    for f in ("%(a)s", "%(a)d", "%(a)5d"):
        for arg in (V([1]), V(1), V("s"), V([]), V(None)):
            cases.append(Case(f, arg, "key-with-array"))
    return cases


LITS = ["", "a", "abc ", " = ", "éü", "中", "100", "x.y", "(k)", "l", "\n", "\U0001F600"]


def multi_cases(rng, n):
    cases = []
    pool = [V(x) for x in (0, 1, -1, 7, 255, 0.5, 2.5, 12.5, "x", "é", "", None, True, 3, 12, [1], 65)]
    # (no huge numbers: a rotated value list can hand any of these to a `*`, and the SPEC accepts any width)
    for _ in range(n):
        k = rng.randint(1, 3)
        fmt, need, vals, clist = rng.choice(LITS), 0, [], []
        for _j in range(k):
            flags = "".join(c for c in FLAGS if rng.chance(0.25))
            w = rng.choice([None, None, 0, 1, 3, 5, 12, "*"])
            p = rng.choice([None, None, 0, 1, 3, "*"])
            cv = rng.choice(CONVS)
            fmt += code_text(flags, w, p, cv) + rng.choice(LITS)
            clist.append((w, p, cv))
            if w == "*":
                vals.append(V(rng.choice([0, 2, 5])))
            if p == "*":
                vals.append(V(rng.choice([0, 1, 3])))
            if cv != "%":
                if cv in "diuoxXeEfFgG":
                    vals.append(rng.choice(pool[:8]))
                elif cv == "c":
                    vals.append(rng.choice([V(65), V("x"), V("é"), V(233)]))
                else:
                    vals.append(rng.choice(pool))
        r = rng.below(10)
        if r == 0 and vals:
            vals = vals[:-1]
        elif r == 1:
            vals = vals + [V(1)]
        elif r == 2 and len(vals) >= 2:
            vals = vals[1:] + vals[:1]
        # which number each float conversion really receives (after the list was cut / extended / rotated)
        fcodes, rest = [], list(vals)
        for w, p, cv in clist:
            if w == "*" and rest:
                rest.pop(0)
            pv = p
            if p == "*":
                pv = rest.pop(0) if rest else None
                pv = int(pv[1]) if pv and pv[0] == "num" and pv[1] == int(pv[1]) and pv[1] >= 0 else 99
            if cv != "%":
                v = rest.pop(0) if rest else None
                if cv in "eEfFgG" and v and v[0] == "num":
                    fcodes.append((cv, pv, v[1]))
        route = rng.choice(["%", "%", "std.format", "std.mod"])
        if len(vals) == 1 and vals[0][0] not in ("arr", "obj") and rng.chance(0.5):
            cases.append(Case(fmt, vals[0], "multi", route=route, fcodes=fcodes))
        else:
            cases.append(Case(fmt, ("arr", vals), "multi", route=route, fcodes=fcodes))
    return cases


# ------------------------------------------------------------------ source tie (Gen/GenFormatParse.v)
# obligations that speak about the functions translated from format.rs by translator/gens/formatparse.py
SRC_OBLIGATIONS = ("translator.GenFormatParse", "C12.C12_model_is_translated_source", "C12.C12_source_")
SRC_VALS = {"d": 7, "x": 254, "o": 9, "s": "v", "c": 65}


def source_broken(run):
    return [n for n, ok, _ in run.obligations if not ok and n.startswith(SRC_OBLIGATIONS)]


def source_cases(rng, sample=None):
    """Format strings built from the grammar  % [(key)] flags width precision length-modifier letter  — the parts in
    the right order and with two neighbouring parts swapped, single / doubled length modifiers, decorated `%%` —
    x value arrays holding exactly / one fewer / one more than the needed number of DISTINCT values (a `*` that
    does not advance the value index, or a `%%` that takes a value, shows in the text or in the count error), and an
    object for keyed codes.  No float conversions (judged elsewhere)."""
    cases = []
    for key in (None, "a"):
        for flags in ("", "-", "0", "#", "+ "):
            for w in (None, 3, "*"):
                for p in (None, 2, "*"):
                    for lm in ("", "l", "ll", "hl"):
                        for cv in "dxsc%":
                            ks = "" if key is None else "(" + key + ")"
                            ws = "" if w is None else str(w)
                            ps = "" if p is None else "." + str(p)
                            orders = [[ks, flags, ws, ps, lm]]
                            if lm in ("", "l"):
                                if flags and ws:
                                    orders.append([ks, ws, flags, ps, lm])
                                if ws and ps:
                                    orders.append([ks, flags, ps, ws, lm])
                                if ps and lm:
                                    orders.append([ks, flags, ws, lm, ps])
                                if ks and flags:
                                    orders.append([flags, ks, ws, ps, lm])
                            vals = ([V(6)] if w == "*" else []) + ([V(2)] if p == "*" else [])
                            if cv != "%":
                                vals.append(V(SRC_VALS[cv]))
                            for parts in orders:
                                fmt = "<%" + "".join(parts) + cv + ">"
                                cases.append(Case(fmt, ("arr", vals), "source-tie"))
                                if vals:
                                    cases.append(Case(fmt, ("arr", vals[:-1]), "source-tie"))
                                cases.append(Case(fmt, ("arr", vals + [V(11)]), "source-tie"))
                                if key is not None:
                                    cases.append(Case(fmt, V({"a": SRC_VALS.get(cv, 1), "b": 0}), "source-tie"))
    # two codes in one string: the second code must see the values the first one left
    for a, b in (("%*d", "%s"), ("%.*d", "%s"), ("%*.*d", "%d"), ("%%", "%d"), ("%d", "%%"), ("%5%", "%*d"),
                 ("%s", "%.*x"), ("%%", "%%"), ("%*%", "%d"), ("%.*%", "%d")):
        for n in range(0, 6):
            cases.append(Case(a + "|" + b, ("arr", [V(x) for x in (4, 3, 9, 8, 1)][:n]), "source-tie"))
    if sample is not None:
        rng.shuffle(cases)
        cases = cases[:sample]
    return cases


WITNESS = {  # one reproducing input per known finding: must keep failing, else the finding is stale
    K_SAT: Case("%d", V(1e30), "witness", code=("", None, None, "d", V(1e30))),
    K_FPREC: Case("%.400f", V(1), "witness"),
}

# the witnesses of the findings fixed in /repo (see props/c12.meta.json "fixed"): now ordinary regression cases
FIXED_WITNESSES = [("%99999d", 1), ("%.0g", 0.5), ("%5s", "é"), ("%#x", 0), ("%x", -1.5), ("%#05o", 0.5),
                   ("%lld", 5), ("%c", -1), ("%.65535f", 1), ("%*d", [70000, 3]), ("%5c", "\U0001F600"),
                   ("%#5.3o", 0.5), ("%#X", 0.25), ("%x", -0.5), ("%.0G", 123456789), ("%#.0g", 0)]


def corpus_cases():
    cs = list(WITNESS.values())
    cs += [Case(f, V(a), "corpus") for f, a in FIXED_WITNESSES]
    cs += [Case("%5.1s", V("abc"), "corpus"), Case("%+010.3g|", V(1.5), "corpus"), Case("%.0e", V(9.5), "corpus"),
           Case("%.0f", V(0.5), "corpus"), Case("%.0f", V(2.5), "corpus"), Case("%#.3o", V(8), "corpus"),
           Case("%c", V(65.7), "corpus"), Case("%c", V(1114112), "corpus"), Case("%c", V(55296), "corpus"),
           Case("%c", V("ab"), "corpus"), Case("%c", V(""), "corpus"), Case("%s", V([[1]]), "corpus"),
           Case("%*d", V([-5, 3]), "corpus"), Case("%*d", V([1.5, 3]), "corpus"), Case("%*d", V(["x", 3]), "corpus"),
           Case("%d", V("x"), "corpus"), Case("%d", V(True), "corpus"), Case("%%", V(1), "corpus"),
           Case("How much error budget is left looking at our %.3f%% availability gurantees?", V(4), "corpus"),
           Case("%#o", V(8), "corpus"), Case("%#4o", V(8), "corpus"), Case("%04o", V(8), "corpus"),
           Case("%+-04o", V(8), "corpus"), Case("%x", V(-0.5), "corpus"), Case("%#x", V(0.5), "corpus"),
           Case("%f", V(1e30), "corpus"), Case("%e", V(0), "corpus"), Case("%g", V(0), "corpus"),
           Case("%G", V(1e-10), "corpus"), Case("%g", V(100000), "corpus"), Case("%#g", V(1), "corpus"),
           Case("%o", V(2.0 ** 63), "corpus"), Case("%d", V(-2.0 ** 63), "corpus"), Case("%d", V(2.0 ** 63 - 1024), "corpus")]
    return cs


# ------------------------------------------------------------------ classification helpers
def parse_simple(fmt):
    """(flags, width, prec, conv) of a format string that is exactly one code without key / modifiers,
    widths as int, '*' or None; None when the string is not of that shape"""
    import re
    m = re.fullmatch(r"%([#0\- +]*)(\*|\d*)(?:\.(\*|\d*))?([a-zA-Z%])", fmt)
    if not m:
        return None
    w = None if m.group(2) == "" else ("*" if m.group(2) == "*" else int(m.group(2)))
    p = None if m.group(3) is None else ("*" if m.group(3) == "*" else int(m.group(3) or 0))
    return m.group(1), w, p, m.group(4)


def max_digit_run(fmt):
    import re
    return max([int(x) for x in re.findall(r"\d+", fmt)] or [0])


def float_judgeable(conv, prec, x):
    """True when the code's binary64 arithmetic provably cannot flip a digit of %e/%f/%g for x
    (so exact-rational SPEC text is what the code must print)."""
    if x == 0:
        return True
    fx = abs(Fraction(x))
    p = 6 if prec is None else prec
    if p > 15:
        return False

    def exp10(q):
        e = 0
        while q >= 10:
            q /= 10
            e += 1
        while q < 1:
            q *= 10
            e -= 1
        return e

    def near_pow10(q):
        e = exp10(q)
        m = q / Fraction(10) ** e  # in [1,10)
        if m == 1:
            return not (0 <= e <= 22)  # exact powers 10^0..10^22: log10 and powf are exact
        return m - 1 < Fraction(1, 10 ** 9) or 10 - m < Fraction(1, 10 ** 8)

    def fixed_ok(q, pp):
        if pp < 0:
            return False
        s = q * 10 ** pp
        if s >= 2 ** 52:
            return False
        frac = s - (s.numerator // s.denominator)
        d = abs(frac - Fraction(1, 2))
        if d == 0:
            # exactly on the boundary: decided identically only if the scaled value is exact in binary64
            return Fraction(float(s)) == s and q == fx
        # the code's scaled value is within a few ulp of s: relative 1e-13 is > 400 ulp
        return d > max(Fraction(1, 10 ** 9), s / 10 ** 13)

    if conv in "fF":
        return fixed_ok(fx, p)
    if near_pow10(fx):
        return False
    e = exp10(fx)
    m = fx / Fraction(10) ** e
    if conv in "eE":
        return fixed_ok(m, p)
    # g
    pp = p if p != 0 else 1
    if e < -4 or e >= pp:
        return fixed_ok(m, pp - 1)
    return fixed_ok(fx, pp - max(1, e + 1))


def python_oracle(code):
    """Python's own % on the subset where Python and Jsonnet agree by definition; None elsewhere."""
    flags, w, p, cv, a = code
    spec = "%" + flags + ("" if w is None else str(w)) + ("" if p is None else "." + str(p))
    try:
        if cv in "diu" and a[0] == "num":
            x = a[1]
            return (spec + "d") % (int(x) if abs(x) < 1e300 else x)
        if cv in "xX" and a[0] == "num" and a[1] == int(a[1]):
            return (spec + cv) % int(a[1])
        if cv == "o" and a[0] == "num" and a[1] == int(a[1]) and "#" not in flags:
            return (spec + "o") % int(a[1])
        if cv == "c" and p is None:
            if a[0] == "num" and a[1] == int(a[1]) and 0 <= a[1] <= 0x10FFFF and not 0xD800 <= a[1] <= 0xDFFF:
                return (spec + "c") % int(a[1])
            if a[0] == "str" and len(a[1]) == 1:
                return (spec + "c") % a[1]
        if cv == "s" and p is None and a[0] == "str":
            return (spec + "s") % a[1]
        if cv == "%" and flags == "" and w is None and p is None:
            return "%"
    except (ValueError, TypeError, OverflowError):
        return None
    return None


def python_float(code):
    flags, w, p, cv, a = code
    if cv not in "eEfFgG" or a[0] != "num":
        return None
    spec = "%" + flags + ("" if w is None else str(w)) + ("" if p is None else "." + str(p))
    try:
        return (spec + cv) % a[1]
    except (ValueError, TypeError, OverflowError):
        return None


def classify_known(case, code_out, spec_out, impl_out):
    """narrow classifiers of the known findings; returns an id or None"""
    cls_code, txt_code = code_out
    cls_spec, txt_spec = spec_out
    if cls_code == "panic":
        ps = parse_simple(case.fmt)
        if (ps and ps[3] in "eEfFgG" and isinstance(ps[2], int) and ps[2] >= 309
                and "render_integer receives sign using arg" in txt_code):
            return K_FPREC
        return None
    c = case.code
    if c is None:
        ps = parse_simple(case.fmt)
        if ps and "*" not in (ps[1], ps[2]) and case.arg[0] not in ("arr", "obj"):
            c = (ps[0], ps[1], ps[2], ps[3], case.arg)
    if c is None or case.kind == "multi":
        return classify_composite(case, code_out, spec_out, impl_out)
    flags, w, p, cv, a = c
    if cls_code == "ok" and cls_spec == "ok" and a[0] == "num" and cv in "diuoxXfF" and abs(a[1]) >= 2.0 ** 63:
        return K_SAT
    return None


def flat_numbers(v, acc):
    if v[0] == "num":
        acc.append(v[1])
    elif v[0] == "arr":
        for e in v[1]:
            flat_numbers(e, acc)
    elif v[0] == "obj":
        for _, e in v[1]:
            flat_numbers(e, acc)
    return acc


def classify_composite(case, code_out, spec_out, impl_out):
    """Strings with several codes / mapping keys: a failure is attributed to a known finding only when the
    code behaves EXACTLY like the impl-model (whose deviations from the SPEC are the refuted classes) and a
    constituent code has the features of that class."""
    import re
    if not same(code_out, impl_out):
        return None
    codes = re.findall(r"%(?:\([^)]*\))?([#0\- +]*)(\*|\d*)(?:\.(\*|\d*))?[hlL]*([a-zA-Z%])", case.fmt)
    nums = flat_numbers(case.arg, [])
    cls_code, txt_code = code_out
    cls_spec, txt_spec = spec_out
    if cls_code == "ok" and cls_spec == "ok":
        if any(abs(x) >= 2.0 ** 63 for x in nums) and any(cv in "diuoxXfF" for *_x, cv in codes):
            return K_SAT
    return None


def canon_code(o):
    """harness answer -> (class, text)   class in ok / err / panic / abort"""
    if "ok" in o:
        if isinstance(o["ok"], str):
            return ("ok", o["ok"])
        return ("ok-nonstring", json.dumps(o["ok"])[:100])
    if "err" in o:
        return ("err", o["err"])
    if "panic" in o:
        return ("panic", o["panic"])
    return ("abort", json.dumps(o)[:200])


def canon_model(t):
    """Coq (class, [code points]) -> (class, text)"""
    cls, pts = int(t[0]), t[1]
    if cls == 0:
        return ("ok", "".join(chr(int(c)) for c in pts))
    if cls == 10:
        return ("panic", "")
    if cls == 11:
        return ("fuel", "")
    return ("err", ERR_NAMES.get(cls, str(cls)))


# which harness error kinds each model error class may surface as (coarse)
ERR_KINDS = {
    "truncated": {"Format"}, "unrecognized": {"Format"}, "not-enough": {"Format"}, "star-with-object": {"Format"},
    "keys-required": {"Format"}, "no-field": {"Format"}, "too-many": {"RuntimeError"}, "too-large": {"Format"},
    "type": {"TypeError", "RuntimeError", "TypeMismatch"},
    "char": {"RuntimeError", "InvalidUnicodeCodepointGot", "TypeError", "TypeMismatch"},
}


def same(code_out, model_out):
    if code_out[0] != model_out[0]:
        return False
    if code_out[0] == "ok":
        return code_out[1] == model_out[1]
    if code_out[0] == "err":
        return code_out[1] in ERR_KINDS.get(model_out[1], {code_out[1]})
    return True


# ------------------------------------------------------------------ correspondence

def run_code(run, binary, cases, model):
    """Evaluate every case on the real code.  Cases the impl-model expects to succeed are evaluated 30 per
    program (`[fmt1 % v1, fmt2 % v2, ...]`); a batch that does not come back as 30 strings is re-run case by
    case, so errors and panics are always attributed to a single case.  The rest run 20 per harness line
    (`seq`: one worker thread, each case under its own catch_unwind)."""
    outs = [None] * len(cases)
    ok_idx = [i for i, m in enumerate(model)
              if m and m[0] == "run" and m[1][0] == "ok" and len(m[1][1]) < 400]
    ok_set = set(ok_idx)
    rest = [i for i in range(len(cases)) if i not in ok_set]
    batches = [ok_idx[j:j + 30] for j in range(0, len(ok_idx), 30)]
    res = core.run_harness(binary, "eval",
                           [{"code": "[" + ", ".join(cases[i].jsonnet() for i in b) + "]"} for b in batches],
                           timeout=1200)
    for b, o in zip(batches, res):
        if "ok" in o and isinstance(o["ok"], list) and len(o["ok"]) == len(b):
            for i, x in zip(b, o["ok"]):
                outs[i] = {"ok": x}
        else:
            rest.extend(b)
            run.count("batch:redone")
    groups = [rest[j:j + 20] for j in range(0, len(rest), 20)]
    res = core.run_harness(binary, "eval", [{"seq": [{"code": cases[i].jsonnet()} for i in g]} for g in groups],
                           timeout=1200)
    single = []
    for g, o in zip(groups, res):
        if isinstance(o.get("seq"), list) and len(o["seq"]) == len(g):
            for i, x in zip(g, o["seq"]):
                outs[i] = x
        else:
            single.extend(g)
    if single:
        res = core.run_harness(binary, "eval", [{"code": cases[i].jsonnet()} for i in single], timeout=1200)
        for i, x in zip(single, res):
            outs[i] = x
    run.count("harness:batched", len(ok_idx))
    run.count("harness:individual", len(rest))
    return outs

def correspond(run, binary, cases, label=""):
    failures, model_diffs = [], []
    seen, uniq = set(), []
    for c in cases:
        k = c.key()
        if k not in seen:
            seen.add(k)
            uniq.append(c)
    cases = uniq
    shown = correspond.shown
    shown.resolve(binary, [c.arg for c in cases])
    run.log(f"{label}{len(cases)} distinct cases")
    # ---- model: group by format string; huge widths are parsed only
    groups, order = {}, []
    for i, c in enumerate(cases):
        if c.fmt not in groups:
            groups[c.fmt] = []
            order.append(c.fmt)
        groups[c.fmt].append(i)
    exprs, slots = [], []
    for fmt in order:
        idx = groups[fmt]
        if max_digit_run(fmt) > 3000:
            exprs.append(f"run_parse {cps(fmt)}")
            slots.append(("parse", idx))
        else:
            for j in range(0, len(idx), 24):
                part = idx[j:j + 24]
                tops = "[" + "; ".join(top_coq(cases[i].arg, shown) for i in part) + "]"
                exprs.append(f"run_cases {cps(fmt)} {tops}")
                slots.append(("run", part))
    res = core.coq_eval(IMPORTS, exprs, timeout=1500)
    model = [None] * len(cases)
    for (kind, idx), r in zip(slots, res):
        if isinstance(r, tuple) and r and r[0] == "ERROR":
            run.obligation("model.eval", False, str(r[1])[:300])
            continue
        if kind == "parse":
            ic, sc = int(r[0]), int(r[1])
            for i in idx:
                model[i] = ("parse", ic, sc)
        else:
            for i, t in zip(idx, r):
                cls_t, pts_t, spec_l = t  # Coq prints ((a, b), c) as (a, b, c)
                impl = canon_model((cls_t, pts_t))
                spec = canon_model(spec_l[0]) if spec_l else impl
                model[i] = ("run", impl, spec)
    run.log(f"{label}model evaluated ({len(exprs)} coqc expressions)")
    outs = run_code(run, binary, cases, model)
    run.log(f"{label}harness done")
    inexact = 0
    for c, m, o in zip(cases, model, outs):
        if m is None:
            continue
        code_out = canon_code(o)
        run.count("kind:" + c.kind)
        run.count("code:" + code_out[0])
        js = c.jsonnet()
        trivial = "%" not in c.fmt
        run.note_case(js, not trivial)
        info = {"jsonnet": js, "fmt": c.fmt, "kind": c.kind}
        if m[0] == "parse":
            _, ic, sc = m
            impl_out = ("panic", "") if ic == 10 else (("err", ERR_NAMES[ic]) if ic else ("ok", None))
            spec_out = ("err", ERR_NAMES[sc]) if sc else ("ok", None)
            code_cmp = code_out if code_out[0] != "ok" else ("ok", None)
            # a successful parse says nothing about the rendering (not run inside Coq for huge widths):
            # then only "no crash" is judged
            ok_spec = same(code_cmp, spec_out) if sc else code_out[0] in ("ok", "err")
            ok_impl = same(code_cmp, impl_out) if ic else True
        else:
            _, impl_out, spec_out = m
            if "fuel" in (impl_out[0], spec_out[0]):
                run.count("skipped_out_of_fuel")
                continue
            ok_spec = same(code_out, spec_out)
            ok_impl = same(code_out, impl_out)
        # float conversions outside the judgeable class: count, never alarm
        cd = c.code
        if cd is None and c.kind in ("corpus", "witness"):
            ps = parse_simple(c.fmt)
            if ps and "*" not in (ps[1], ps[2]) and c.arg[0] not in ("arr", "obj"):
                cd = (ps[0], ps[1], ps[2], ps[3], c.arg)
        float_ideal = False   # the impl-model's exact arithmetic is an idealisation for this case
        fl = list(c.fcodes)
        if cd and cd[3] in "eEfFgG" and cd[4][0] == "num":
            fl.append((cd[3], cd[2], cd[4][1]))
        if fl and code_out[0] == "ok" and spec_out[0] == "ok":
            if not all(float_judgeable(cv, p, x) for cv, p, x in fl):
                float_ideal = True
                run.count("float:outside-exact-class")
                if not all(abs(x) >= 2.0 ** 63 and cv in "fF" for cv, p, x in fl if not float_judgeable(cv, p, x)):
                    if not ok_spec:
                        inexact += 1
                        run.count("float:outside-exact-class-differs")
                        py = python_float(cd) if cd else None
                        if len(run.notes) < 8:
                            run.notes.append(f"float outside the exact class (not judged): {js} -> code "
                                             f"{code_out[1][:80]!r}, exact-arithmetic spec {spec_out[1][:80]!r}, "
                                             f"python {py!r}")
                    continue
            else:
                run.count("float:judged")
        if cd and c.kind == "multi":
            cd = None
        # python oracle vs SPEC (independent check of the specification itself)
        if cd and spec_out[0] == "ok" and m[0] == "run" and c.arg[0] != "obj":
            py = python_oracle(cd)
            if py is not None:
                run.count("oracle:python")
                if py != spec_out[1]:
                    correspond.oracle_bad.append(f"{js}: python {py!r} spec {spec_out[1]!r}")
        if not ok_spec:
            f = {"case": info, "summary": f"C12 {js[:150]}: expected {spec_out}, code gave {code_out}"[:300],
                 "expected": list(spec_out), "got": list(code_out), "impl_model": list(impl_out)}
            kid = classify_known(c, code_out, spec_out, impl_out)
            if kid:
                f["known"] = kid
                f["summary"] = f"{js[:120]} -> {code_out[1][:60]!r} (spec: {str(spec_out[1])[:60]!r})"
                run.count("known:" + kid)
                correspond.known_seen.add(kid)
                if c.kind == "witness":
                    correspond.witness_ok.add(kid)
            failures.append(f)
        if not ok_impl and not float_ideal:
            # code and impl-model disagree: stale model or changed code
            model_diffs.append({"case": info, "model": list(impl_out), "code": list(code_out),
                                "spec": list(spec_out)})
        if len(run.samples) < 10 and c.kind in ("product", "multi", "object") and code_out[0] == "ok" and "%" in c.fmt \
                and len(code_out[1]) > 2:
            run.samples.append({"jsonnet": js, "code": code_out[1], "spec": spec_out[1]})
    if inexact:
        run.log(f"{label}{inexact} float cases outside the exact class differ from exact arithmetic (reported, not judged)")
    return failures, model_diffs


correspond.shown = Shown()
correspond.oracle_bad = []
correspond.known_seen = set()
correspond.witness_ok = set()


def generate(run, thorough):
    rng = run.rng.fork("gen")
    codes = product_codes()
    if not thorough:
        rng.shuffle(codes)
        keep = codes[:len(codes) // 12]      # quick budget: ~25 000 cases (thorough: the whole product)
        # every conversion letter x every single flag x the main width/precision options stays covered
        base = [(f, w, p, cv) for cv in CONVS for f in ("", "#", "0", "-", " ", "+", "#0")
                for (w, p) in ((None, None), (5, None), (None, 0), (5, 1), ("*", "*"))]
        seen = set(keep)
        keep += [c for c in base if c not in seen]
        codes = keep
    args = ARGS + (ARGS_EXTRA if thorough else [])
    cases = corpus_cases()
    cases += product_cases(rng, codes, args)
    if not thorough:
        # the extra numbers on a thin slice of codes
        thin = [(f, w, p, cv) for cv in CONVS for (f, w, p) in (("", None, None), ("#0", 8, 2), ("-+", 6, 0), (" ", 3, 4))]
        cases += product_cases(rng, thin, ARGS_EXTRA)
    cases += malformed_cases(rng)
    cases += object_cases(rng)
    cases += multi_cases(rng, 6000 if thorough else 400)
    cases += source_cases(rng.fork("source-tie"), None if thorough else 600)
    return cases


def check(run, terrs):
    proofs_ok, detail = core.check_property_file(run, "C12")
    binary, err = core.build_harness(run)
    if not binary:
        run.obligation("harness.build", False, err)
        return core.conclude(run, False, err, [], [])
    thorough = run.tier == "thorough"
    failures, model_diffs = correspond(run, binary, generate(run, thorough))
    finish_obligations(run)
    run.trusted = TRUSTED
    run.assumptions = ASSUMPTIONS
    return core.conclude(run, proofs_ok, detail, failures, model_diffs,
                         search=(lambda: search(run, binary)) if not thorough else None,
                         level="proof", rule=RULE)


def finish_obligations(run):
    bad = correspond.oracle_bad
    run.obligation("C12.spec_agrees_with_python_percent(on the agreed subset)", not bad, "; ".join(bad[:5]))
    known = {k["id"] for k in core.load_known(run.prop)}
    for kid in sorted(WITNESS):
        if kid in known:
            run.obligation(f"known.{kid}.still_reproduces", kid in correspond.witness_ok,
                           f"witness {WITNESS[kid].jsonnet()} no longer fails as classified: the finding is stale "
                           f"(fixed or changed) — update props/c12.meta.json and the restricted theorems")


def search(run, binary):
    src = source_broken(run)
    if src:
        # the functions translated from format.rs no longer equal the hand model (or can no longer be translated):
        # format strings built from the grammar x value arrays with exact / short / long counts first
        run.log(f"search: source-tie obligation(s) broke ({', '.join(src)[:200]}): grammar-built format strings x "
                "value arrays")
        f, _ = correspond(run, binary, source_cases(run.rng.fork("source-search")), label="search(source tie): ")
        f = [x for x in f if not x.get("known")]
        if f:
            return f
    run.log("search: the full 12000-code product on 6 arguments + 2000 multi-code strings")
    rng = run.rng.fork("search")
    few = [V(x) for x in (0, 1, -255, 2.5, "é", [1])]
    cases = product_cases(rng, product_codes(), few) + multi_cases(rng, 2000)
    f, _ = correspond(run, binary, cases, label="search: ")
    return f


def replay(run, data):
    binary, err = core.build_harness(run)
    f = data.get("failure", {})
    code = f.get("case", {}).get("jsonnet")
    if not code:
        print(json.dumps(data, indent=1)[:3000])
        return 1
    outs = core.run_harness(binary, "eval", [{"code": code}])
    print("jsonnet :", code)
    print("expected:", f.get("expected"))
    print("was     :", f.get("got"))
    print("now     :", canon_code(outs[0]))
    return 0


RULE = ("cases = (format string, right-hand value) evaluated as `fmt % v` / std.format / std.mod: corpus + a seeded "
        "twelfth plus a fixed 525-code grid (thorough: all) of the 12000-code product flag-subsets x width{none,0,1,5,*} x precision{none,.0,.1,.3,.*} "
        "x 15 letters, each on 22 arguments (integers, fractions, negatives, 0, 2^53, 1e30, 1e-5, strings incl. non-ASCII "
        "and empty, array, object, null, true); every prefix of 10 full codes; unknown letters; u16-overflowing widths; "
        "repeated length modifiers; object mode incl. dotted / missing / empty keys; random 1-3 code strings with "
        "too few / too many / rotated values; a seeded 600 (thorough and the targeted search: all ~15000) of the "
        "source-tie strings: [key] flags width precision length-modifier letter in the right order and with two "
        "neighbouring parts swapped, doubled length modifiers, decorated %%, two-code strings, each with exactly / one "
        "fewer / one more distinct values and an object.  distinct = distinct Jsonnet expression; non-trivial = the format "
        "string contains a code.  %e/%f/%g are judged only where binary64 cannot flip a digit (see module doc).")
TRUSTED = ["Coq 8.16.1 kernel incl. vm_compute (no native_compute); no axioms (all C12 theorems closed)",
           "translator/gens/format.py (tables, radixes, prefixes, default precisions read from format.rs)",
           "translator/gens/formatparse.py (statement-by-statement translation of the format.rs parser functions and "
           "of format_arr / format_obj into Gen/GenFormatParse.v; its reading of the cursor idiom — an index only "
           "advanced by `+= 1` is the suffix — and of the value slice is trusted; fail closed)",
           "correspondence: jrharness eval, vlib generators, Coq term printer/parser, Python Fraction arithmetic in "
           "the float judgeability test",
           "SPEC = my reading of Python's conversion-specifier grammar and of std.jsonnet's render_int / render_hex / "
           "render_float_dec / render_float_sci / format_code (round half up, `%s` ignores precision, %g as "
           "std.jsonnet defines it, precision 0 of %g taken as 1); checked against Python's own % on d i u o x X c s %%",
           "std.toString of the argument (the text `%s` inserts) is taken from the real code (C05/C09 territory)",
           "modelled not verified: %e/%f/%g over exact rationals instead of binary64 + libm (log10, powf, mul_add); "
           "`%()` empty key treated as no key; dotted-path lookup taken as specified behaviour (jrsonnet extension)"]
ASSUMPTIONS = ["impl-model transliterates stdlib/format.rs + std_format; tie = differential run on every check",
               "numbers reach format_code as finite doubles (Val::Num invariant, C09)"]
