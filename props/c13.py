"""C13 — standard-library object and type functions match their definitions.

Theorems: coq/theories/C13 (listing sorted & exact, the two visibility routes of obj/mod.rs agree
with the language rule, values aligned with names, std.get default forced only when needed,
merge_patch impl-model = RFC 7396 on JSON values, laziness of untouched target fields, prune
cleans / is idempotent, equals is an equivalence on JSON values, type partition; `_refuted`
witnesses where the faithful model leaves the documented definition).
Correspondence: every listed std function is called on generated arguments through
`jrharness lazy` (evaluate to WHNF, then walk the result recording a failing element / field IN
PLACE); the same call is evaluated inside coqc by `C13.Model.run_case`, which returns
(SPEC result, IMPL-MODEL result).  code != SPEC  => failure (known finding when the code equals the
faithful impl-model and the input is in the finding's class);  code == SPEC but != impl-model =>
stale model (broken obligation).  Objects are built by inheritance chains with hidden / unhidden /
`+:` fields; the generator flattens a chain by the language rule (independent of the code) and the
visibility of every chain is cross-checked against both Coq visibility kernels and the code.
"""
import json

from vlib import core

IMPORTS = ("From Coq Require Import List ZArith NArith Bool.\nFrom JrV Require Import C13.Model.\n"
           "Import ListNotations.\nOpen Scope N_scope.\n")

# ------------------------------------------------------------------ source values
# ("null",) ("bool", b) ("num", int) ("str", s) ("arr", [v]) ("fun", nreq, ndef) ("bomb",)
# ("obj", [layer, ...])   base layer first;  layer = [(name, vis, plus, body)]
#    vis in ":", "::", ":::" ;  body = a value or ("self", name)
KEYS = ["a", "b", "c", "d", "e", "", "A", "aa", "a\x00", "￿", "\U00010000", "é", "z", "key", "value"]
FEW = ["a", "b", "c", "d"]


def vadd(x, y):
    """`super.f + this` for the combinations the generator emits"""
    if x[0] == "bomb" or y[0] == "bomb":
        return ("bomb",)
    if x[0] == y[0] == "str":
        return ("str", x[1] + y[1])
    if x[0] == y[0] == "arr":
        return ("arr", x[1] + y[1])
    if x[0] == y[0] == "num":
        return ("num", x[1] + y[1])
    raise ValueError("generator emitted an unsupported +: combination")


def flatten(v):
    """source value -> flat value: objects become ("fobj", [(name, hidden, flat value)]) in declaration
    order, by the language definition: most derived explicit visibility wins, `+:` adds to super."""
    t = v[0]
    if t == "arr":
        return ("arr", [flatten(x) for x in v[1]])
    if t != "obj":
        return v
    order, decls = [], {}
    for layer in v[1]:
        for name, vis, plus, body in layer:
            if name not in decls:
                order.append(name)
                decls[name] = []
            decls[name].append((vis, plus, body))
    out = {}

    def value_of(name):
        if name in out:
            return out[name]
        acc = None
        ds = decls[name]
        start = 0
        for i in range(len(ds) - 1, -1, -1):
            if not ds[i][1]:
                start = i
                break
        for vis, plus, body in ds[start:]:
            val = value_of(body[1]) if body[0] == "self" else flatten(body)
            acc = val if (acc is None or not plus) else vadd(acc, val)
        out[name] = acc
        return acc

    res = []
    for name in order:
        hidden = False
        for vis, _p, _b in reversed(decls[name]):
            if vis == "::":
                hidden = True
                break
            if vis == ":::":
                break
        res.append((name, hidden, value_of(name)))
    return ("fobj", res)


def decls_of(v):
    """all declarations of a chain, most derived layer first (what the visibility kernels walk)"""
    out = []
    for layer in reversed(v[1]):
        for name, vis, _p, _b in layer:
            out.append((name, vis))
    return out


def js(v):
    t = v[0]
    if t == "null":
        return "null"
    if t == "bool":
        return "true" if v[1] else "false"
    if t == "num":
        return str(v[1]) if v[1] >= 0 else f"({v[1]})"
    if t == "str":
        return core.jstr(v[1])
    if t == "arr":
        return "[" + ", ".join(js(x) for x in v[1]) + "]"
    if t == "fun":
        ps = [f"p{i}" for i in range(v[1])] + [f"q{i}=0" for i in range(v[2])]
        if v[2] and v[1]:
            ps = [ps[0]] + ps[v[1]:] + ps[1:v[1]]  # a default in the middle
        return "(function(" + ", ".join(ps) + ") null)"
    if t == "bomb":
        return '(error "bomb")'
    if t == "self":
        return "self[" + core.jstr(v[1]) + "]"
    if t == "obj":
        layers = []
        for layer in v[1]:
            fs = []
            for name, vis, plus, body in layer:
                fs.append(f"{core.jstr(name)}{'+' if plus else ''}{vis} {js(body)}")
            layers.append("{" + ", ".join(fs) + "}")
        return layers[0] if len(layers) == 1 else "(" + " + ".join(layers) + ")"
    raise ValueError(v)


def cq_str(s):
    return "[" + ";".join(str(ord(c)) for c in s) + "]"


def cq(v):
    """flat value -> Gallina val"""
    t = v[0]
    if t == "null":
        return "VNull"
    if t == "bool":
        return "(VBool true)" if v[1] else "(VBool false)"
    if t == "num":
        return f"(VNum ({v[1]})%Z)"
    if t == "str":
        return f"(VStr {cq_str(v[1])})"
    if t == "arr":
        return "(VArr [" + ";".join(cq(x) for x in v[1]) + "])"
    if t == "fun":
        return f"(VFun {v[1]})"
    if t == "bomb":
        return "(VBomb 7)"
    if t == "fobj":
        return "(VObj [" + ";".join(f"({cq_str(k)},({'true' if h else 'false'},{cq(x)}))" for k, h, x in v[1]) + "])"
    raise ValueError(v)


def has_kind(v, kind):
    """does the flat value contain a bomb / hidden field / function anywhere"""
    t = v[0]
    if t == "bomb":
        return kind == "bomb"
    if t == "fun":
        return kind == "fun"
    if t == "arr":
        return any(has_kind(x, kind) for x in v[1])
    if t == "fobj":
        return any((kind == "hidden" and h) or has_kind(x, kind) for _k, h, x in v[1])
    return False


def vdepth(v):
    if v[0] == "arr":
        return 1 + max([vdepth(x) for x in v[1]] or [0])
    if v[0] == "fobj":
        return 1 + max([vdepth(x) for _k, _h, x in v[1]] or [0])
    return 0


# ------------------------------------------------------------------ result trees
# None | bool | ("num", z) | str | [..] | ("obj", ((k, hidden, tree), ...) sorted by k) | ("fun", n) | ("bomb",)
def tree_of_coq(t):
    if t == "VNull":
        return None
    assert isinstance(t, core.App), t
    a = t.args
    if t.name == "VBool":
        return a[0]
    if t.name == "VNum":
        return ("num", int(a[0]))
    if t.name == "VStr":
        return "".join(chr(c) for c in a[0])
    if t.name == "VArr":
        return [tree_of_coq(x) for x in a[0]]
    if t.name == "VFun":
        return ("fun", int(a[0]))
    if t.name == "VBomb":
        return ("bomb",)
    if t.name == "VObj":
        fs = [("".join(chr(c) for c in k), bool(hv[0]), tree_of_coq(hv[1])) for k, hv in a[0]]
        return ("obj", tuple(sorted(fs, key=lambda f: f[0])))
    raise ValueError(t)


def res_of_coq(t):
    if t == "Fuel":
        return ("fuel",)
    assert isinstance(t, core.App), t
    if t.name == "Ok":
        return ("ok", tree_of_coq(t.args[0]))
    if t.name == "Err":
        return ("err", t.args[0])
    raise ValueError(t)


def tree_of_code(c):
    if c is None or isinstance(c, (bool, str)):
        return c
    if isinstance(c, list):
        return [tree_of_code(x) for x in c]
    if "#" in c:
        x = core.bits_to_float(c["#"])
        if x != int(x):
            return ("num", x)
        return ("num", int(x))
    if "f" in c:
        return ("fun", int(c["f"]))
    if "e" in c:
        return ("bomb",)
    if "o" in c:
        return ("obj", tuple((k, bool(h), tree_of_code(x)) for k, h, x in c["o"]))
    raise ValueError(c)


def res_of_code(o):
    if "ok" in o:
        return ("ok", tree_of_code(o["ok"]))
    if "err" in o:
        return ("err", "EType" if o["err"] == "TypeError" else "ERun")
    return ("crash", json.dumps(o)[:200])


def listed_in_order(c):
    """the raw answer lists object fields ascending (the order fields_ex(true) gave)"""
    if isinstance(c, list):
        return all(listed_in_order(x) for x in c)
    if isinstance(c, dict) and "o" in c:
        ks = [k for k, _h, _x in c["o"]]
        return ks == sorted(ks) and len(set(ks)) == len(ks) and all(listed_in_order(x) for _k, _h, x in c["o"])
    return True


def show(r):
    s = repr(r)
    return s if len(s) < 500 else s[:500] + "..."


# ------------------------------------------------------------------ calls
MAPFN_JS = {"MKey": "function(k, v) k", "MPair": "function(k, v) [k, v]", "MVal": "function(k, v) v"}
TYS = [("TNull", "isNull"), ("TBool", "isBoolean"), ("TNum", "isNumber"), ("TStr", "isString"),
       ("TArr", "isArray"), ("TObj", "isObject"), ("TFun", "isFunction")]
LISTING = {"CFields": "objectFields", "CFieldsAll": "objectFieldsAll", "CValues": "objectValues",
           "CValuesAll": "objectValuesAll", "CKeysValues": "objectKeysValues",
           "CKeysValuesAll": "objectKeysValuesAll"}
HAS = {"CHas": "objectHas", "CHasAll": "objectHasAll"}
UNARY = {"CPrune": "prune", "CLength": "length", "CType": "type"}
BINARY = {"CPrimEq": "primitiveEquals", "CXor": "xor", "CXnor": "xnor", "CMergePatch": "mergePatch"}


def cqb(b):
    return "true" if b else "false"


class Call:
    """kind + source-value arguments; renders to Jsonnet and to a Gallina `call`"""

    def __init__(self, kind, *args, **opt):
        self.kind, self.args, self.opt = kind, args, opt
        self.flat = [flatten(a) if isinstance(a, tuple) and a and a[0] in
                     ("null", "bool", "num", "str", "arr", "fun", "bomb", "obj") else a for a in args]

    def jsonnet(self):
        k, a = self.kind, self.args
        if k in LISTING:
            return f"std.{LISTING[k]}({js(a[0])})"
        if k == "CFieldsEx":
            return f"std.objectFieldsEx({js(a[0])}, {cqb(a[1])})"
        if k in HAS:
            return f"std.{HAS[k]}({js(a[0])}, {core.jstr(a[1])})"
        if k == "CHasEx":
            return f"std.objectHasEx({js(a[0])}, {core.jstr(a[1])}, {cqb(a[2])})"
        if k == "CGet":
            o, key, d, h = a
            s = f"std.get({js(o)}, {core.jstr(key)}"
            if d is not None:
                s += f", {js(d)}"
            if h is not None:
                s += f", {cqb(h)}" if d is not None else f", inc_hidden={cqb(h)}"
            return s + ")"
        if k == "CMapWithKey":
            return f"std.mapWithKey({MAPFN_JS[a[0]]}, {js(a[1])})"
        if k == "CRemoveKey":
            return f"std.objectRemoveKey({js(a[0])}, {core.jstr(a[1])})"
        if k in UNARY:
            return f"std.{UNARY[k]}({js(a[0])})"
        if k == "CIs":
            return f"std.{dict(TYS)[a[0]]}({js(a[1])})"
        if k in BINARY:
            return f"std.{BINARY[k]}({js(a[0])}, {js(a[1])})"
        if k in ("CEquals", "CAssertEqual"):
            same, x, y = a
            how = self.opt.get("how", "std")
            if k == "CAssertEqual":
                f = lambda p, q: f"std.assertEqual({p}, {q})"  # noqa
            elif how == "op":
                f = lambda p, q: f"({p} == {q})"  # noqa
            elif how == "ne":
                f = lambda p, q: f"!({p} != {q})"  # noqa
            else:
                f = lambda p, q: f"std.equals({p}, {q})"  # noqa
            if same:
                return f"local x = {js(x)}; " + f("x", "x")
            return f(js(x), js(y))
        raise ValueError(k)

    def coq(self):
        k, a, fl = self.kind, self.args, self.flat
        if k in LISTING or k in UNARY:
            return f"{k} {cq(fl[0])}"
        if k == "CFieldsEx":
            return f"CFieldsEx {cq(fl[0])} {cqb(a[1])}"
        if k in HAS:
            return f"{k} {cq(fl[0])} {cq_str(a[1])}"
        if k == "CHasEx":
            return f"CHasEx {cq(fl[0])} {cq_str(a[1])} {cqb(a[2])}"
        if k == "CGet":
            d = "None" if a[2] is None else f"(Some {cq(fl[2])})"
            h = "None" if a[3] is None else f"(Some {cqb(a[3])})"
            return f"CGet {cq(fl[0])} {cq_str(a[1])} {d} {h}"
        if k == "CMapWithKey":
            return f"CMapWithKey {a[0]} {cq(fl[1])}"
        if k == "CRemoveKey":
            return f"CRemoveKey {cq(fl[0])} {cq_str(a[1])} [" + ";".join(cq_str(s) for s in self.selfdeps()) + "]"
        if k == "CIs":
            return f"CIs {a[0]} {cq(fl[1])}"
        if k in BINARY:
            return f"{k} {cq(fl[0])} {cq(fl[1])}"
        if k in ("CEquals", "CAssertEqual"):
            return f"{k} {cqb(a[0])} {cq(fl[1])} {cq(fl[2])}"
        raise ValueError(k)

    def selfdeps(self):
        """CRemoveKey: the fields whose body reads self.<removed key>"""
        o, key = self.args[0], self.args[1]
        out = []
        if o[0] == "obj":
            for layer in o[1]:
                for name, _v, _p, body in layer:
                    if body[0] == "self" and body[1] == key and name != key:
                        out.append(name)
        return out

    def values(self):
        return [f for f in self.flat if isinstance(f, tuple) and f and f[0] in
                ("null", "bool", "num", "str", "arr", "fun", "bomb", "fobj")]


# ------------------------------------------------------------------ known findings (narrow classes)
def classify(call):
    """the finding class a call belongs to, judged on the INPUT only (the caller additionally demands
    that the code behaves exactly as the faithful impl-model)"""
    k = call.kind
    vals = call.values()
    if k == "CMapWithKey" and vals and vals[0][0] == "fobj":
        if any(not h and x[0] == "bomb" for _n, h, x in vals[0][1]):
            return "C13-mapwithkey-forces-values"
    if k == "CRemoveKey" and call.selfdeps():
        return "C13-removekey-rebinds-self"
    if k == "CMergePatch" and any(has_kind(v, "bomb") for v in vals):
        return "C13-mergepatch-eager"
    if k in ("CEquals", "CAssertEqual") and call.args[0] and vals[0][0] in ("arr", "fobj") and (
            has_kind(vals[0], "bomb") or has_kind(vals[0], "fun")):
        return "C13-equals-same-object-shortcut"
    return None


def S(x):
    return ("str", x)


def N(x):
    return ("num", x)


def O(*fs):
    """one-layer object literal from (name, vis, body) or (name, body)"""
    layer = []
    for f in fs:
        if len(f) == 2:
            layer.append((f[0], ":", False, f[1]))
        else:
            layer.append((f[0], f[1], False, f[2]))
    return ("obj", [layer])


BOMB = ("bomb",)
NULL = ("null",)

# the witnesses of the `_refuted` theorems (Pins.v pins the same terms): each must still reproduce
WITNESSES = {
    "C13-mapwithkey-forces-values": Call("CMapWithKey", "MKey", O(("a", BOMB))),
    "C13-removekey-rebinds-self": Call("CRemoveKey", O(("a", N(1)), ("b", ("self", "a"))), "a"),
    "C13-mergepatch-eager": Call("CMergePatch", O(("a", BOMB), ("b", N(2))), O(("a", N(3)))),
    "C13-equals-same-object-shortcut": Call("CEquals", True, ("arr", [BOMB]), ("arr", [BOMB])),
}


# ------------------------------------------------------------------ generators
class Gen:
    def __init__(self, rng):
        self.r = rng

    def key(self, few=False):
        return self.r.choice(FEW if few or self.r.chance(0.6) else KEYS)

    def scalar(self):
        r = self.r
        k = r.below(10)
        if k == 0:
            return NULL
        if k <= 2:
            return ("bool", r.chance(0.5))
        if k <= 5:
            return N(r.choice([0, 1, 2, 3, -1, 7, 100, 2 ** 31, -(2 ** 40), 2 ** 53 - 1]))
        return S(r.choice(["", "a", "b", "ab", "null", "é", "\U0001f600x", "a\x00b", "￿", "value"]))

    def value(self, d, fl):
        """fl: set of allowed extras among hidden, bomb, fun, chain, empties"""
        r = self.r
        if "bomb" in fl and r.chance(0.12):
            return BOMB
        if "fun" in fl and r.chance(0.06):
            return ("fun", r.below(3), r.below(2))
        if d == 0 or r.chance(0.35):
            if "empties" in fl and r.chance(0.4):
                return r.choice([NULL, ("arr", []), ("obj", [[]])])
            return self.scalar()
        if r.chance(0.4):
            return ("arr", [self.value(d - 1, fl) for _ in range(r.choice([0, 1, 1, 2, 3]))])
        return self.obj(d, fl)

    def obj(self, d, fl, few=False, nlayers=None):
        """an inheritance chain; values of depth < d"""
        r = self.r
        chain = "chain" in fl
        nl = nlayers or (r.choice([1, 1, 2, 2, 3]) if chain else 1)
        layers = []
        for li in range(nl):
            cur = dict((n, (h, x)) for n, h, x in flatten(("obj", layers))[1]) if layers else {}
            layer, used = [], set()
            for _ in range(r.choice([0, 1, 2, 2, 3, 4])):
                name = self.key(few)
                if name in used:
                    continue
                used.add(name)
                vis = ":"
                if "hidden" in fl:
                    vis = r.choice([":", ":", ":", "::", "::", ":::"])
                plus = False
                body = self.value(max(d - 1, 0), fl)
                if chain and r.chance(0.3):
                    sup = cur.get(name)
                    if sup is None:
                        plus = True
                    elif sup[1][0] in ("str", "arr", "num") and r.chance(0.8):
                        plus = True
                        body = {"str": S(r.choice(["", "x", "é"])), "num": N(r.choice([0, 1, 5])),
                                "arr": ("arr", [self.scalar() for _ in range(r.below(3))])}[sup[1][0]]
                    elif sup[1][0] == "bomb" and r.chance(0.5):
                        plus = True
                        body = S("x")
                layer.append((name, vis, plus, body))
            layers.append(layer)
        return ("obj", layers)

    def with_selfref(self, o, key):
        """append a field reading self.<key> to the last layer"""
        names = {n for layer in o[1] for n, _v, _p, _b in layer}
        fresh = next(n for n in ["r", "r1", "r2", "zz"] if n not in names)
        layers = [list(layer) for layer in o[1]]
        layers[-1].append((fresh, self.r.choice([":", ":", "::"]), False, ("self", key)))
        return ("obj", layers)

    def mutate(self, v, hide=True):
        """a value equal to v or differing in one place (hide: may change / add a hidden field)"""
        r = self.r
        t = v[0]
        if t == "arr" and v[1] and r.chance(0.8):
            i = r.below(len(v[1]))
            k = r.below(4)
            if k == 0:
                return ("arr", v[1][:i] + v[1][i + 1:])
            return ("arr", [self.mutate(x, hide) if j == i else x for j, x in enumerate(v[1])])
        if t == "obj" and any(v[1]) and r.chance(0.85):
            layers = [list(layer) for layer in v[1]]
            li = r.choice([i for i, l in enumerate(layers) if l])
            fi = r.below(len(layers[li]))
            name, vis, plus, body = layers[li][fi]
            k = r.below(6)
            if k == 0:
                del layers[li][fi]
            elif k == 1 and hide:
                layers[li][fi] = (name, r.choice([":", "::", ":::"]), plus, body)
            elif k == 2:
                r.shuffle(layers[li])
            elif k == 3 and body[0] != "self":
                layers[li][fi] = (name, vis, plus, self.mutate(body, hide))
            elif k == 4:
                layers[li].append((r.choice(["n1", "n2"]), r.choice([":", "::"]) if hide else ":", False, self.scalar()))
            return ("obj", layers)
        if r.chance(0.5):
            return v
        return self.scalar()


def try_flatten(v):
    try:
        flatten(v)
        return True
    except ValueError:
        return False


def enumerate_cases(run):
    thorough = run.tier == "thorough"
    g = Gen(run.rng.fork("gen"))
    r = g.r
    mult = 12 if thorough else 1
    cases = []

    def add(kind, *args, **opt):
        for a in args:
            if isinstance(a, tuple) and a and a[0] in ("obj", "arr") and not try_flatten(a):
                return
        c = Call(kind, *args, **opt)
        cases.append(c)

    ALLFL = {"hidden", "bomb", "fun", "chain"}
    # ---- fixed part: the probes of the module docstring / anchors
    o1 = ("obj", [[("b", ":", False, N(2)), ("a", "::", False, N(1))], [("c", ":::", False, BOMB), ("a", ":", False, S("x"))],
                  [("", ":", False, NULL), ("\U00010000", ":", False, N(0)), ("￿", "::", False, N(9))]])
    for k in LISTING:
        add(k, o1)
        add(k, ("obj", [[]]))
        for bad in (N(1), NULL, ("arr", []), S("a"), ("fun", 1, 0), BOMB):
            add(k, bad)
    for h in (True, False):
        add("CFieldsEx", o1, h)
    for key in (["a", "b", "c", "", "zz", "￿"] if thorough else ["a", "c", "", "zz"]):
        add("CHas", o1, key)
        add("CHasAll", o1, key)
        for h in (True, False):
            add("CHasEx", o1, key, h)
        for d in (None, N(5), BOMB):
            for h in (None, True, False):
                add("CGet", o1, key, d, h)
    for w in WITNESSES.values():
        cases.append(w)
    # regression probes of the two defects fixed in c053b92 / 1809f60
    add("CKeysValues", O(("a", BOMB)))
    add("CKeysValuesAll", O(("a", "::", BOMB), ("b", N(1))))
    add("CMergePatch", O(("a", N(1)), ("b", N(2))), O(("a", "::", NULL)))
    add("CMergePatch", O(("a", N(1)), ("b", N(2))), O(("a", "::", O(("x", N(1))))))
    add("CMergePatch", O(("a", "::", O(("y", N(1)))), ("b", N(2))), O(("a", O(("x", N(1))))))
    empt = [NULL, ("arr", []), ("obj", [[]]), ("arr", [NULL]), ("arr", [("arr", [])]), ("obj", [[("a", ":", False, NULL)]]),
            ("obj", [[("a", "::", False, N(1))]]), ("arr", [("obj", [[("a", "::", False, N(1))]])]), N(0), S(""), ("bool", False),
            ("fun", 1, 0), ("arr", [("fun", 0, 1)]), ("arr", [("arr", [("arr", [NULL])])]),
            ("obj", [[("a", ":", False, ("obj", [[("b", ":", False, ("arr", [NULL, ("obj", [[]])]))]]))]])]
    for v in empt + [BOMB]:
        add("CPrune", v)
        add("CLength", v)
        add("CType", v)
        for j, (t, _) in enumerate(TYS):
            if thorough or v in empt[:6] or (j + len(cases)) % 3 == 0:
                add("CIs", t, v)
    for s in ["", "a", "é", "\U0001f600", "a\U0001f600é", "é", "￿\U00010000"]:
        add("CLength", S(s))
    for nreq in range(4):
        for nd in range(3):
            add("CLength", ("fun", nreq, nd))
    bools = [("bool", True), ("bool", False)]
    for a in bools:
        for b in bools:
            add("CXor", a, b)
            add("CXnor", a, b)
    for bad in (N(1), NULL, S("true"), BOMB, ("arr", [])):
        add("CXor", bad, ("bool", True))
        add("CXnor", ("bool", False), bad)
    prims = [NULL, ("bool", True), ("bool", False), N(0), N(1), S(""), S("1"), ("arr", []),
             ("obj", [[]]), ("fun", 1, 0)]
    if thorough:
        prims += [N(-1), S("a"), S("null"), ("arr", [N(1)]), ("obj", [[("a", ":", False, N(1))]]), ("fun", 0, 0)]
    for a in prims:
        for b in prims:
            add("CPrimEq", a, b)
            add("CEquals", False, a, b, how=r.choice(["std", "op", "ne"]))
    for a in prims:
        add("CAssertEqual", False, a, a)
        add("CAssertEqual", False, a, N(42))
    # equality looks at the VISIBLE field names first: a name that is visible on one side and only hidden
    # on the other, with the count of visible fields made equal by another field, in both operand orders,
    # directly and nested; an erroring field under a shared name when the name sets differ
    va = O(("x", N(1)), ("y", N(2)))
    shadows = [O(("x", "::", N(1)), ("y", N(2)), ("z", N(3))),
               ("obj", [[("x", "::", False, N(1))], [("x", ":", False, N(1)), ("y", ":", False, N(2)), ("z", ":", False, N(3))]]),
               O(("x", "::", N(1)), ("y", N(2))), O(("x", "::", N(7)), ("y", N(2)), ("z", N(3))),
               O(("x", N(1)), ("y", N(2)), ("h", "::", S("h")))]
    for vb in shadows:
        for (p, q) in ((va, vb), (vb, va), (("arr", [va]), ("arr", [vb])), (O(("k", va)), O(("k", vb)))):
            for how in ("std", "op", "ne"):
                add("CEquals", False, p, q, how=how)
        add("CAssertEqual", False, va, vb)
    add("CEquals", False, O(("a", BOMB), ("b", N(1))), O(("a", N(1)), ("c", N(1))), how="op")
    add("CEquals", False, O(("a", N(1)), ("c", N(1))), O(("a", BOMB), ("b", N(1))), how="std")
    # mergePatch: RFC 7396 appendix A
    T = lambda **kw: O(*[(k, v) for k, v in kw.items()])  # noqa
    rfc = [(T(a=S("b")), T(a=S("c"))), (T(a=S("b")), T(b=S("c"))), (T(a=S("b")), T(a=NULL)),
           (T(a=S("b"), b=S("c")), T(a=NULL)), (T(a=("arr", [S("b")])), T(a=S("c"))), (T(a=S("c")), T(a=("arr", [S("b")]))),
           (T(a=T(b=S("c"))), T(a=T(b=S("d"), c=NULL))), (T(a=("arr", [T(b=S("c"))])), T(a=("arr", [N(1)]))),
           (("arr", [S("a"), S("b")]), ("arr", [S("c"), S("d")])), (T(a=S("b")), ("arr", [S("c")])), (T(a=S("foo")), NULL),
           (T(a=S("foo")), S("bar")), (T(e=NULL), T(a=N(1))), (("arr", [N(1), N(2)]), T(a=S("b"), c=NULL)),
           (O(), T(a=T(bb=T(ccc=NULL))))]
    for t, p in rfc:
        add("CMergePatch", t, p)
    # ---- random part
    for i in range(28 * mult):
        o = g.obj(2, ALLFL, few=r.chance(0.5))
        k = r.choice(list(LISTING))
        add(k, o)
        add(r.choice(list(LISTING)), o)
        add("CFieldsEx", o, r.chance(0.5))
        key = g.key()
        add(r.choice(["CHas", "CHasAll"]), o, key)
        add("CHasEx", o, g.key(), r.chance(0.5))
        add("CLength", o)
    for i in range(45 * mult):
        o = g.obj(2, ALLFL, few=True)
        add("CGet", o, g.key(True), r.choice([None, None, N(5), BOMB, ("arr", [BOMB])]), r.choice([None, True, False]))
    for i in range(40 * mult):
        o = g.obj(2, ALLFL if i % 3 else {"hidden", "fun", "chain"}, few=r.chance(0.5))
        add("CMapWithKey", r.choice(list(MAPFN_JS)), o)
    for i in range(50 * mult):
        fl = ALLFL if i % 4 else {"hidden", "chain"}
        o = g.obj(2, fl, few=True)
        key = g.key(True)
        if r.chance(0.35):
            names = [n for n, _h, _x in flatten(o)[1]]
            if names:
                tgt = r.choice(names + ([key] if key in names else []))
                o = g.with_selfref(o, tgt)
                if r.chance(0.6):
                    key = tgt
        add("CRemoveKey", o, key)
    for i in range(132 * mult):
        fl = [{"empties"}, {"empties"}, {"empties", "fun"}, {"hidden", "empties", "chain"}, {"bomb", "empties"},
              {"bomb", "hidden", "empties", "chain"}][i % 6]
        t = g.value(3, fl) if r.chance(0.15) else g.obj(3, fl, few=True)
        p = g.value(3, fl) if r.chance(0.12) else g.obj(3, fl, few=True)
        if r.chance(0.25):
            p = g.mutate(t, hide="hidden" in fl)
        add("CMergePatch", t, p)
    for i in range(60 * mult):
        fl = [{"empties"}, {"empties", "hidden", "chain"}, {"empties", "fun"}, {"empties", "bomb", "hidden"}][i % 4]
        add("CPrune", g.value(4, fl))
    for i in range(30 * mult):
        v = g.value(2, ALLFL)
        add("CType", v)
        add("CLength", v)
        add("CIs", r.choice(TYS)[0], v)
    for i in range(100 * mult):
        fl = [set(), {"hidden", "chain"}, {"fun"}, {"bomb", "hidden", "chain"}][i % 4]
        a = g.value(3, fl)
        b = g.mutate(a) if r.chance(0.8) else g.value(3, fl)
        kind = "CEquals" if i % 5 else "CAssertEqual"
        add(kind, False, a, b, how=r.choice(["std", "op", "ne"]))
        if i % 6 == 0:
            add(kind, True, a, a, how=r.choice(["std", "op"]))
        if i % 3 == 0:
            add("CPrimEq", g.value(1, {"fun"}), g.value(1, {"fun"}))
    return cases


def vis_cases(run):
    g = Gen(run.rng.fork("vis"))
    n = 1500 if run.tier == "thorough" else 80
    out = [("obj", [[("a", ":", False, N(1))], [("a", "::", False, N(2))], [("a", ":", False, N(3))]]),
           ("obj", [[("a", "::", False, N(1))], [("a", ":::", False, N(2))], [("a", ":", False, N(3))]]),
           ("obj", [[("a", ":::", False, N(1))], [("a", "::", False, N(2))], [("a", ":", False, N(3))]]),
           ("obj", [[("a", "::", False, N(1)), ("b", ":", False, N(1))], [("b", "::", False, N(2))], [("a", ":::", False, N(3))]])]
    for i in range(n):
        out.append(g.obj(1, {"hidden", "chain"}, few=True, nlayers=g.r.choice([1, 2, 3, 4, 5])))
    return out


# ------------------------------------------------------------------ the check
def check(run, terrs):
    proofs_ok, detail = core.check_property_file(run, "C13")
    binary, err = core.build_harness(run)
    if not binary:
        run.obligation("harness.build", False, err)
        return core.conclude(run, False, err, [], [])
    uniq, chains = dedupe(enumerate_cases(run)), vis_cases(run)
    m1, m2 = eval_models(run, uniq, chains)
    failures, model_diffs = correspond(run, binary, uniq, m1)
    f2, d2 = correspond_visibility(run, binary, chains, m2)
    failures += f2
    model_diffs += d2
    failures.sort(key=lambda f: (bool(f.get("known")), len(f.get("case", {}).get("jsonnet", ""))))
    kinds = {}
    for f in failures:
        k = ("known:" + f["known"]) if f.get("known") else f.get("what", "?")[:60]
        kinds[k] = kinds.get(k, 0) + 1
    run.log(f"failures by kind: {kinds}; model diffs: {len(model_diffs)}")
    run.trusted = TRUSTED
    run.assumptions = ASSUMPTIONS
    return core.conclude(run, proofs_ok, detail, failures, model_diffs,
                         search=(lambda: search(run, binary)) if run.tier == "quick" else None,
                         level="proof", rule=RULE)


def search(run, binary):
    run.log("search: thorough-scope generation")
    old = run.tier
    run.tier = "thorough"
    try:
        cases = enumerate_cases(run)
        vc = vis_cases(run)[:500]
    finally:
        run.tier = old
    # bounded (about 5 minutes): every 4th call of the thorough scope, all function kinds kept
    uniq = dedupe(cases[run.seed % 4::4][:4000])
    m1, m2 = eval_models(run, uniq, vc)
    f, _ = correspond(run, binary, uniq, m1, witnesses=False)
    f2, _ = correspond_visibility(run, binary, vc, m2)
    return f + f2


def dedupe(cases):
    seen, uniq = set(), []
    for c in cases:
        k = c.jsonnet()
        if k not in seen:
            seen.add(k)
            uniq.append((c, k))
    return uniq


def eval_models(run, uniq, chains):
    """one sharded coqc batch for the calls and the visibility chains"""
    exprs = [f"run_case ({c.coq()})" for c, _ in uniq] + [vis_expr(o) for o in chains]
    res = core.coq_eval(IMPORTS, exprs)
    run.log(f"model evaluated ({len(uniq)} calls, {len(chains)} chains)")
    return res[:len(uniq)], res[len(uniq):]


def correspond(run, binary, uniq, model, witnesses=True):
    failures, model_diffs = [], []
    run.log(f"{len(uniq)} distinct calls")
    outs = core.run_harness(binary, "lazy", [{"code": k} for _, k in uniq])
    run.log("harness done")
    wit_by_js = {w.jsonnet(): fid for fid, w in WITNESSES.items()}
    reproduced = set()
    for (c, src), m, o in zip(uniq, model, outs):
        run.count("fn:" + c.kind)
        vals = c.values()
        nontrivial = any(v[0] in ("arr", "fobj") and v[1] for v in vals)
        run.note_case(src, nontrivial)
        for kind in ("bomb", "hidden", "fun"):
            if any(has_kind(v, kind) for v in vals):
                run.count("with-" + kind)
        if any(a[0] == "obj" and len(a[1]) > 1 for a in c.args if isinstance(a, tuple) and a):
            run.count("with-inheritance-chain")
        if isinstance(m, tuple) and m and m[0] == "ERROR":
            run.obligation("model.eval", False, str(m[1])[:300])
            continue
        spec, impl = res_of_coq(m[0]), res_of_coq(m[1])
        if spec[0] == "fuel" or impl[0] == "fuel":
            run.count("skipped-out-of-fuel")
            continue
        code = res_of_code(o)
        run.count("outcome:" + (code[0] if code[0] != "err" else code[1]))
        case = {"jsonnet": src, "call": c.coq()[:600]}
        if "ok" in o and not listed_in_order(o["ok"]):
            failures.append({"case": case, "summary": f"C13 object fields not listed in ascending order: {src[:200]}",
                             "what": "listing order", "expected": "ascending unique names", "got": show(o["ok"])})
        cls = classify(c)
        if code != spec:
            f = {"case": case, "summary": f"C13 {c.kind}: result differs from the definition: {src[:220]}",
                 "what": f"{c.kind} differs from its definition", "expected": show(spec), "got": show(code),
                 "impl_model": show(impl)}
            if cls and code == impl:
                f["known"] = cls
                f["summary"] = f"C13 known [{cls}]: {src[:200]}"
                run.count("known:" + cls)
                if wit_by_js.get(src) == cls:
                    reproduced.add(cls)
            failures.append(f)
        elif code != impl:
            model_diffs.append({"case": case, "model": show(impl), "code": show(code), "spec": show(spec)})
        if len(run.samples) < 10 and nontrivial and len(src) < 220 and (len(run.samples) < 5 or c.kind not in
                                                                       {s["fn"] for s in run.samples}):
            run.samples.append({"fn": c.kind, "jsonnet": src, "definition": show(spec)[:200], "code": show(code)[:200]})
    if witnesses:
        known_ids = {k["id"] for k in core.load_known("C13")}
        for fid in WITNESSES:
            if fid in known_ids:
                run.obligation(f"known.{fid}.witness_reproduces", fid in reproduced,
                               "" if fid in reproduced else
                               "the witness of the _refuted theorem no longer shows the deviation on the code: "
                               "the defect was fixed (move the finding to `fixed`, drop the restriction) or changed")
    return failures, model_diffs


def vis_expr(o):
    ds = "[" + ";".join(f"({cq_str(n)},{ {':': 'VisNormal', '::': 'VisHidden', ':::': 'VisUnhide'}[v]})"
                        for n, v in decls_of(o)) + "]"
    ks = "[" + ";".join(cq_str(k) for k in FEW) + "]"
    return (f"(fields_impl {ds} false, fields_impl {ds} true, "
            f"map (fun k => (has_field_impl k {ds} false, has_field_impl k {ds} true)) {ks}, "
            f"map (fun k => vis_spec k {ds}) {ks})")


def correspond_visibility(run, binary, chains, model):
    """visibility of a chain: language rule (generator's flatten) vs both Coq kernels vs the code"""
    failures, model_diffs = [], []
    reqs = []
    for o in chains:
        src = js(o)
        reqs.append({"code": f"local O = {src}; [std.objectFields(O), std.objectFieldsAll(O), "
                             f"[[std.objectHas(O, k), std.objectHasAll(O, k)] for k in {json.dumps(FEW)}], std.length(O)]"})
    outs = core.run_harness(binary, "eval", reqs)
    for o, m, a, rq in zip(chains, model, outs, reqs):
        run.count("visibility-chains")
        run.count(f"chain-layers-{len(o[1])}")
        run.note_case("V:" + rq["code"], len(o[1]) > 1)
        if isinstance(m, tuple) and m and m[0] == "ERROR":
            run.obligation("model.eval", False, str(m[1])[:300])
            continue
        fl = flatten(o)[1]
        vis = sorted(n for n, h, _x in fl if not h)
        alln = sorted(n for n, _h, _x in fl)
        hid = {n: h for n, h, _x in fl}
        expect = [vis, alln, [[k in hid and not hid[k], k in hid] for k in FEW], ("num", len(vis))]
        decode = lambda l: ["".join(chr(c) for c in s) for s in l]  # noqa
        m_f, m_fa, m_has, m_spec = m
        model_view = [decode(m_f), decode(m_fa), [[bool(x[0]), bool(x[1])] for x in m_has], ("num", len(m_f))]
        spec_view = [None if s == "None" else bool(s.args[0]) for s in m_spec]
        case = {"jsonnet": rq["code"]}
        if spec_view != [hid.get(k) for k in FEW] or model_view != expect:
            # the generator's reading of the language rule and the Coq SPEC / kernels disagree
            run.obligation("C13.visibility_kernels_vs_generator", False,
                           f"{rq['code'][:200]}: generator {expect} {hid}, coq {model_view} {spec_view}")
            continue
        if "ok" not in a:
            failures.append({"case": case, "summary": f"C13 listing program failed: {rq['code'][:200]}",
                             "what": "listing program failed", "expected": show(expect), "got": a})
            continue
        got = tree_of_code(a["ok"])
        if got != expect:
            failures.append({"case": case, "summary": f"C13 objectFields/objectHas/length of an inheritance chain: "
                                                      f"{rq['code'][:200]}",
                             "what": "visibility of an inherited field", "expected": show(expect), "got": show(got)})
    run.log(f"visibility kernel: {len(chains)} chains")
    return failures, model_diffs


def replay(run, data):
    binary, err = core.build_harness(run)
    f = data.get("failure", {})
    code = f.get("case", {}).get("jsonnet")
    if not code:
        print(json.dumps(data, indent=1)[:3000])
        return 1
    sub = "eval" if code.startswith("local O = ") else "lazy"
    outs = core.run_harness(binary, sub, [{"code": code}])
    print("jsonnet :", code)
    print("model   :", f.get("case", {}).get("call"))
    print("expected:", f.get("expected"))
    print("was     :", f.get("got"))
    print("now     :", outs[0], "=>", show(res_of_code(outs[0])) if sub == "lazy" else "")
    return 0


RULE = ("calls std.<fn>(args) for the 30 listed functions; args: JSON-like values (integers, strings incl. astral/NUL, "
        "nested arrays/objects, null/[]/{} for prune), functions with 0-3 required and 0-2 default parameters, objects "
        "built by 1-3 layer inheritance chains over a 15-name pool (incl. '', U+FFFF, U+10000) with `:` `::` `:::` and `+:` "
        "fields, keys visible / hidden / absent, lazily failing fields (`error`), patches with nulls / nested objects / "
        "non-object targets and patches (RFC 7396 appendix A included), equal / one-place-mutated pairs for equals, "
        "ill-typed arguments; plus 1-5 layer chains for the visibility kernels; distinct = distinct Jsonnet call; "
        "non-trivial = some argument is a non-empty array or object")
TRUSTED = ["Coq 8.16.1 kernel incl. vm_compute (no native_compute); no axioms",
           "SPEC = my reading of the std documentation / std.jsonnet definitions and RFC 7396 (Model.v comments quote them)",
           "generator's chain flattening (language rule for visibility and +:), cross-checked against the Coq SPEC vis_spec "
           "and both impl kernels on every chain",
           "correspondence: jrharness lazy/eval (harness/src/lazycmd.rs walks results with ArrValue::get / ObjValue::get), "
           "vlib generators, Coq term printer/parser",
           "modelled not verified: numbers are integers (exact == after ce0d2fe; C09 owns float semantics), "
           "omit cores of objectRemoveKey, object asserts, field caching, evaluation order between same-class errors"]
ASSUMPTIONS = ["impl-model transliterates misc.rs builtin_merge_patch/builtin_get, arrays.rs builtin_prune/"
               "builtin_map_with_key, obj/mod.rs fields_visibility/field_visibility_idx/fields_ex, val.rs equals; "
               "tie = differential run on every check",
               "objects reach the std functions as the flattened (name, hidden, value) list of their chain",
               "mergePatch theorem: JSON values in canonical form (names strictly ascending), fuel > depth of the patch"]
