"""C04 — evaluation is total: a value or a Jsonnet error, never a crash.

Theorems (coq/theories/C04): the depth counter of stack.rs is balanced over every history
(returned / failed / refused frames, nested limit overrides), never exceeds the limit, refuses
runaway recursion exactly at the limit and never below it; the array-view index arithmetic
never panics (corollary of C08).  Whole-binary panic freedom and native-stack safety cannot be
exhibited by a Gallina model: they are *explored* here (every std function x boundary-heavy
argument tuples, token/mutation fuzz through both parsers, recursion sweep across the limit,
histories on one thread, deep inputs through the real executable).
"""
import json
import os
import subprocess
import tempfile

from vlib import core
from vlib import progen as g

C04_IMPORTS = "From Coq Require Import List Arith.\nFrom JrV Require Import C04.Model.\nImport ListNotations.\n"

B_ALL = ["null", "true", "0", "-1", "1", "0.5", "-0.5", "3", "2147483647", "2147483648", "-2147483649",
         "9007199254740993", "1e300", "-1e300", '""', '"a"', '"é😀"', '"%"', '"%d"', '"0"', "[]", "[1]",
         '[1, "a"]', '["a", "b"]', "{}", "{a: 1}", "function(x) x", "function(x, y) x"]
B_CORE = ["null", "0", "-1", "3", "0.5", "2147483648", "1e300", '""', '"é😀"', "[]", '["a", "b"]', "{a: 1}"]

TOKENS = ["x", "1", '"s"', "+", "-", "*", "/", "%", "!", "~", "^", "&", "|", "<", ">", "==", "(", ")", "[", "]",
          "{", "}", ":", "::", ",", ".", ";", "=", "local", "if", "then", "else", "function", "for", "in",
          "self", "super", "$", "error", "assert", "import", "importstr", "null", "true", "tailstrict",
          "|||", "@'a'", "/*", "*/", "//", "#", "é", "1e999", "0x", "1.", "\"\\u12", "'"]


def class_of(o):
    if "ok" in o or "seq" in o:
        return "ok"
    if "err" in o:
        return "err"
    if "panic" in o:
        return "panic"
    if "abort" in o:
        if "memory allocation" in o.get("stderr", "") or "capacity overflow" in o.get("stderr", ""):
            return "oom"
        return "abort"
    return "harness_error"


def std_functions(binary):
    o = core.run_harness(binary, "eval", [{"code": "[f for f in std.objectFieldsAll(std) if std.isFunction(std[f])]",
                                           "out": "minify"}])[0]
    return json.loads(o["ok"])


def std_requests(run, funcs):
    import itertools
    r = run.rng.fork("std")
    thorough = run.tier == "thorough"
    reqs = []
    skip = {"trace", "extVar", "native"}     # side-effecting / configuration-dependent: probed separately
    for f in funcs:
        if f in skip:
            continue
        tuples = [(a,) for a in B_ALL]
        if thorough:
            tuples += list(itertools.product(B_CORE, repeat=2))
        tuples += [(r.choice(B_ALL), r.choice(B_ALL)) for _ in range(600 if thorough else 45)]
        tuples += [tuple(r.choice(B_ALL) for _ in range(3)) for _ in range(800 if thorough else 25)]
        tuples += [tuple(r.choice(B_ALL) for _ in range(4)) for _ in range(200 if thorough else 6)]
        tuples.append(())
        for t in tuples:
            reqs.append({"code": f"std.{f}({', '.join(t)})", "out": "none"})
            run.count(f"std.arity{len(t)}")
    # special: trace / extVar / native with odd arguments
    for a in B_ALL:
        reqs.append({"code": f"std.trace({a}, 1)", "out": "none", "trace": True})
        reqs.append({"code": f"std.extVar({a})", "out": "none"})
        reqs.append({"code": f"std.native({a})", "out": "none"})
    return reqs


def fuzz_sources(run):
    r = run.rng.fork("fuzz")
    n_tok = 20000 if run.tier == "thorough" else 1500
    out = []
    for _ in range(n_tok):
        k = 1 + r.below(12)
        out.append(" ".join(r.choice(TOKENS) for _ in range(k)))
    pg = g.ProgGen(r.fork("mut"), p_err=0.02)
    for _ in range(3000 if run.tier == "thorough" else 300):
        src = g.to_js(pg.program())
        toks = src.replace("(", " ( ").replace(")", " ) ").replace("[", " [ ").replace("]", " ] ").split(" ")
        toks = [t for t in toks if t]
        if not toks:
            continue
        k = r.below(4)
        i = r.below(len(toks))
        if k == 0:
            del toks[i]
        elif k == 1:
            toks.insert(i, toks[i])
        elif k == 2:
            j = r.below(len(toks))
            toks[i], toks[j] = toks[j], toks[i]
        else:
            toks[i] = r.choice(TOKENS)
        out.append(" ".join(toks))
    # nesting that a correct implementation must survive
    for d in (50, 150):
        out += ["(" * d + "1" + ")" * d, "[" * d + "]" * d, "{a:" * d + "1" + "}" * d, "-" * d + "1", "!" * d + "true",
                "1" + "+1" * d, "local a = 1; " * d + "a", "if true then " * d + "1", "[1" + "][0" * 0 + "]" + "[0]" * 0]
    return out


def recursion_requests():
    reqs, expect = [], []
    rec = "local f(n) = if n == 0 then 0 else 1 + f(n - 1); f(%d)"
    obj = "local f(n) = if n == 0 then {a: 0} else {a: f(n - 1).a + 1}; f(%d).a"
    arr = "local f(n) = if n == 0 then [0] else [f(n - 1)[0] + 1]; f(%d)[0]"
    for limit in (None, 40, 200, 500):
        L = limit or 200
        for shape in (rec, obj, arr):
            for n in sorted({1, L // 8, L // 4, L - 2, L - 1, L, L + 1, L + 2, 2 * L, 10 * L}):
                rq = {"code": shape % n}
                if limit:
                    rq["max_stack"] = limit
                reqs.append(rq)
                if n <= L // 4:
                    expect.append(("ok", n))
                elif n > L and shape is rec:
                    expect.append(("StackOverflow", n))
                else:
                    # the object/array shapes recurse through lazily evaluated fields/elements: call
                    # frames do not nest there, so the frame limit need not trigger
                    expect.append(("either", n))
    selfdep = ["local a = a; a", "{a: self.a}.a", "local a = [a[0]]; a[0]", "local a = {b: a.b}; a.b",
               "local f(x) = x, a = f(a); a", "{a: self.b, b: self.a}.a", "{assert self.a > 0, a: self.b, b: self.a}.a",
               "local a = b, b = c, c = a; a", "{a+: self.a}.a", "local o = {x: o.y, y: o.x}; o"]
    # a value that depends on itself THROUGH a lazily evaluating library construct: every per-element /
    # per-field cache must report the cycle, not crash
    selfdep += [
        "local a = std.makeArray(3, function(i) a[(i + 1) % 3] + 1); a",
        "local a = std.makeArray(2, function(i) a[i]); a[1]",
        "{ xs: std.map(function(x) x + $.xs[0], [1, 2, 3]) }.xs[2]",
        "local a = std.map(function(x) a[x], [0, 1]); a[1]",
        "local a = std.mapWithIndex(function(i, x) a[i] + x, [1, 2]); a[0]",
        "local a = std.filterMap(function(x) true, function(x) a[0], [1]); a[0]",
        "local a = [a[1], a[0]]; a[0]",
        "local a = [x for x in [a[0]]]; a[0]",
        "local a = std.reverse([2, a[0] + 1]); a[0]",
        "local a = ([a[0], 1] + [2])[0:2]; a[0]",
        "local a = std.repeat([a[0]], 2); a[1]",
        "local o = {a: std.get(o, 'a', 1)}; o.a",
        "local o = std.mapWithKey(function(k, v) o[k], {a: 1}); o.a",
        "local o = std.mergePatch({a: 1}, {b: {c: o.b.c}}); o.b.c",
        "local o = {a: 1} + {a+: o.a}; o.a",
        "local v = std.objectValues({a: v[0]}); v[0]",
        "local kv = std.objectKeysValues({a: kv[0].value}); kv[0].value",
        "local f(x) = x, a = std.foldl(function(acc, e) acc + a, [1], 0); a",
        "local s = std.sort([1, 2], function(k) s[0]); s",
        "local j = std.join([j[0]], [[1], [2]]); j[1]",
        "std.makeArray(2, function(i) std.makeArray(2, function(j) error 'x'))[0][0] + (local a = a; a)",
    ]
    for s in selfdep:
        reqs.append({"code": s})
        expect.append(("selfdep", 0))
    return reqs, expect


def history_requests(run):
    r = run.rng.fork("hist")
    pg = g.ProgGen(r.fork("p"), p_err=0.15)
    pool = [{"code": g.to_js(pg.program())} for _ in range(60)]
    pool += [{"code": "local f(n) = 1 + f(n + 1); f(0)"}, {"code": "local a = a; a"}, {"code": "1 +"},
             {"code": "error 'x'"}, {"code": "local f(n) = 1 + f(n + 1); f(0)", "max_stack": 30},
             {"code": "{assert false, a: 1}.a"}, {"code": "std.foldl(function(a, b) a + b, std.range(1, 50), 0)"},
             {"code": "std.sort([3, 'a'])"}, {"code": "std.parseJson('{')"}, {"code": "[1, 2][5]"}]
    seqs = []
    for _ in range(300 if run.tier == "thorough" else 60):
        seqs.append([r.choice(pool) for _ in range(2 + r.below(7))])
    # programs stopped by the frame limit, then terminating recursions on both sides of the (default) limit:
    # the limit a program sees must not depend on how many earlier programs hit it
    near, over = limit_boundary_requests()
    pool += near + over
    for k in (1, 2, 5):
        for o in over:
            seqs.append(near[:4] + [o] * k + near)
    return pool, seqs


def limit_boundary_requests():
    near = [{"code": f"local f(n) = if n == 0 then 0 else 1 + f(n - 1); f({d})"} for d in range(186, 202)]
    over = [{"code": "local f(n) = 1 + f(n + 1); f(0)"},
            {"code": "local o = {f(n): 1 + self.f(n + 1)}; o.f(0)"}]
    return near, over


def cli_deep(run, bindir):
    """deep inputs through the real executable (8 MiB main-thread stack): a crash is a violation"""
    res = []
    exe = os.path.join(bindir, "jrsonnet")
    tmp = tempfile.mkdtemp(prefix="c04-", dir=core.CACHE)
    try:
        shapes = {"parens": lambda d: "(" * d + "1" + ")" * d, "arrays": lambda d: "[" * d + "]" * d,
                  "plus-chain": lambda d: "1" + "+1" * d, "unary": lambda d: "-" * d + "1",
                  "objects": lambda d: "{a:" * d + "1" + "}" * d, "locals": lambda d: "local a = 1; " * d + "a",
                  "index-chain": lambda d: "local a = [0]; a" + "[a[0]]" * 0 + "[0]" * 0 + ""}
        for name, mk in shapes.items():
            for d in (100, 400, 20000):
                if name == "index-chain":
                    continue
                path = os.path.join(tmp, f"{name}{d}.jsonnet")
                with open(path, "w") as f:
                    f.write(mk(d))
                try:
                    p = subprocess.run([exe, path], stdout=subprocess.PIPE, stderr=subprocess.PIPE, text=True,
                                       timeout=120)
                    rc, err = p.returncode, p.stderr[-200:]
                except subprocess.TimeoutExpired:
                    rc, err = "timeout", ""
                res.append((name, d, rc, err))
    finally:
        import shutil
        shutil.rmtree(tmp, ignore_errors=True)
    return res


KNOWN_DEEP = "C04-deep-nesting-native-stack"


def check(run, terrs):
    proofs_ok, detail = core.check_property_file(run, "C04")
    binary, err = core.build_harness(run)
    if not binary:
        run.obligation("harness.build", False, err)
        return core.conclude(run, False, err, [], [])
    failures = []
    MEM = 6 * 1024 ** 3

    def crash_failures(reqs, outs, what, envdesc=""):
        for rq, o in zip(reqs, outs):
            c = class_of(o)
            run.count(f"{what}:{c}")
            run.note_case(what + json.dumps(rq, sort_keys=True), True)
            if c in ("panic", "abort", "harness_error"):
                failures.append({"case": {"request": rq, "env": envdesc},
                                 "summary": f"C04 {what}: {c} instead of a value or an error: {rq.get('code', '')[:160]}",
                                 "expected": "value or Jsonnet error", "got": o})
            elif len(run.samples) < 4 and c == "err" and what == "std":
                run.samples.append({"request": rq, "outcome": o})

    # (a) every std function x boundary-heavy argument tuples
    funcs = std_functions(binary)
    reqs = std_requests(run, funcs)
    run.log(f"{len(funcs)} std functions, {len(reqs)} calls")
    outs = core.run_harness(binary, "eval", reqs, mem_limit=MEM, timeout=1200)
    crash_failures(reqs, outs, "std")
    run.log("std sweep done")
    # (b) source fuzz through both parsers
    srcs = fuzz_sources(run)
    reqs = [{"code": s, "out": "none"} for s in srcs]
    for leg, env in (("ir", None), ("peg", {"JRSONNET_LEGACY_PARSER": "1"})):
        outs = core.run_harness(binary, "eval", reqs, env_extra=env, mem_limit=MEM)
        crash_failures(reqs, outs, "fuzz-" + leg, leg)
    run.log("fuzz done")
    # (c) recursion sweep and self-dependent values; model: the depth machine on the same chains
    reqs, expect = recursion_requests()
    outs = core.run_harness(binary, "eval", reqs, mem_limit=MEM)
    for rq, o, (exp, n) in zip(reqs, outs, expect):
        run.note_case("rec" + json.dumps(rq, sort_keys=True), True)
        c = class_of(o)
        if exp == "selfdep":
            # a Jsonnet error (infinite recursion, or the stack limit for cycles through library calls) - never
            # a value, never a crash
            good = c == "err"
            run.count(f"selfdep:{o.get('err', c)}")
            if not good:
                failures.append({"case": {"request": rq}, "summary": f"C04 self-dependent value is not reported as an "
                                 f"error ({c}): {rq['code'][:120]}", "expected": "InfiniteRecursionDetected / StackOverflow error",
                                 "got": o})
            continue
        good = (c in ("ok", "err")) and (
            (exp == "ok" and c == "ok") or (exp == "either" and (c == "ok" or o.get("err") == "StackOverflow")) or
            (exp not in ("ok", "either") and o.get("err") == exp))
        run.count(f"recursion:{exp}:{c}")
        if not good:
            failures.append({"case": {"request": rq}, "summary": f"C04 recursion/limit: expected {exp}: {rq['code'][:120]} "
                             f"max_stack={rq.get('max_stack', 200)}", "expected": exp, "got": o})
    model = core.coq_eval(C04_IMPORTS, [f"fst (run (chain {k}) (mkSt 0 {L} 0))" for L in (3, 40, 200) for k in (L - 2, L - 1, L, L + 1)])
    want = ["Done", "Done", "StackOverflow", "StackOverflow"] * 3
    run.obligation("C04.model.chain_runs", model == want, repr(model))
    # (d) histories on one thread: every result equals the fresh-thread result
    pool, seqs = history_requests(run)
    fresh = core.run_harness(binary, "eval", pool, mem_limit=MEM)
    fresh_by = {json.dumps(p, sort_keys=True): o for p, o in zip(pool, fresh)}
    outs = core.run_harness(binary, "eval", [{"seq": s} for s in seqs], mem_limit=MEM)
    for s, o in zip(seqs, outs):
        run.note_case("hist" + json.dumps(s, sort_keys=True), True)
        run.count("history")
        if "seq" not in o:
            failures.append({"case": {"request": {"seq": s}}, "summary": "C04 history crashed the thread",
                             "expected": "a result per step", "got": o})
            continue
        for step, (rq, got) in enumerate(zip(s, o["seq"])):
            exp = fresh_by[json.dumps(rq, sort_keys=True)]
            if got != exp:
                failures.append({"case": {"request": {"seq": s}, "step": step},
                                 "summary": f"C04 after earlier evaluations on the same thread step {step} differs "
                                 f"from a fresh thread: {rq['code'][:100]}", "expected": exp, "got": got})
                break
    run.log("histories done")
    # (f) array representation histories: views above the concatenation threshold with evaluated and
    # unevaluated halves, cut back and concatenated again (C08's rebuild family + random view trees); here only
    # "no crash" is judged, C08 judges the values
    from props import c08 as _c08
    ag = _c08.Gen(run.rng.fork("arrhist"))
    ops = _c08.rebuild_family(ag, sizes=(1001,)) + [ag.op(2 + k % 3) for k in range(400 if run.tier == "thorough" else 120)]
    reqs = [{"code": f"local a = {_c08.op_js(o)}; [std.length(a), a, [x for x in a], a + a]", "out": "minify"} for o in ops]
    outs = core.run_harness(binary, "eval", reqs, mem_limit=MEM)
    crash_failures(reqs, outs, "arrays")
    run.log("array histories done")
    # (e) deep inputs through the real executable
    bindir, berr = core.build_repo_bins(run, packages=("jrsonnet",))
    if not bindir:
        run.obligation("repo.build", False, berr)
    else:
        for name, d, rc, errtxt in cli_deep(run, bindir):
            run.note_case(f"deep:{name}:{d}", True)
            run.count(f"deep:{'ok' if rc in (0, 1) else 'crash'}")
            if rc not in (0, 1):
                failures.append({"case": {"cli": f"jrsonnet <{name} nested {d} deep>"},
                                 "summary": f"C04 executable crashed (rc={rc}) on {name} nested {d} deep: {errtxt.strip()[:80]}",
                                 "expected": "exit 0 or 1", "got": rc,
                                 "known": KNOWN_DEEP if d >= 400 else None})
    run.trusted = ["Coq 8.16.1 kernel incl. vm_compute (depth-counter theorems; no axioms)",
                   "jrharness (catch_unwind per request, dev profile with overflow checks), the real jrsonnet executable"]
    run.assumptions = ["whole-binary panic freedom, allocator behaviour and native-stack safety are explored, not proved",
                       "memory exhaustion (allocation failure under a 6 GiB address-space limit) is counted, not judged"]
    return core.conclude(run, proofs_ok, detail, failures, [], level="proof", rule=RULE)


def replay(run, data):
    binary, err = core.build_harness(run)
    f = data.get("failure", {})
    req = f.get("case", {}).get("request")
    if not req:
        print(json.dumps(data, indent=1)[:3000])
        return 1
    env = {"JRSONNET_LEGACY_PARSER": "1"} if f["case"].get("env") == "peg" else None
    out = core.run_harness(binary, "eval", [req], env_extra=env, mem_limit=6 * 1024 ** 3)
    print("request :", json.dumps(req)[:2000])
    print("was     :", json.dumps(f.get("got"))[:1000])
    print("now     :", json.dumps(out[0])[:1000])
    return 0


RULE = ("(a) every function of the real std object x argument tuples from a 28-value boundary set (all singles, all "
        "pairs of a 12-value core, sampled pairs/triples/quadruples); (b) random token strings (<=12 tokens over a "
        "57-token hostile alphabet) and single-token mutations of generated programs, through both parsers; "
        "(c) recursion of three shapes swept across the frame limit for limits {default,40,200,500} + ten self-"
        "dependent values; (d) random histories of failing/succeeding evaluations on one thread vs fresh threads; "
        "(e) 6 nesting shapes x depth {100,400,20000} through the real executable; (f) array-view histories (concatenations above the extension threshold of evaluated and unevaluated halves, cut back and concatenated again, random view trees); every case is distinct and "
        "non-trivial (each exercises a parse/evaluate path); outcome classes: value | Jsonnet error | PANIC | ABORT")
