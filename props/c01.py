"""C01 — evaluation agrees with the Jsonnet language semantics.

SPEC: coq/theories/Sem (reference call-by-need interpreter).  Theorems: coq/theories/C01
(argument binding, scope lookup, call-style invariance; PropertiesOps.v: the operator dispatch of
evaluate/operator.rs and val.rs, translated arm by arm into Gen/GenOps.v on every run, is the dispatch of Sem).  Correspondence: type-directed
random programs (vlib/progen.py) evaluated by the real code in several configurations
(2 parsers x positional/named call style x 4 embeddings) and by Sem inside Coq; every
configuration must give Sem's JSON value, or an error exactly when Sem gives an error.
"""
import json

from vlib import core
from vlib import progen as g

FUEL = 400
EMBEDS = ["snippet", "import", "ext", "tla"]


def tla_wrap(rng, p, idx):
    """the program as the body of a top-level function whose defaulted parameters refer to each other
    (and shadow nothing): some are supplied as --tla-code, the rest fall back to their defaults"""
    t = [f"t{idx}a", f"t{idx}b", f"t{idx}c"]
    params = [(t[0], ("num", rng.choice([10, 3]))),
              (t[1], ("bin", "+", ("var", t[0]), ("num", 1))),
              (t[2], ("bin", "*", ("var", t[1]), ("num", 2)))]
    if rng.chance(0.3):
        params[0] = (t[0], None)
    supplied = [(n, ("bin", "+", ("num", rng.below(5)), ("num", 1))) for n, d in params if d is None or rng.chance(0.3)]
    body = ("arr", [("var", t[0]), ("var", t[1]), ("var", t[2]), p])
    return ("tlawrap", ("fun", params, body), supplied)


def sem_ast(p):
    if p[0] == "tlawrap":
        return ("app", p[1], [], p[2], False)
    return p


def make_request(p, embed, named):
    if p[0] == "tlawrap":
        return {"code": g.to_js(p[1], named_calls=named),
                "tla_code": {n: g.to_js(e) for n, e in p[2]}}
    code = g.to_js(p, named_calls=named)
    if embed == "tla":
        # the program as the body of a top-level-argument function whose parameter it does not use
        return {"code": f"function(tlaunused=0) ({code})", "tla_code": {}}
    if embed == "tla2":
        return {"code": f"function(tlaparam) ({code})", "tla_code": {"tlaparam": "1 + 1"}}
    return {"code": code, "embed": embed}


def classify(o):
    """harness answer -> ("val", v) | ("err", kind) | ("crash", text)"""
    if "ok" in o:
        return ("val", core.decanon(o["ok"]))
    if "err" in o:
        return ("err", o["err"])
    return ("crash", json.dumps(o)[:300])


def is_known(p, sem, got):
    return None


def operator_grid():
    """every unary and binary operator on every pair of value types (and a few value choices per type):
    the dispatch table of the evaluator against Sem's"""
    S = lambda x: ("str", x)  # noqa
    N = lambda z: ("num", z)  # noqa
    vals = {
        "null": [("null",)], "bool": [("bool", True), ("bool", False)], "num": [N(0), N(3), N(-2), N(12)],
        "str": [S(""), S("a"), S("b")], "arr": [("arr", []), ("arr", [N(1)]), ("arr", [N(1), N(2)]), ("arr", [S("a")])],
        "obj": [("obj", [], [], []), ("obj", [], [], [(S("a"), ":", False, N(1))]), ("obj", [], [], [(S("b"), "::", False, N(2))]),
                # visible / hidden names shadowing each other with equal visible counts (== looks at visible names)
                ("obj", [], [], [(S("a"), ":", False, N(1)), (S("b"), ":", False, N(2))]),
                ("obj", [], [], [(S("a"), "::", False, N(1)), (S("b"), ":", False, N(2)), (S("c"), ":", False, N(3))])],
        "fun": [("fun", [("q", None)], ("var", "q"))],
    }
    progs = []
    for op in g.BINOPS:
        for ta, va in vals.items():
            for tb, vb in vals.items():
                pairs = [(a, b) for a in va for b in vb]
                if ta == tb and ta in ("num", "str", "arr", "obj", "bool"):
                    use = pairs                       # same-type pairs: every value combination
                else:
                    use = pairs[:2]
                for a, b in use:
                    progs.append(("bin", op, a, b))
    for op in g.UNOPS:
        for va in vals.values():
            for a in va:
                progs.append(("un", op, a))
    # results that are functions/objects-with-functions do not manifest: wrap in std.type where needed
    return [("arr", [("type", p), ("if", ("bin", "==", ("type", p), ("str", "function")), ("null",), p)]) for p in progs]


OPS_IMPORTS = ("From Coq Require Import List ZArith NArith Bool.\n"
               "From JrV Require Import Sem.Syntax Sem.Interp Common.OpClass Gen.GenOps C01.ModelOps.\nImport ListNotations.\n")
OP_SYM = {v: k for k, v in g.BINOPS.items()}
UN_SYM = {v: k for k, v in g.UNOPS.items()}


def ops_values(t, empty=False, zero=False):
    """a few operands of the variant t (the guard facts of the translated tables: empty string, zero)"""
    S = lambda x: ("str", x)  # noqa
    N = lambda z: ("num", z)  # noqa
    return {"TNull": [("null",)], "TBool": [("bool", True), ("bool", False)],
            "TNum": [N(0)] if zero else [N(3), N(-2)],
            "TStr": [S("")] if empty else [S("a"), S("%d")],
            "TArr": [("arr", []), ("arr", [N(1)])],
            "TObj": [("obj", [], [], []), ("obj", [], [], [(S("a"), ":", False, N(1))])],
            "TFunc": [("fun", [("q", None)], ("var", "q"))]}[t]


def ops_tables(run, binary):
    """Translated operator dispatch (Gen/GenOps.v, from evaluate/operator.rs + val.rs) against the tables of
    the arms Sem takes (C01/ModelOps.v; proved to be Sem's dispatch in ProofsOps.v).  ModelOps.v holds only
    definitions, so it computes even when a proof no longer checks: every differing cell is named in an
    obligation and rendered into one-line programs that the real code and Sem are run on."""
    r = core.coq_eval(OPS_IMPORTS, ["optable_cells", "unary_cells", "special_cells", "eqcmp_cells"], timeout=600)
    if any(isinstance(x, tuple) and x and x[0] == "ERROR" for x in r):
        run.obligation("C01.ops_tables(ModelOps computes)", False, str(r)[:400])
        return []
    cells, ucells, scells, ecells = r
    run.count("ops:table_cells_differing", len(cells) + len(ucells) + len(scells) + len(ecells))
    progs, names = [], []
    for (o, ta, tb, (le, re_, rz), got, want) in cells:
        names.append(f"{OP_SYM.get(o, o)} on ({ta}{' empty' if le else ''}, {tb}{' empty' if re_ else ''}{' zero' if rz else ''}): "
                     f"source says {got!r}, Sem takes {want!r}")
        if o in ("BAnd", "BOr"):
            continue            # reachable only through the short-circuit arms: covered by special cells / the grid
        for a in ops_values(ta, empty=le):
            for b in ops_values(tb, empty=re_, zero=rz):
                progs.append(("bin", OP_SYM[o], a, b))
    for (o, t, got, want) in ucells:
        names.append(f"unary {UN_SYM.get(o, o)} on {t}: source says {got!r}, Sem takes {want!r}")
        progs += [("un", UN_SYM[o], a) for a in ops_values(t) + ops_values(t, True, True)]
    for (o, t, bv, got, want) in scells:
        names.append(f"{OP_SYM.get(o, o)} with left operand {t}/{bv}: source says {got!r}, Sem takes {want!r}")
        lefts = [("bool", bv)] if t == "TBool" else ops_values(t)
        for a in lefts:
            progs += [("bin", OP_SYM[o], a, ("error", ("str", "right operand evaluated"))),
                      ("bin", OP_SYM[o], a, ("bool", True)), ("bin", OP_SYM[o], a, ("bool", False))]
    for (ta, tb, geq, seq, gcmp) in ecells:
        names.append(f"equals / compare on ({ta}, {tb}): source says {geq!r} / {gcmp!r}, Sem's equals takes {seq!r}")
        for a in ops_values(ta):
            for b in ops_values(tb):
                progs += [("bin", sym, a, b) for sym in ("==", "!=", "<", ">=")]
    if not names:
        return []
    run.obligation("C01.C01_optable_actions_table / _unary_table / _short_circuit / _equals (translated dispatch = Sem's)",
                   False, "; ".join(names)[:1500])
    progs = [("arr", [("type", p), ("if", ("bin", "==", ("type", p), ("str", "function")), ("null",), p)]) for p in progs]
    run.log(f"operator tables: {len(names)} differing cells, {len(progs)} targeted programs")
    return correspond(run, binary, progs, light=len(progs)) if progs else []


def generate(run, n):
    pg = g.ProgGen(run.rng.fork("progs"), stdlib=0.05)
    progs = operator_grid() + [pg.program() for _ in range(n)]
    # a stream dense in calls of NATIVE standard-library builtins (40 of them: folds, maps, filters, ranges,
    # joins, slices, string and object helpers) with Jsonnet callbacks that close over the environment;
    # Sem evaluates each call through its reference definition (vlib/stdref.py)
    pgs = g.ProgGen(run.rng.fork("stdprogs"), stdlib=0.45)
    want, tries = max(n // 4, 60), 0
    while want > 0 and tries < 20 * n:
        tries += 1
        q = pgs.program()
        if "std." in g.to_js(q):
            progs.append(q)
            want -= 1
    for k, v in pgs.stats.items():
        if k.startswith("std:"):
            run.count("gen:" + k, v)
    rr = run.rng.fork("tla")
    ng = len(operator_grid())
    for i in range(ng, len(progs)):
        if (i - ng) % 6 == 0:
            progs[i] = tla_wrap(rr, progs[i], i)
    for k, v in pg.stats.items():
        run.count("gen:" + k, v)
    return progs


def correspond(run, binary, progs, light=0):
    """the first [light] programs (operator grid) run in the two parser configurations only"""
    failures, skipped = [], 0
    sem = core.coq_eval(g.SEM_IMPORTS, [f"run {FUEL} {g.to_coq(sem_ast(p))}" for p in progs], timeout=1200)
    run.log("Sem evaluated")
    # configurations: every program in the base config + 5 others chosen by the seeded PRNG so that
    # over the run every (parser, style, embedding) combination is exercised equally
    combos = [(leg, named, emb) for leg in (False, True) for named in (False, True)
              for emb in EMBEDS + ["tla2"]]
    rq = {False: [], True: []}
    plan = []
    rr = run.rng.fork("configs")
    for i, p in enumerate(progs):
        if i < light:
            chosen = [(False, False, "snippet"), (True, False, "snippet")]
        else:
            chosen = [(False, False, "snippet")] + [combos[(i * 5 + j * 7 + rr.below(len(combos))) % len(combos)]
                                                    for j in range(5)]
        for (leg, named, emb) in chosen:
            rq[leg].append(make_request(p, emb, named))
            plan.append((i, leg, named, emb, len(rq[leg]) - 1))
            run.count(f"cfg:{'peg' if leg else 'ir'}/{'named' if named else 'pos'}/{emb}")
    outs = {
        False: core.run_harness(binary, "eval", rq[False]),
        True: core.run_harness(binary, "eval", rq[True], env_extra={"JRSONNET_LEGACY_PARSER": "1"}),
    }
    run.log(f"harness done ({len(rq[False]) + len(rq[True])} evaluations)")
    reported = set()
    for (i, leg, named, emb, k) in plan:
        p = progs[i]
        m = sem[i]
        if isinstance(m, tuple) and m and m[0] == "ERROR":
            run.obligation("Sem.eval", False, str(m[1])[:300])
            continue
        (kind, val), _log = g.outcome_py(m)
        if kind == "err" and val in ("KFuel", "KUnsup"):
            if (i, "skip") not in reported:
                reported.add((i, "skip"))
                skipped += 1
                run.count("skipped:" + val)
            continue
        got = classify(outs[leg][k])
        cfg = {"parser": "peg" if leg else "ir", "call_style": "named" if named else "positional", "embedding": emb}
        ok = (kind == "val" and got == ("val", val)) or (kind == "err" and got[0] == "err")
        if (i, "n") not in reported:
            reported.add((i, "n"))
            run.note_case(json.dumps(make_request(p, "snippet", False), sort_keys=True), g.size(p) >= 6)
            run.count("sem:" + (kind if kind == "val" else "err:" + val))
            if len(run.samples) < 5 and kind == "val" and g.size(p) > 25:
                run.samples.append({"request": make_request(p, "snippet", False), "value": json.dumps(val)[:200]})
        if not ok and i not in reported:
            reported.add(i)
            req = make_request(p, emb, named)
            failures.append({
                "case": {"request": req, "config": cfg, "coq": g.to_coq(sem_ast(p))},
                "summary": f"C01 {cfg}: {req['code'][:160]}",
                "expected": {"sem": [kind, val]}, "got": got,
                "known": is_known(p, (kind, val), got)})
    run.coverage["skipped_out_of_fuel_or_unsupported"] = skipped
    return failures


C01_IMPORTS = ("From Coq Require Import List ZArith NArith.\nFrom JrV Require Import C01.Model.\n"
               "Import ListNotations.\n")
ERRMAP = {"TooMany": "TooManyArgsFunctionHas", "Unknown": "UnknownFunctionParameter",
          "Twice": "BindingParameterASecondTime", "NotBound": "FunctionParameterNotBoundInCall"}


def argbind_cases(thorough):
    import itertools
    cases = []
    for n in range(0, 4):
        for flags in itertools.product([False, True], repeat=n):
            names = [f"p{i + 1}" for i in range(n)]
            alpha = names + ["zz"]
            for u in range(0, n + 2):
                for ln in range(0, (4 if thorough else 3)):
                    for named in itertools.product(alpha, repeat=ln):
                        cases.append((list(zip(names, flags)), u, list(named)))
    return cases


def argbind_correspond(run, binary):
    """exhaustive call shapes: the transliterated binder (and, by theorem, the language rule)
    against the real function-call path"""
    failures, diffs = [], []
    cases = argbind_cases(run.tier == "thorough")
    ids = {"zz": 99}
    for i in range(1, 5):
        ids[f"p{i}"] = i
    exprs, reqs = [], []
    for ps, u, named in cases:
        cps = "[" + "; ".join(f"({ids[n]}%N, {'true' if d else 'false'})" for n, d in ps) + "]"
        cn = "[" + "; ".join(f"{ids[n]}%N" for n in named) + "]"
        exprs.append(f"(bind_impl {cps} {u} {cn}, map (fun i => spec_src {cps} {u} {cn} i) (seq 0 {len(ps)}))")
        params = ", ".join(n if not d else f'{n}="def{i}"' for i, (n, d) in enumerate(ps))
        args = [f'"arg{i}"' for i in range(u)] + [f'{n}="arg{u + j}"' for j, n in enumerate(named)]
        body = "[" + ", ".join(n for n, _ in ps) + "]"
        reqs.append({"code": f"local f({params}) = {body}; f({', '.join(args)})"})
    model = core.coq_eval(C01_IMPORTS, exprs)
    outs = core.run_harness(binary, "eval", reqs)
    for (ps, u, named), m, o, rq in zip(cases, model, outs, reqs):
        run.note_case("argbind:" + rq["code"], len(ps) > 0)
        run.count("argbind")
        if isinstance(m, tuple) and m and m[0] == "ERROR":
            run.obligation("C01.model.eval", False, str(m[1])[:300])
            continue
        impl, spec = m

        def src_py(t, ps=ps):
            if t == "None":
                return None
            t = t.args[0] if t.name == "Some" else t
            return f"arg{t.args[0]}" if t.name == "SArg" else f"def{t.args[0]}"
        spec_vals = [src_py(x) for x in spec]
        case = {"jsonnet": rq["code"]}
        # duplicate parameter names never occur here, so the theorems apply: spec error iff some None ...
        names = [n for n, _ in ps]
        spec_err = (u > len(ps) or any(n not in names for n in named) or len(set(names[:u] + named)) != len(names[:u] + named)
                    or any(v is None for v in spec_vals))
        if spec_err:
            if "err" not in o:
                failures.append({"case": case, "summary": f"C01 call accepted that the language rejects: {rq['code']}",
                                 "expected": "error", "got": o})
            elif impl.name == "inr":
                ek = impl.args[0] if isinstance(impl.args[0], str) else impl.args[0].name
                if ERRMAP.get(ek) != o["err"]:
                    diffs.append({"case": case, "model": ek, "code": o["err"]})
            else:
                diffs.append({"case": case, "model": "binder model accepts", "code": o["err"]})
        else:
            got = core.decanon(o["ok"]) if "ok" in o else o
            if got != spec_vals:
                failures.append({"case": case, "summary": f"C01 parameters bound to the wrong arguments: {rq['code']}",
                                 "expected": spec_vals, "got": got})
            if impl.name != "inl":
                diffs.append({"case": case, "model": repr(impl), "code": "accepted"})
    return failures, diffs


def canary(run, binary):
    """the two parser selections must really select different parsers"""
    req = [{"code": "2 ^ 3 ^ 1"}, {"code": "(~1) * 2"}]
    a = core.run_harness(binary, "parsers_differ", [{}]) if False else None  # placeholder: see C06
    return a


def check(run, terrs):
    proofs_ok, detail = core.check_property_file(run, "C01")
    binary, err = core.build_harness(run)
    if not binary:
        run.obligation("harness.build", False, err)
        return core.conclude(run, False, err, [], [])
    n = 12000 if run.tier == "thorough" else 1000
    failures = ops_tables(run, binary)
    failures += correspond(run, binary, generate(run, n), light=len(operator_grid()))
    f2, diffs = argbind_correspond(run, binary)
    failures += f2
    run.trusted = TRUSTED
    run.assumptions = ASSUMPTIONS

    def search():
        return correspond(run, binary, generate(run, 6000), light=len(operator_grid()))

    return core.conclude(run, proofs_ok, detail, failures, diffs, search=search if run.tier == "quick" else None,
                         level="proof", rule=RULE)


def replay(run, data):
    binary, err = core.build_harness(run)
    f = data.get("failure", {})
    req = f.get("case", {}).get("request")
    if not req:
        print(json.dumps(data, indent=1)[:3000])
        return 1
    env = {"JRSONNET_LEGACY_PARSER": "1"} if f["case"]["config"]["parser"] == "peg" else None
    out = core.run_harness(binary, "eval", [req], env_extra=env)
    print("request :", json.dumps(req))
    print("expected:", f.get("expected"))
    print("was     :", f.get("got"))
    print("now     :", out[0])
    return 0


RULE = ("type-directed random programs (locals incl. shadowing and mutual references, closures, functions "
        "with positional/named/default parameters, tailstrict, conditionals, all unary/binary operators, "
        "strings, arrays, comprehensions, index/slice, objects with self/super/$/+:/visibility/locals/asserts, "
        "error/assert; ~4% erroring nodes, bombs in unneeded positions) plus a stream dense in calls of 40 native "
        "std builtins with Jsonnet callbacks, judged against their reference definitions run by Sem; each run in the base configuration and "
        "5 of the 20 (parser x call-style x embedding) configurations; distinct = distinct source text; "
        "non-trivial = at least 6 AST nodes")
TRUSTED = ["Coq 8.16.1 kernel incl. vm_compute", "Sem (coq/theories/Sem) is my formalisation of the Jsonnet "
           "operational semantics (numbers restricted to integers below 2^53; out-of-model cases skipped and counted)",
           "jrharness eval + generators + Coq term parser",
           "translator/gens/ops.py copies the arms of the operator `match` expressions it recognises (fails closed otherwise); "
           "the meaning given to each body class (class_sem in C01/ModelOps.v) is my reading of the Rust bodies"]
ASSUMPTIONS = ["the full evaluator is not transliterated: agreement with Sem beyond generated programs is not a theorem",
               "documented deviations excluded from generation: standalone super, str*num, erroring LHS of `in super`"]
