"""C05 — JSON manifestation is well-formed and faithful.

Theorems: coq/theories/C05 (escaper round-trip for every byte list, UTF-8 preservation, the
writer of all four modes read back by an RFC 8259 reader for every value / every whitespace
padding, functions rejected, key order preserved).
Tie: (a) Gen/GenEscape.v (ESCAPE[256], escape arms, JsonFormat presets, std.manifestJson defaults)
regenerated from the working tree; (b) correspondence: generated JSON-like values are sent through
every producing path of the real code (JsonFormat::default/minify/cli(0..4), ToStringFormat,
std.manifestJson, std.manifestJsonEx with whitespace indents/newlines/key_val_seps,
std.manifestJsonMinified, std.toString, string concatenation) and
  * compared byte for byte with the Coq model's writer ([all_paths], vm_compute),
  * read back by Python's json module (independent oracle) and compared with the intended value:
    structure, strings code point for code point, numbers bit for bit, keys ascending, hidden omitted,
  * fed to std.parseJson, whose canonical result must be the value again;
values containing a function must be rejected by every path.
"""
import json
import re
from decimal import Decimal

from vlib import core

IMPORTS = ("From Coq Require Import List NArith.\nFrom JrV Require Import Gen.GenEscape C05.Model.\n"
           "Import ListNotations.\nOpen Scope N_scope.\n")

# ------------------------------------------------------------------ values
# ("null",) ("bool", b) ("num", bits) ("str", s) ("arr", [v]) ("obj", [(k, v)])  ("fun",)
# objects hold the VISIBLE fields in ascending code point order (what the property demands).


def f2b(x):
    return core.float_to_bits(x)


def b2f(b):
    return core.bits_to_float(b)


def rust_display(bits):
    """what Rust's `{}` prints for a finite f64: shortest round-trip digits, positional"""
    x = b2f(bits)
    s = format(Decimal(repr(x)), "f")
    if "." in s:
        s = s.rstrip("0").rstrip(".")
    return s


def num_src(bits):
    """Jsonnet source text denoting exactly this double"""
    x = b2f(bits)
    r = repr(abs(x))
    if r.endswith(".0"):
        r = r[:-2]
    neg = (bits >> 63) & 1
    return f"(-{r})" if neg else r


def depth(v):
    if v[0] == "arr":
        return 1 + max([depth(x) for x in v[1]] or [0])
    if v[0] == "obj":
        return 1 + max([depth(x) for _, x in v[1]] or [0])
    return 0


def size(v):
    if v[0] == "arr":
        return 1 + sum(size(x) for x in v[1])
    if v[0] == "obj":
        return 1 + sum(size(x) for _, x in v[1])
    return 1


def has_fun(v):
    if v[0] == "fun":
        return True
    if v[0] == "arr":
        return any(has_fun(x) for x in v[1])
    if v[0] == "obj":
        return any(has_fun(x) for _, x in v[1])
    return False


def from_canon(c):
    """harness canonical tree -> value tuple"""
    if c is None:
        return ("null",)
    if isinstance(c, bool):
        return ("bool", c)
    if isinstance(c, str):
        return ("str", c)
    if isinstance(c, list):
        return ("arr", [from_canon(x) for x in c])
    if isinstance(c, dict):
        if "#" in c:
            return ("num", int(c["#"]))
        if "o" in c:
            return ("obj", [(k, from_canon(x)) for k, x in c["o"]])
        if "f" in c:
            return ("fun",)
    raise ValueError(f"bad canon {c!r}")


def show(v, lim=300):
    def go(v):
        t = v[0]
        if t == "null":
            return "null"
        if t == "bool":
            return "true" if v[1] else "false"
        if t == "num":
            return f"#{v[1]}({b2f(v[1])!r})"
        if t == "str":
            return json.dumps(v[1])
        if t == "arr":
            return "[" + ", ".join(go(x) for x in v[1]) + "]"
        if t == "obj":
            return "{" + ", ".join(json.dumps(k) + ": " + go(x) for k, x in v[1]) + "}"
        return "<function>"
    s = go(v)
    return s if len(s) <= lim else s[:lim] + "..."


# ------------------------------------------------------------------ independent oracle: Python json
class Tok(str):
    """a number token as it appears in the text"""


NUM_RE = re.compile(r"-?(?:0|[1-9][0-9]*)(?:\.[0-9]+)?(?:[eE][+-]?[0-9]+)?\Z")


def _no_const(c):
    raise ValueError(f"non-JSON constant {c}")


def oracle_read(text):
    """text -> value tuple (numbers keep their token) or raises ValueError"""
    toks = []

    def num(s):
        t = Tok(s)
        toks.append(s)
        return t

    tree = json.loads(text, parse_float=num, parse_int=num, parse_constant=_no_const,
                      object_pairs_hook=lambda ps: {"__pairs__": ps}, strict=True)

    def conv(t):
        if t is None:
            return ("null",)
        if isinstance(t, bool):
            return ("bool", t)
        if isinstance(t, Tok):
            if not NUM_RE.match(t):
                raise ValueError(f"number token {t!r} is not RFC 8259")
            return ("num", f2b(float(t)))
        if isinstance(t, str):
            return ("str", t)
        if isinstance(t, list):
            return ("arr", [conv(x) for x in t])
        if isinstance(t, dict):
            return ("obj", [(k, conv(x)) for k, x in t["__pairs__"]])
        raise ValueError(f"unexpected {t!r}")

    return conv(tree), toks


# ------------------------------------------------------------------ Coq literals / results
def cq_bytes(bs):
    return "[" + ";".join(str(b) for b in bs) + "]"


def cq_val(v, toks):
    """value -> Gallina jval; number tokens are taken from the iterator `toks`"""
    t = v[0]
    if t == "null":
        return "JNull"
    if t == "bool":
        return "(JBool true)" if v[1] else "(JBool false)"
    if t == "num":
        return f"(JNum {cq_bytes(next(toks).encode())})"
    if t == "str":
        return f"(JStr {cq_bytes(v[1].encode('utf-8'))})"
    if t == "arr":
        return "(JArr [" + ";".join(cq_val(x, toks) for x in v[1]) + "])"
    if t == "obj":
        return "(JObj [" + ";".join(f"({cq_bytes(k.encode('utf-8'))},{cq_val(x, toks)})" for k, x in v[1]) + "])"
    return "JFun"


def num_tokens(v, out):
    if v[0] == "num":
        out.append(rust_display(v[1]))
    elif v[0] == "arr":
        for x in v[1]:
            num_tokens(x, out)
    elif v[0] == "obj":
        for _, x in v[1]:
            num_tokens(x, out)
    return out


def opt_bytes(t):
    """Coq `Some [..]`/`None` -> bytes/None"""
    if t == "None":
        return None
    assert isinstance(t, core.App) and t.name == "Some", t
    return bytes(t.args[0])


def coq_jval(t):
    """parsed Coq jval term -> value tuple (numbers: token -> bits)"""
    if t == "JNull":
        return ("null",)
    if t == "JFun":
        return ("fun",)
    assert isinstance(t, core.App), t
    a = t.args[0]
    if t.name == "JBool":
        return ("bool", a)
    if t.name == "JNum":
        return ("num", f2b(float(bytes(a).decode())))
    if t.name == "JStr":
        return ("str", bytes(a).decode("utf-8"))
    if t.name == "JArr":
        return ("arr", [coq_jval(x) for x in a])
    if t.name == "JObj":
        return ("obj", [(bytes(k).decode("utf-8"), coq_jval(x)) for k, x in a])
    raise ValueError(t)


# ------------------------------------------------------------------ generators
ASCII_ALL = [chr(i) for i in range(128)]
HOSTILE = (["\u007f", "\u0080", "\u00a0", "\u00e9", "\u00ff", "\u07ff", "\u0800", "\u2028", "\u2029", "\ud7ff",
            "\ue000", "\ufeff", "\ufffd", "\ufffe", "\uffff", "\U00010000", "\U0001f600", "\U000e0001",
            "\U0010ffff", "\u0085", "\u200b", "\u0300"])
ESCAPED = ['"', "\\", "\n", "\t", "\r", "\b", "\f", "\x00", "\x1f", "\x1b", "/"]
KEY_POOL = ["", "a", "b", "B", "z", "~", "0", "10", "9", "a b", 'q"', "b\\", "\n", "\x00", "\x1f", "\x7f", "\u0080",
            "\u00e9", "\u2028", "\ue000", "\uffff", "\U00010000", "\U0001f600", "\U0010ffff", "aa", "a\x00", "e\u0301",
            "key", "_", "-", "\t", "\ufffd", "A", "Z", "h1", "h2"]

SPECIAL_NUMS = [0.0, -0.0, 1.0, -1.0, 0.1, 0.5, -0.5, 1e-7, 1.5e-7, 9.5e-7, 1e-6, 1e-5, 0.001, 1e15, 1e16, 1e17,
                1e20, 1e21, 1e22, 1.2345678901234567e21, 123456789012345680000.0, 2.0 ** 53 - 1, 2.0 ** 53,
                2.0 ** 53 + 2, -(2.0 ** 53) - 2, 2.0 ** 63, 2.0 ** 64, 1.7976931348623157e308,
                -1.7976931348623157e308, 2.2250738585072014e-308, 5e-324, -5e-324, 2.225073858507201e-308,
                1e300, 1e-300, 4.35, 0.3, 1.0 / 3.0, 3.141592653589793, 2.718281828459045, 100.0, 1e2, 255.0,
                65536.0, 4294967296.0, 1e100, 1e-100, 0.1 + 0.2, 1e23, 9007199254740993.0, 0.000123, 12345.678]

INDENTS = ["", " ", "  ", "\t", "  \t", "\n", "\r\n ", "    "]
NEWLINES = ["\n", "", "\r\n", " ", "\n\n", "\t"]
KVSEPS = [": ", ":", " : ", "\t:\n", ":  "]


class Gen:
    def __init__(self, rng):
        self.rng = rng

    def string(self):
        r = self.rng
        k = r.below(10)
        if k == 0:
            return ""
        if k <= 2:
            n = r.choice([1, 1, 2, 3, 5, 9])
            return "".join(r.choice(ASCII_ALL) for _ in range(n))
        if k <= 4:
            n = r.choice([1, 2, 3, 6])
            return "".join(r.choice(HOSTILE + ESCAPED + ["a", "z", " "]) for _ in range(n))
        if k == 5:
            # escapes at the edges / adjacent: the flush-index boundaries
            pat = r.choice(["Ea", "aE", "EE", "aEa", "EaE", "aEEa", "E", "EEE", "aaEaaEaa", "HE", "EH", "HEH"])
            return "".join(r.choice(ESCAPED) if c == "E" else r.choice(HOSTILE) if c == "H" else r.choice("abc xyz")
                           for c in pat)
        if k == 6:
            n = r.choice([31, 64, 127, 128, 129, 255, 256, 257, 300])
            alpha = r.choice([["a"], ["é"], ["\U0001f600"], ["a", '"'], ["\\"], ["\x01"], ["a", "é", "\u2028", "\n"]])
            return "".join(r.choice(alpha) for _ in range(n))
        return "".join(r.choice("abcdefghij klmnopqrstuvwxyz0123456789-_.:,[]{}") for _ in range(r.below(12)))

    def number(self):
        r = self.rng
        k = r.below(10)
        if k < 4:
            return f2b(r.choice(SPECIAL_NUMS))
        if k < 6:
            return f2b(float(r.randint(-1000, 1000)))
        if k < 7:
            return f2b(r.randint(-10 ** 6, 10 ** 6) / r.choice([10.0, 100.0, 1000.0, 3.0, 7.0]))
        while True:  # random bit pattern across the whole exponent range
            b = r.next()
            if (b >> 52) & 0x7FF != 0x7FF:
                return b

    def scalar(self):
        r = self.rng
        k = r.below(10)
        if k == 0:
            return ("null",)
        if k == 1:
            return ("bool", r.chance(0.5))
        if k < 6:
            return ("num", self.number())
        return ("str", self.string())

    def keys(self, n):
        r = self.rng
        ks = set()
        tries = 0
        while len(ks) < n and tries < 50:
            tries += 1
            ks.add(r.choice(KEY_POOL) if r.chance(0.7) else self.string()[:12])
        return sorted(ks)  # python str order = code point order

    def value(self, d):
        r = self.rng
        if d == 0 or r.chance(0.3):
            return self.scalar()
        n = r.choice([0, 0, 1, 1, 2, 3, 4, 6])
        if r.chance(0.5):
            return ("arr", [self.value(d - 1) for _ in range(n)])
        return ("obj", [(k, self.value(d - 1)) for k in self.keys(n)])

    # ---- Jsonnet source for a value, built in several ways
    def src(self, v, plain=False):
        r = self.rng
        t = v[0]
        if t == "null":
            return "null"
        if t == "bool":
            return "true" if v[1] else "false"
        if t == "num":
            return num_src(v[1])
        if t == "str":
            s = v[1]
            if not plain and len(s) >= 2 and r.chance(0.2):
                h = r.randint(1, len(s) - 1)
                return f"({core.jstr(s[:h])} + {core.jstr(s[h:])})"
            return core.jstr(s)
        if t == "fun":
            return r.choice(["(function(x) x)", "std.length", "(function() 1)"])
        if t == "arr":
            items = [self.src(x, plain) for x in v[1]]
            lit = "[" + ", ".join(items) + "]"
            how = "lit" if plain else r.choice(["lit", "lit", "map", "comp", "make", "split", "rev", "filter"])
            n = len(items)
            if how == "lit":
                return lit
            if how == "map":
                return f"std.map(function(x) x, {lit})"
            if how == "comp":
                return f"[x for x in {lit}]"
            if how == "make":
                return f"(local L = {lit}; std.makeArray({n}, function(i) L[i]))"
            if how == "split":
                h = r.randint(0, n)
                return "([" + ", ".join(items[:h]) + "] + [" + ", ".join(items[h:]) + "])"
            if how == "rev":
                return "std.reverse([" + ", ".join(reversed(items)) + "])"
            return f"std.filter(function(x) true, {lit})"
        # object: visible fields v[1]; optionally layered / with hidden fields
        fields = [(k, self.src(x, plain)) for k, x in v[1]]
        how = "lit" if plain else r.choice(["lit", "lit", "layers", "hidden", "hide", "unhide", "comp", "shuffle"])

        def body(fs, vis=":"):
            return "{" + ", ".join(f"{core.jstr(k)}{vis} {e}" for k, e in fs) + "}"

        if how == "lit":
            return body(fields)
        if how == "shuffle":
            fs = list(fields)
            r.shuffle(fs)
            return body(fs)
        if how == "layers":
            fs = list(fields)
            r.shuffle(fs)
            h = r.randint(0, len(fs))
            return f"({body(fs[:h])} + {body(fs[h:])})"
        present = {k for k, _ in fields}
        extra = [k for k in KEY_POOL if k not in present]
        r.shuffle(extra)
        hk = extra[:r.randint(1, 3)]
        if how == "hidden":
            fs = [(k, e, ":") for k, e in fields] + [(k, r.choice(['"HIDDEN"', "error 'hidden field forced'", "function(x) x"]), "::")
                                                     for k in hk]
            r.shuffle(fs)
            return "{" + ", ".join(f"{core.jstr(k)}{vis} {e}" for k, e, vis in fs) + "}"
        if how == "hide":
            # visible field overridden by a hidden one; hidden stays hidden under a default-visibility override
            a = body(fields + [(k, '"VISIBLE"') for k in hk])
            b = body([(k, '"NOW-HIDDEN"') for k in hk], "::")
            c = body([(hk[0], '"STILL-HIDDEN"')])
            return f"({a} + {b} + {c})"
        if how == "unhide":
            a = body(fields, "::")
            b = body(fields, ":::")
            return f"({a} + {b})"
        # object comprehension
        if not fields:
            return "{[k]: 1 for k in []}"
        ks = "[" + ", ".join(core.jstr(k) for k, _ in fields) + "]"
        vs = "[" + ", ".join(e for _, e in fields) + "]"
        order = list(range(len(fields)))
        r.shuffle(order)
        return (f"(local K = {ks}, V = {vs}; {{[K[i]]: V[i] for i in [" + ", ".join(map(str, order)) + "]})")


def fixed_values():
    """deterministic part: every ASCII character, every hostile character, boundary doubles,
    empty containers, key-order traps"""
    vs = []
    for i in range(0, 128, 8):
        vs.append(("str", "".join(chr(c) for c in range(i, i + 8))))
    for c in range(128):
        vs.append(("str", chr(c)))
    for c in HOSTILE:
        vs.append(("str", c))
        vs.append(("str", "a" + c + '"' + c))
    vs.append(("arr", [("str", chr(c)) for c in range(0x00, 0x30)]))
    vs.append(("obj", sorted([(chr(c), ("num", f2b(float(c)))) for c in range(0x00, 0x30)])))
    vs.append(("obj", sorted([(k, ("str", k)) for k in KEY_POOL])))
    for x in SPECIAL_NUMS:
        vs.append(("num", f2b(x)))
    vs.append(("arr", [("num", f2b(x)) for x in SPECIAL_NUMS]))
    for e in range(-1074, 1024, 37):
        vs.append(("num", f2b(2.0 ** e)))
        vs.append(("num", f2b(-(2.0 ** e) * (1 + 2.0 ** -52) if e > -1022 else 2.0 ** e)))
    for e in range(-323, 309, 13):
        vs.append(("num", f2b(float(f"1e{e}"))))
        vs.append(("num", f2b(float(f"-9.87654321e{e}"))))
    vs += [("arr", []), ("obj", []), ("arr", [("arr", [])]), ("arr", [("obj", [])]), ("obj", [("a", ("arr", []))]),
           ("obj", [("a", ("obj", []))]), ("arr", [("arr", []), ("obj", []), ("arr", [("arr", [])])]),
           ("null",), ("bool", True), ("bool", False), ("str", ""), ("arr", [("null",)]),
           ("obj", [("", ("str", ""))]),
           ("arr", [("str", "x" * 1000)]), ("str", "\U0001f600" * 200), ("str", '"' * 300), ("str", "\x00" * 100)]
    deep = ("num", f2b(1.0))
    for i in range(40):
        deep = ("arr", [deep]) if i % 2 else ("obj", [("k", deep)])
    vs.append(deep)
    vs.append(("arr", [("num", f2b(float(i))) for i in range(300)]))
    return vs


def enumerate_cases(run):
    thorough = run.tier == "thorough"
    g = Gen(run.rng.fork("gen"))
    cases = []
    for v in fixed_values():
        cases.append((v, g.src(v, plain=True)))
    for v in fixed_values()[::3]:
        cases.append((v, g.src(v)))
    n = 12000 if thorough else 600
    for i in range(n):
        v = g.value(1 + i % 5)
        cases.append((v, g.src(v)))
    # functions somewhere inside: must be rejected by every path
    nf = 400 if thorough else 60
    fcases = []
    for i in range(nf):
        v = g.value(1 + i % 3)
        v = plant_fun(g.rng, v)
        fcases.append((v, g.src(v)))
    return cases, fcases


def plant_fun(r, v):
    if v[0] == "arr" and v[1]:
        i = r.below(len(v[1]))
        return ("arr", [plant_fun(r, x) if j == i else x for j, x in enumerate(v[1])])
    if v[0] == "obj" and v[1]:
        i = r.below(len(v[1]))
        return ("obj", [(k, plant_fun(r, x)) if j == i else (k, x) for j, (k, x) in enumerate(v[1])])
    return ("fun",)


# ------------------------------------------------------------------ paths
API_OUTS = ["default", "minify", "cli:0", "cli:1", "cli:2", "cli:3", "cli:4", "tostring"]
# model order in Coq [all_paths]: default minify cli0..4 to_string_format val_to_string std_default ex...
PATHS_FIXED = API_OUTS + ["val_to_string", "manifestJson"]


def std_programs(src, exs):
    """(texts program, parseJson program): kept apart so that a failing std.parseJson does not hide the texts"""
    ex_calls = []
    for (i, n, k, arity) in exs:
        args = [core.jstr(i)]
        if arity >= 2:
            args.append(core.jstr(n))
        if arity >= 3:
            args.append(core.jstr(k))
        ex_calls.append(f"std.manifestJsonEx(v, {', '.join(args)})")
    exl = ", ".join(ex_calls)
    texts = (f"local v = {src};\n"
             f"{{ mj: std.manifestJson(v), mm: std.manifestJsonMinified(v), ts: std.toString(v), "
             f"cat: '' + v, cat2: v + '', ex: [{exl}] }}")
    pj = (f"local texts = {texts};\nlocal v = {src};\n"
          f"{{ mj: std.parseJson(texts.mj), mm: std.parseJson(texts.mm), "
          f"ts: if std.isString(v) then null else std.parseJson(texts.ts), "
          f"ex: [std.parseJson(t) for t in texts.ex] }}")
    return [texts, pj]


FUN_CALLS = ["std.manifestJson(v)", "std.manifestJsonEx(v, ' ')", "std.manifestJsonMinified(v)",
             "std.toString(v)", "'' + v", "v + ''"]


def pick_exs(rng):
    exs = []
    for _ in range(3):
        arity = rng.choice([1, 1, 2, 3, 3])
        i = rng.choice(INDENTS)
        n = rng.choice(NEWLINES) if arity >= 2 else "\n"
        k = rng.choice(KVSEPS) if arity >= 3 else ": "
        exs.append((i, n, k, arity))
    return exs


# ------------------------------------------------------------------ the check
def check(run, terrs):
    proofs_ok, detail = core.check_property_file(run, "C05")
    binary, err = core.build_harness(run)
    if not binary:
        run.obligation("harness.build", False, err)
        return core.conclude(run, False, err, [], [])
    cases, fcases = enumerate_cases(run)
    failures, model_diffs = correspond(run, binary, cases, fcases)
    failures += correspond_trace(run, binary)
    # smallest failing inputs first (the replay names the first one)
    failures.sort(key=lambda f: (len(f.get("case", {}).get("jsonnet", "")), f.get("case", {}).get("path", "")))
    kinds = {}
    for f in failures:
        k = ("known:" + f["known"]) if f.get("known") else f.get("what", "?")[:60]
        kinds[k] = kinds.get(k, 0) + 1
    run.log(f"failures by kind: {kinds}; model diffs: {len(model_diffs)}")
    run.trusted = TRUSTED
    run.assumptions = ASSUMPTIONS
    return core.conclude(run, proofs_ok, detail, failures, model_diffs,
                         search=(lambda: search(run, binary)), level="proof", rule=RULE)


SRC_THEOREMS = "C05.C05_model_is_translated_source"


def source_tie_broken(run):
    """names of the failed obligations that belong to the source tie (Gen/GenJson.v: translator error or a
    C05_model_is_translated_source_* / C05_source_* theorem that no longer checks)"""
    return [n for n, ok, _ in run.obligations
            if not ok and (n == "translator.GenJson" or n.startswith(SRC_THEOREMS) or n.startswith("C05.C05_source_"))]


def source_tie_cases():
    """nested empty / non-empty containers (arrays in objects in arrays, depth 3) - the inputs on which a change
    of a separator, an empty-container arm or the padding bookkeeping of manifest_json_ex_buf shows; every case goes
    through every mode and the std.manifestJsonEx indent / newline / key_val_sep strings (correspond())"""
    one = ("num", f2b(1.0))
    leaves = [("arr", []), ("obj", []), one, ("str", "s")]
    level1 = leaves[:2]
    for a in leaves:
        level1.append(("arr", [a]))
        level1.append(("obj", [("k", a)]))
        for b in leaves[:3]:
            level1.append(("arr", [a, b]))
            level1.append(("obj", [("k", a), ("l", b)]))
    vs = list(level1)
    for a in level1:
        vs.append(("arr", [a, one]))           # a sibling AFTER a nested container: shows a padding that is not restored
        vs.append(("obj", [("k", a), ("l", one)]))
        vs.append(("arr", [("obj", [("k", a)]), ("arr", [a]), one]))
    return vs


def search(run, binary):
    """all 1- and 2-character strings over a hostile alphabet + all boundary doubles, oracle only"""
    src = source_tie_broken(run)
    if src:
        run.log(f"search: source-tie obligation(s) broke ({', '.join(src)[:200]}): nested empty/non-empty containers "
                "x every mode x indent strings against the hand model and the oracle")
        g = Gen(run.rng.fork("srcsearch"))
        cases = [(v, g.src(v, plain=True)) for v in source_tie_cases()]
        f, diffs = correspond(run, binary, cases, [], use_model=True)
        if not f and diffs:
            # the code still writes valid JSON of the same value but not the text the (proved) hand model writes
            f = [{"case": d.get("case", d) if isinstance(d, dict) else {"diff": str(d)[:300]},
                  "summary": "C05 source tie: manifest_json_ex_buf no longer writes the text of the proved model: "
                             + (json.dumps(d)[:200] if isinstance(d, dict) else str(d)[:200]),
                  "what": "code vs proved model text", "expected": "model text", "got": d} for d in diffs[:5]]
        if f:
            return f
    run.log("search: exhaustive short strings over the hostile alphabet")
    alpha = [chr(c) for c in range(0x00, 0x21)] + ['"', "\\", "/", "a", "\x7f"] + HOSTILE
    vs = [("str", a) for a in alpha] + [("str", a + b) for a in alpha for b in alpha]
    vs += [("obj", [(a + b, ("str", b))]) for a in alpha[::3] for b in alpha[::5]]
    g = Gen(run.rng.fork("search"))
    cases = [(v, g.src(v, plain=True)) for v in vs]
    f, _ = correspond(run, binary, cases, [], use_model=False)
    return f


SPEC_CORPUS = [
    "null", " true ", "false", "0", "-0", "1", "-1", "10", "1.5", "1e5", "1E+5", "1e-5", "1.25e+10", "[]", "[ ]", "{}",
    "{ }", "[1]", "[1,2]", "[ 1 , 2 ]", '{"a":1}', '{ "a" : 1 , "b" : [ ] }', '"a"', '""', '"\\n"', '"\\u0041"',
    '"\\ud83d\\ude00"', '"\\/"', '"\\\\"', '"\\""', "[[[]]]", '{"a":{"b":{}}}', "\t\r\n 1 \t\r\n", '"é"', '"\\u00e9"',
    '"\\uFFFF"', "[null,true,false]", '{"":""}', "123456789012345678901234567890", "0.000001", '"\\b\\f\\r\\t"',
    # malformed
    "", " ", "nul", "tru", "01", "1.", ".5", "-", "+1", "1e", "1e+", "[", "]", "[1,]", "[,1]", "[1 2]", "{", "}",
    '{"a"}', '{"a":}', '{"a":1,}', "{a:1}", "{1:1}", '"', '"a', '"\\x"', '"\\u12"', '"\n"', '"\t"', '"\x01"', "1 2", "[] []", "nullx", "truee", "--1", "1.5.5", "1ee5", "0x10",
    "NaN", "Infinity", "-Infinity", "'a'", "[1,,2]", '{"a":1 "b":2}', '{"a" 1}', "00", "-01", "1.e5", "tRue",
]


def spec_reader_vs_python(run, res):
    """the Coq SPEC reader [json_read] and Python's json agree (accept/reject and value) on a corpus"""
    bad = []
    for t, r in zip(SPEC_CORPUS, res):
        try:
            py, _ = oracle_read(t)
        except ValueError:
            py = None
        if isinstance(r, tuple) and r and r[0] == "ERROR":
            bad.append(f"{t!r}: coq error {r[1][:100]}")
            continue
        cv = None if r == "None" else coq_jval(r.args[0])
        if cv != py:
            bad.append(f"{t!r}: json_read={cv!r} python={py!r}")
    run.count("spec-reader-corpus", len(SPEC_CORPUS))
    run.obligation("C05.spec_reader_agrees_with_python_json(corpus)", not bad, "; ".join(bad[:5]))


# ------------------------------------------------------------------ std.trace: JsonFormat::debug()
# Not one of the property's faithful paths (it deliberately shortens long strings), but it is JSON
# manifestation code of the same writer: std.trace(v, x) of a non-string value must never panic, must emit
# well-formed JSON, and must be faithful wherever nothing was shortened.
DEBUG_TRUNCATE = 256
KNOWN_DEBUG = "C05-debug-truncate-char-boundary"


def boundary(b, i):
    """is byte offset i of the UTF-8 text b a char boundary"""
    return i == 0 or i >= len(b) or (b[i] & 0xC0) != 0x80


def debug_splits_inside_char(v):
    """classifier of KNOWN_DEBUG: some string VALUE (keys are never shortened) is longer than
    DEBUG_TRUNCATE bytes and byte offset truncate/2 or len - truncate/2 falls inside a character"""
    if v[0] == "str":
        b = v[1].encode("utf-8")
        h = DEBUG_TRUNCATE // 2
        return len(b) > DEBUG_TRUNCATE and not (boundary(b, h) and boundary(b, len(b) - h))
    if v[0] == "arr":
        return any(debug_splits_inside_char(x) for x in v[1])
    if v[0] == "obj":
        return any(debug_splits_inside_char(x) for _, x in v[1])
    return False


def debug_compare(v, got, path="$"):
    """like compare, but a string longer than DEBUG_TRUNCATE bytes may come back as head ++ ".." ++ tail with
    head a prefix and tail a suffix of it, each at most truncate/2 bytes and less than one character short of it"""
    if v[0] == "str" and got[0] == "str" and len(v[1].encode("utf-8")) > DEBUG_TRUNCATE:
        s, t, h = v[1], got[1], DEBUG_TRUNCATE // 2
        for k in range(len(t) - 1):
            if t[k:k + 2] == ".." and s.startswith(t[:k]) and s.endswith(t[k + 2:]):
                a, b = len(t[:k].encode("utf-8")), len(t[k + 2:].encode("utf-8"))
                if h - 3 <= a <= h and h - 3 <= b <= h:
                    return None
        return f"{path}: long string not shortened to head ++ '..' ++ tail of 125..128 bytes each: {t[:60]!r}"
    if v[0] != got[0]:
        return f"{path}: expected {v[0]}, read back {got[0]}"
    if v[0] == "arr":
        if len(v[1]) != len(got[1]):
            return f"{path}: array length {len(v[1])} read back as {len(got[1])}"
        for i, (a, b) in enumerate(zip(v[1], got[1])):
            d = debug_compare(a, b, f"{path}[{i}]")
            if d:
                return d
        return None
    if v[0] == "obj":
        if [k for k, _ in v[1]] != [k for k, _ in got[1]]:
            return f"{path}: object keys differ"
        for (k, a), (_, b) in zip(v[1], got[1]):
            d = debug_compare(a, b, f"{path}.{k!r}")
            if d:
                return d
        return None
    return compare(v, got, path)


def trace_values(run):
    """values with long non-ASCII strings around the truncation threshold, every alignment of the two cuts"""
    vs = []
    for ch in ("é", "\u0800", "\U0001f600", "a"):
        w = len(ch.encode("utf-8"))
        for pre in range(0, 4):
            for n in (120 // w, 128 // w, 256 // w, 256 // w + 1, 300 // w, 400 // w):
                for post in (0, 1):
                    vs.append(("str", "a" * pre + ch * n + "b" * post))
    r = run.rng.fork("trace")
    g = Gen(r)
    out = [("obj", [("a", s)]) for s in vs[::2]] + [("arr", [s]) for s in vs[1::2]]
    for _ in range(40):
        n = r.choice([100, 200, 257, 300, 513])
        s = "".join(r.choice(["a", "é", "\u2028", "\U0001f600", '"', "\\", "\n"]) for _ in range(n))
        out.append(("obj", sorted(dict([(k, ("str", s)) for k in g.keys(2)] + [("zz", g.value(2))]).items())))
    for _ in range(30):
        out.append(("arr", [g.value(3)]))       # nothing long: must be faithful
    seen, uniq = set(), []
    for v in out:
        v = ("obj", sorted(v[1])) if v[0] == "obj" else v
        k = show(v, 10 ** 6)
        if k not in seen:
            seen.add(k)
            uniq.append(v)
    return uniq


def correspond_trace(run, binary):
    failures = []
    g = Gen(run.rng.fork("trace-src"))
    vals = trace_values(run)
    reqs = [{"code": f"std.trace({g.src(v, plain=True)}, 1)", "trace": True} for v in vals]
    outs = core.run_harness(binary, "eval", reqs)
    for v, rq, o in zip(vals, reqs, outs):
        run.note_case("T:" + rq["code"], True)
        run.count("path:std.trace(debug format)")
        cls = debug_splits_inside_char(v)
        run.count("trace:cut-inside-char" if cls else "trace:cut-on-boundary-or-short")
        case = {"jsonnet": rq["code"], "path": "std.trace", "value": show(v)}

        def fail(what, got, _case=case, _cls=cls, _code=rq["code"]):
            f = {"case": _case, "summary": f"C05 [std.trace] {what}: {_code[:160]}", "what": what,
                 "expected": "one trace label: well-formed JSON of the value, long strings shortened at character boundaries",
                 "got": got}
            if _cls and isinstance(got, dict) and "panic" in got:
                f["known"] = KNOWN_DEBUG
                f["summary"] = f["summary"].replace("C05 [", "C05 known [", 1)
                run.count("known:debug-truncate-char-boundary")
            failures.append(f)

        if "ok" not in o:
            fail("std.trace of a manifestable value panics" if "panic" in o else "std.trace of a manifestable value fails", o)
            continue
        tr = o.get("traces") or []
        if len(tr) != 1:
            fail("expected exactly one trace label", tr)
            continue
        try:
            got, _ = oracle_read(tr[0])
        except (ValueError, RecursionError) as e:
            fail(f"trace label is not well-formed JSON ({str(e)[:100]})", tr[0][:300])
            continue
        d = debug_compare(v, got)
        if d:
            fail(f"trace label reads back as a different value ({d})", tr[0][:300])
    return failures


def compare(expected, got, path="$"):
    """first difference between two value tuples, or None; numbers bit for bit"""
    if expected[0] != got[0]:
        return f"{path}: expected {expected[0]}, read back {got[0]}"
    t = expected[0]
    if t in ("bool", "str"):
        if expected[1] != got[1]:
            if t == "str":
                return (f"{path}: string differs: expected code points {[ord(c) for c in expected[1]][:40]}, "
                        f"read back {[ord(c) for c in got[1]][:40]}")
            return f"{path}: expected {expected[1]}, read back {got[1]}"
    elif t == "num":
        if expected[1] != got[1]:
            return f"{path}: number differs: expected bits {expected[1]} ({b2f(expected[1])!r}), read back {got[1]} ({b2f(got[1])!r})"
    elif t == "arr":
        if len(expected[1]) != len(got[1]):
            return f"{path}: array length {len(expected[1])} read back as {len(got[1])}"
        for i, (a, b) in enumerate(zip(expected[1], got[1])):
            d = compare(a, b, f"{path}[{i}]")
            if d:
                return d
    elif t == "obj":
        ek, gk = [k for k, _ in expected[1]], [k for k, _ in got[1]]
        if ek != gk:
            return f"{path}: object keys: expected (visible, ascending) {ek[:20]!r}, read back {gk[:20]!r}"
        for (k, a), (_, b) in zip(expected[1], got[1]):
            d = compare(a, b, f"{path}.{k!r}")
            if d:
                return d
    return None


# Coq parses ~2-4k list elements per second: the model side is budgeted in source bytes
MODEL_CASE_MAX = 700
MODEL_BUDGET_QUICK = 30000
MODEL_BUDGET_THOROUGH = 600000
def digest(bs):
    a = c = 0
    for b in bs:
        a += b + 1
        c += a
    return (len(bs), a, c)


def opt_digest(t):
    if t == "None":
        return None
    assert isinstance(t, core.App) and t.name == "Some", t
    return tuple(int(x) for x in t.args[0])


def model_compare(run, model_exprs, model_meta, fmeta, model_diffs):
    names_of = lambda exs: API_OUTS + ["ts", "mj"] + [f"ex{i}" for i in range(len(exs))]  # noqa
    exprs = [f"map odigest (all_paths {val} {exl})" for val, exl in model_exprs]
    fexprs = [f"map odigest (all_paths {cq_val(v, iter(num_tokens(v, [])))} [])" for v, _s, _b in fmeta]
    sexprs = [f"json_read {cq_bytes(t.encode('utf-8'))}" for t in SPEC_CORPUS]
    res = core.coq_eval(IMPORTS, exprs + fexprs + sexprs)
    run.log(f"model evaluated ({len(exprs)} values x all paths, {len(fexprs)} function-carrying, {len(sexprs)} reader corpus)")
    spec_reader_vs_python(run, res[len(exprs) + len(fexprs):])
    redo = []
    for k, ((v, src, exs, texts), r) in enumerate(zip(model_meta, res[:len(exprs)])):
        if isinstance(r, tuple) and r and r[0] == "ERROR":
            run.obligation("model.eval", False, str(r[1])[:300])
            continue
        md = [opt_digest(x) for x in r]
        pairs = list(zip(names_of(exs), md)) + [("cat", md[8]), ("cat2", md[8]), ("mm", md[1])]
        for name, d in pairs:
            t = texts.get(name)
            if t is not None and d != digest(t.encode("utf-8")):
                redo.append(k)
                break
    for (v, src, _b), r in zip(fmeta, res[len(exprs):len(exprs) + len(fexprs)]):
        if isinstance(r, tuple) and r and r[0] == "ERROR":
            run.obligation("model.eval", False, str(r[1])[:300])
            continue
        if any(x != "None" for x in r):
            model_diffs.append({"case": {"jsonnet": src}, "model": "emits text for a function-carrying value",
                                "code": "error"})
    # mismatching values again, in full, for the report (and judged by the SPEC reader)
    redo = redo[:40]
    if redo:
        full = core.coq_eval(IMPORTS, [f"all_paths {model_exprs[k][0]} {model_exprs[k][1]}" for k in redo])
        for k, r in zip(redo, full):
            v, src, exs, texts = model_meta[k]
            if isinstance(r, tuple) and r and r[0] == "ERROR":
                run.obligation("model.eval", False, str(r[1])[:300])
                continue
            mb = [opt_bytes(x) for x in r]
            pairs = list(zip(names_of(exs), mb)) + [("cat", mb[8]), ("cat2", mb[8]), ("mm", mb[1])]
            for name, b in pairs:
                t = texts.get(name)
                if t is not None and (b is None or b != t.encode("utf-8")):
                    model_diffs.append({"case": {"jsonnet": src, "path": name},
                                        "model": None if b is None else b.decode("utf-8", "replace")[:300],
                                        "code": t[:300]})


def correspond(run, binary, cases, fcases, use_model=True):
    failures, model_diffs = [], []
    seen, uniq = set(), []
    for v, src in cases:
        if src not in seen:
            seen.add(src)
            uniq.append((v, src))
    cases = uniq
    rng = run.rng.fork("paths")
    # ---------------- round 1: the real code, every path (one State per value)
    reqs, meta = [], []
    for v, src in cases:
        exs = pick_exs(rng)
        reqs.append({"code": src, "outs": API_OUTS, "also": std_programs(src, exs)})
        meta.append((v, src, exs, len(reqs) - 1))
    fmeta = []
    for v, src in fcases:
        reqs.append({"code": src, "outs": API_OUTS,
                     "also": [f"local v = {src}; {call}" for call in FUN_CALLS]})
        fmeta.append((v, src, len(reqs) - 1))
    run.log(f"{len(cases)} values + {len(fcases)} function-carrying values; {len(reqs)} harness requests")
    outs = core.run_harness(binary, "manifest", reqs)
    run.log("harness round 1 done")

    # ---------------- judge against the oracle, collect texts
    model_exprs, model_meta, pj_reqs, pj_meta = [], [], [], []
    model_budget = [MODEL_BUDGET_THOROUGH if run.tier == "thorough" else MODEL_BUDGET_QUICK]
    for v, src, exs, base in meta:
        nontrivial = not (v[0] in ("null", "bool") or (v[0] == "num" and v[1] in (0, f2b(1.0))))
        run.note_case(src, nontrivial)
        run.count("top:" + v[0])
        run.count(f"depth{min(depth(v), 6)}")
        sz = size(v)
        run.count("size1" if sz == 1 else "size2-5" if sz <= 5 else "size6-30" if sz <= 30 else "size>30")
        case = {"jsonnet": src, "value": show(v)}

        def fail(path, what, expected, got, _case=case, _src=src):
            failures.append({"case": dict(_case, path=path), "summary": f"C05 [{path}] {what}: {_src[:160]}",
                             "what": what, "expected": expected, "got": got})

        ans = outs[base]
        if "canon" not in ans:
            fail("canon", "the harness gave no answer", show(v), ans)
            continue
        o = ans["canon"]
        if "ok" not in o:
            fail("canon", "the value expression did not evaluate", show(v), o)
            continue
        held = from_canon(o["ok"])
        d = compare(v, held)
        if d:
            fail("canon", "the evaluator holds a different value than the program denotes (" + d + ")", show(v), show(held))
            continue
        texts = {}
        for j, name in enumerate(API_OUTS):
            a = ans["outs"][j]
            if "ok" not in a or not isinstance(a["ok"], str):
                fail(name, "manifestation failed on a manifestable value", "JSON text", a)
            else:
                texts[name] = a["ok"]
        a = ans["also"][0]
        pj = None
        if "ok" not in a:
            fail("std", "std.manifestJson*/toString program failed on a manifestable value", "texts", a)
        else:
            d_ = dict(from_canon(a["ok"])[1])
            for nm in ("mj", "mm", "ts", "cat", "cat2"):
                if d_[nm][0] != "str":
                    fail(nm, "result is not a string", "string", show(d_[nm]))
                else:
                    texts[nm] = d_[nm][1]
            for i, t in enumerate(d_["ex"][1]):
                texts[f"ex{i}"] = t[1] if t[0] == "str" else None
            a2 = ans["also"][1]
            if "ok" not in a2:
                fail("parseJson(std texts)", "std.parseJson rejects a text std.manifestJson*/toString emitted", show(v), a2)
            else:
                pj = dict(from_canon(a2["ok"])[1])
        # the oracle
        toks_min = None
        for name, t in texts.items():
            if t is None:
                continue
            run.count("path:" + re.sub(r"\d+$", "", name) if name.startswith("ex") else "path:" + name)
            raw_string = v[0] == "str" and name in ("tostring", "ts", "cat", "cat2")
            if raw_string:
                if t != v[1]:
                    fail(name, "top-level string is not emitted as is", json.dumps(v[1]), json.dumps(t))
                continue
            try:
                got, toks = oracle_read(t)
            except (ValueError, RecursionError) as e:
                fail(name, f"output is not well-formed JSON ({str(e)[:120]})", show(v), t[:400])
                continue
            if name == "minify":
                toks_min = toks
            d = compare(v, got)
            if d:
                fail(name, f"an independent JSON parser reads the output back as a different value ({d})", show(v), t[:400])
        # std.parseJson is a left inverse
        if pj is not None:
            checks = [("parseJson(manifestJson)", pj["mj"]), ("parseJson(manifestJsonMinified)", pj["mm"])]
            if v[0] != "str":
                checks.append(("parseJson(toString)", pj["ts"]))
            for i, x in enumerate(pj["ex"][1]):
                checks.append((f"parseJson(manifestJsonEx#{i})", x))
            for name, x in checks:
                d = compare(v, x)
                if d:
                    fail(name, f"std.parseJson does not give the value back ({d})", show(v), show(x))
        # second round: std.parseJson of the Rust-API texts
        names2 = [n for n in ("default", "minify", "cli:2") + (("tostring",) if v[0] != "str" else ())
                  if texts.get(n) is not None]
        if names2:
            pj_reqs.append({"code": "[" + ", ".join(f"std.parseJson(std.extVar('t{i}'))" for i in range(len(names2))) + "]",
                            "ext_str": {f"t{i}": texts[n] for i, n in enumerate(names2)}})
            pj_meta.append((v, src, names2))
        # the model
        if use_model:
            expect_toks = num_tokens(v, [])
            toks = toks_min if (toks_min is not None and len(toks_min) == len(expect_toks)) else expect_toks
            if toks_min is not None and toks_min != expect_toks and len(toks_min) == len(expect_toks):
                run.count("number-token-differs-from-python-shortest")
            exl = "[" + ";".join(
                f"({cq_bytes(i.encode())},{cq_bytes(n.encode()) if ar >= 2 else 'std_default_newline'},"
                f"{cq_bytes(k.encode()) if ar >= 3 else 'std_default_kvsep'})" for i, n, k, ar in exs) + "]"
            cost = len(src.encode("utf-8"))
            if cost <= MODEL_CASE_MAX and model_budget[0] >= cost:
                model_budget[0] -= cost
                model_exprs.append((cq_val(v, iter(toks)), exl))
                model_meta.append((v, src, exs, texts))
                run.count("model-compared-values")
        if len(run.samples) < 8 and nontrivial and depth(v) >= 1 and sz <= 8:
            run.samples.append({"jsonnet": src[:300], "minified": texts.get("minify", "")[:200],
                                "toString": texts.get("ts", "")[:200]})

    # ---------------- functions are rejected
    for v, src, base in fmeta:
        run.note_case("F:" + src, True)
        run.count("function-carrying")
        ans = outs[base]
        results = list(zip(API_OUTS, ans.get("outs", []))) + list(zip(FUN_CALLS, ans.get("also", [])))
        if len(results) != len(API_OUTS) + len(FUN_CALLS):
            failures.append({"case": {"jsonnet": src, "path": "canon", "value": show(v)},
                             "summary": f"C05 [canon] function-carrying value did not evaluate: {src[:160]}",
                             "what": "value expression failed", "expected": "a value", "got": ans})
            continue
        for pname, o in results:
            if "err" not in o:
                failures.append({"case": {"jsonnet": src, "path": pname, "value": show(v)},
                                 "summary": f"C05 [{pname}] a value containing a function is not rejected with an error: {src[:160]}",
                                 "what": "function not rejected", "expected": "error", "got": o})

    # ---------------- std.parseJson on API texts
    if pj_reqs:
        pouts = core.run_harness(binary, "eval", pj_reqs)
        for (v, src, names2), o in zip(pj_meta, pouts):
            if "ok" not in o:
                failures.append({"case": {"jsonnet": src, "path": f"parseJson({names2})", "value": show(v)},
                                 "summary": f"C05 [parseJson(API text)] std.parseJson rejects the emitted text: {src[:160]}",
                                 "what": "parseJson failed", "expected": show(v), "got": o})
                continue
            for name, x in zip(names2, from_canon(o["ok"])[1]):
                d = compare(v, x)
                if d:
                    failures.append({"case": {"jsonnet": src, "path": f"parseJson({name})", "value": show(v)},
                                     "summary": f"C05 [parseJson({name})] std.parseJson does not give the value back ({d}): {src[:160]}",
                                     "what": "parseJson not a left inverse", "expected": show(v), "got": show(x)})
        run.log("harness round 2 (std.parseJson of API texts) done")

    # ---------------- the Coq model, byte for byte (compared through length + checksum)
    if use_model and model_exprs:
        model_compare(run, model_exprs, model_meta, fmeta, model_diffs)
    return failures, model_diffs


def replay(run, data):
    binary, err = core.build_harness(run)
    f = data.get("failure", {})
    case = f.get("case", {})
    code = case.get("jsonnet")
    if not code:
        print(json.dumps(data, indent=1)[:3000])
        return 1
    path = case.get("path", "minify")
    reqs = [{"code": code}]
    if path in API_OUTS:
        reqs.append({"code": code, "out": path})
    else:
        reqs.append({"code": f"local v = {code}; {{ manifestJson: std.manifestJson(v), minified: "
                             f"std.manifestJsonMinified(v), toString: std.toString(v), "
                             f"parsed: std.parseJson(std.manifestJsonMinified(v)) }}"})
    outs = core.run_harness(binary, "eval", reqs)
    print("jsonnet :", code)
    print("path    :", path)
    print("what    :", f.get("what"))
    print("expected:", f.get("expected"))
    print("was     :", f.get("got"))
    print("value   :", outs[0])
    print("now     :", outs[1])
    return 0


RULE = ("JSON-like values: deterministic part (every ASCII character singly and in runs, 22 hostile non-ASCII "
        "characters incl. U+007F/0080/2028/2029/FFFD/FFFF/astral, ~50 boundary doubles + powers of two and ten across "
        "the exponent range, empty/nested containers, depth 40, width 300, key-order traps) + random values depth<=5 "
        "built as literals, lazy arrays (map/comprehension/makeArray/concat/reverse/filter) and layered objects "
        "with hidden/re-hidden/unhidden fields and object comprehensions; each through 8 Rust-API formats and "
        "std.manifestJson/Ex(3 random whitespace option triples)/Minified/toString/concatenation + std.parseJson; "
        "distinct = distinct Jsonnet expression; trivial = null/bool/0/1")
TRUSTED = ["Coq 8.16.1 kernel incl. vm_compute (no native_compute); no axioms",
           "translator/gens/escape.py: ESCAPE table, escape arms, JsonFormat presets read from manifest.rs / stdlib manifest/mod.rs",
           "translator/gens/jsonwriter.py: Rust-subset reader of manifest_json_ex_buf / manifest_json_ex / JsonFormat constructors "
           "(fail closed; #[cfg(exp-bigint / exp-preserve-order)] items, with_description / in_description_frame error decoration, "
           "run_assertions and the debug_truncate_strings THEN-branch are not translated)",
           "SPEC reader json_read is my reading of RFC 8259 (pinned against Python's json on a corpus every run)",
           "oracle: Python 3 json (strict, no NaN/Infinity), float() correctly rounded, repr() shortest digits",
           "correspondence: jrharness eval, vlib generators, Coq term printer/parser",
           "Rust core::fmt Display for f64 (shortest round-trip, no exponent): trusted, sampled by the oracle on every number",
           "modelled not verified: ObjValue::iter/fields order and visibility (C02), run_assertions, element evaluation errors, "
           "serde_json (std.parseJson) — exercised only through the correspondence"]
ASSUMPTIONS = ["impl-model transliterates manifest.rs; tie = regenerated table/presets + differential run on every check; "
               "the writer (manifest_json_ex_buf, manifest_json_ex) and the JsonFormat constructors are in addition translated "
               "statement by statement from the working tree (Gen/GenJson.v) and PROVED equal to the hand model for all values, "
               "formats, buffers and paddings (C05_model_is_translated_source_*)",
               "objects reach the writer as the (name, value) sequence ObjValue::iter yields",
               "number tokens are opaque in the theorems (RFC grammar as hypothesis nums_ok); their value is checked only by the oracle"]
