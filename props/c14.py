"""C14 — YAML, TOML, Python, XML and INI manifestation denote the same data.

Theorems: coq/theories/C14 (bare_safe sound for every byte string,
against the YAML 1.2 core-schema and YAML 1.1 resolver regexes; TOML bare keys; the JSON escaper's
output is a TOML basic string / Python literal / YAML double-quoted scalar for the same bytes (over
C05's table); XML escaping round-trips; domain rejections).
Tie: (a) Gen/GenYaml.v, GenToml.v, GenXml.v regenerated from the working tree (RESERVED list, the six
character classes and the pinned control skeleton of bare_safe, bare_allowed's class, the XML entity
table, all presets and std argument defaults); (b) correspondence on every run:
  * strings over the format-hostile alphabet as key and as value through every writer: real output
    == the Coq model's bytes; emitted-bare <=> model bare_safe; emitted-bare => yaml_plain_ok (Coq
    model and the same regexes in Python's re); output read back by std.parseYaml (serde-saphyr),
    tomllib, ast.literal_eval, xml.etree, configparser and compared with the input;
  * JSON-like trees through std.manifestYamlDoc (4 option combinations) / YamlStream / Toml / TomlEx /
    Python / PythonVars and the command-line formats (clap mapping of jrsonnet-cli), bytes == model,
    read back == input;
  * JSONML trees and INI documents likewise; non-JSONML shapes, null / non-object in TOML, functions
    anywhere must be rejected.
LIMITATION: there is no PyYAML here; YAML is read back by serde-saphyr (YAML 1.2, the parser jrsonnet
itself bundles) and the YAML 1.1 ambiguity of plain scalars is judged by the yaml_plain_ok model.
"""
import ast
import configparser
import json
import re
import tomllib
import xml.etree.ElementTree as ET

from props import c05 as J
from vlib import core

IMPORTS = ("From Coq Require Import List NArith.\n"
           "From JrV Require Import Gen.GenEscape Gen.GenYaml Gen.GenToml Gen.GenXml C05.Model C14.Model.\n"
           "Import ListNotations.\nOpen Scope N_scope.\n")

K_XML_CTRL = "C14-xml-non-xml-characters-not-rejected"
K_XML_WS = "C14-xml-whitespace-not-character-reference"
K_PAD = "C14-yaml-cli-line-padding-misaligns-objects-in-arrays"

f2b, b2f = J.f2b, J.b2f

# ------------------------------------------------------------------ the format-hostile alphabet
SYMS = (['"', "'", "\\", "#", ":", "-", "=", "[", "]", "{", "}", ",", "&", "*", "!", "|", ">", "%", "@", "`",
         " ", "\t", "\n", "\x00", "\x01", "\x08", "\x0b", "\x0c", "\r", "\x1b", "\x1f", "\x7f", "é", "😀",
         "yes", "No", "ON", "null", "~", ".inf", "-.INF", ".NaN", "1_000", "0x1F", "0o7", "1e3", "2001-12-14",
         "1:30", "<<", "a", "b", "Z", "0", "7", "_", ".", "/", "?", "<", "+", ";", "e", "x", "o"])
WORDS = ["", "true", "True", "TRUE", "false", "False", "y", "Y", "n", "N", "on", "Off", "OFF", "NULL", "Null", "-", "--",
         "---", "...", "..", "....", "-a", "-1", "--1", "1-2", "1-2-3", "1-2-3-4", "12", "1_2", "_1", "1__", "0b1", "0b", "-0b1",
         "0B1", "0b12", "b0b1", "1.5", ".5", "5.", "1.2.3", "v1.2", "1e5", "1E5", "e1", "1e", "ee", "1e-5", "1e--5", "-1e-5-",
         "0x1", "0x", "-0x1", "0X1", "0xg", "x0x1", "0x1-2-", "0o17", "0o8", "0o", "-0o7", "0O7", "00o7", "0o7_", "0777", "08",
         "+1", "+.inf", ".INF", ".Inf", ".nan", ".NAN", "nan", "inf", "=", "a b", " a", "a ", "a:b", "a: b", "a #b", "#a",
         "key", "Key_1", "a.b/c", "a-b", "a_b", "KEY", "k1", "x" * 40, "2001-12-14t21:59:43.10-05:00", "12:30:45",
         "190:20:30", "1,000", "é", "aé", "😀", "a\nb", "a\n", "a\nb\n", "a\n\n", "\na", " a\nb", "a\n b", "a\n\nb", "a \nb",
         "#\n-", "a\tb", "\ta", "main", "sections", "DEFAULT", "a.b", "a.", ".a", "a\"b", "a'b", "a\\b", "<a>", "a&b", "&amp;",
         "]]>", "\x7fa", "a\x7f", "\u0080", " ", "﻿", "￿", "a=b", "[a]", "[", "a]", ";a", "%(a)s", "$a"]


def strings(run):
    rng = run.rng.fork("strings")
    out = list(dict.fromkeys(SYMS + WORDS))
    safeish = list("abexo019-_./") + ["0x", "0o", "0b", "e", "E", "-", ".", "_"]
    n = 2500 if run.tier == "thorough" else 200
    for i in range(n):
        k = rng.below(3)
        if k == 0:   # inside / at the edge of bare_safe's classes
            s = "".join(rng.choice(safeish) for _ in range(rng.randint(1, 6)))
        elif k == 1:
            s = "".join(rng.choice(SYMS) for _ in range(rng.randint(1, 3)))
        else:
            s = rng.choice(WORDS) + rng.choice(SYMS)
        out.append(s)
    if run.tier == "thorough":
        out += [a + b for a in SYMS for b in SYMS]
    return list(dict.fromkeys(out))


# ------------------------------------------------------------------ SPEC in Python (same regexes as Model.v)
YAML_WORDS = ("null Null NULL ~ true True TRUE false False FALSE y Y yes Yes YES n N no No NO on On ON off Off OFF "
              ".inf .Inf .INF -.inf -.Inf -.INF +.inf +.Inf +.INF .nan .NaN .NAN << =").split()
YAML_RES = [r"[-+]?[0-9]+", r"0o[0-7]+", r"0x[0-9a-fA-F]+", r"[-+]?(\.[0-9]+|[0-9]+(\.[0-9]*)?)([eE][-+]?[0-9]+)?",
            r"[-+]?0b[0-1_]+", r"[-+]?0[0-7_]+", r"[-+]?(0|[1-9][0-9_]*)", r"[-+]?0x[0-9a-fA-F_]+",
            r"[-+]?[1-9][0-9_]*(:[0-5]?[0-9])+", r"[-+]?([0-9][0-9_]*)?\.[0-9_]*([eE][-+][0-9]+)?",
            r"[-+]?[0-9][0-9_]*(:[0-5]?[0-9])+\.[0-9_]*", r"[0-9]{4}-[0-9]{2}-[0-9]{2}",
            r"[0-9]{4}-[0-9][0-9]?-[0-9][0-9]?([Tt]|[ \t]+)[0-9][0-9]?:[0-9]{2}:[0-9]{2}(\.[0-9]*)?(([ \t]*)Z|[-+][0-9][0-9]?(:[0-9]{2})?)?"]
YAML_RES = [re.compile(r) for r in YAML_RES]
INDICATORS = set("-?:,[]{}#&*!|>'\"%@`")
FLOW = set(",[]{}")


def py_plain_ok(s):
    if not s or any(not (33 <= ord(c) <= 126) or c in FLOW for c in s):
        return False
    if s[0] in INDICATORS and not (s[0] in "-?:" and len(s) > 1):
        return False
    if any(c == ":" and i == len(s) - 1 for i, c in enumerate(s)):
        return False
    if s in ("---", "..."):
        return False
    return s not in YAML_WORDS and not any(r.fullmatch(s) for r in YAML_RES)


# serde-saphyr resolves more plain scalars to numbers than YAML 1.1 or 1.2 define (upper-case radix prefixes, bare
# nan / inf): strings of this class that the SPEC calls plain strings are not judged through std.parseYaml
SAPHYR_LENIENT = re.compile(r"[-+]?(0[BXObxo][0-9A-Fa-f_]+|\.?[nN][aA][nN]|\.?[iI][nN][fF]([iI][nN][iI][tT][yY])?)")


def saphyr_lenient(s):
    return py_plain_ok(s) and bool(SAPHYR_LENIENT.fullmatch(s))


def block_safe(s):
    """the property's block-scalar-safe class (Model.v block_safe)"""
    if "\n" not in s:
        return False
    for c in s:
        o = ord(c)
        if not (o in (9, 10) or 32 <= o <= 126 or o >= 0xA0) or o in (0x2028, 0x2029, 0xFEFF, 0xFFFE, 0xFFFF):
            return False
    lines = s.split("\n")
    first, rest = lines[0], lines[1:]
    if not first.strip(" \t") or first.startswith(" "):
        return False
    if any(l and not l.strip(" \t") for l in rest):
        return False
    return not s.endswith("\n\n")


def yaml_value_ok(v):
    """every string value is single-line or block-scalar-safe (keys are never block scalars)"""
    if v[0] == "str":
        return "\n" not in v[1] or block_safe(v[1])
    if v[0] == "arr":
        return all(yaml_value_ok(x) for x in v[1])
    if v[0] == "obj":
        return all(yaml_value_ok(x) for _, x in v[1])
    return True


def strs_of(v, keys=True, out=None):
    out = [] if out is None else out
    if v[0] == "str":
        out.append(v[1])
    elif v[0] == "arr":
        for x in v[1]:
            strs_of(x, keys, out)
    elif v[0] == "obj":
        for k, x in v[1]:
            if keys:
                out.append(k)
            strs_of(x, keys, out)
    return out


XML_BAD = re.compile("[\x00-\x08\x0b\x0c\x0e-\x1f￾￿]")


# ------------------------------------------------------------------ comparing read-back data
def num_eq(bits, x):
    return isinstance(x, (int, float)) and not isinstance(x, bool) and float(x) == b2f(bits)


def same(v, got, path="$"):
    """value tuple vs parsed python data (dict/list/str/bool/None/number); first difference or None"""
    t = v[0]
    if t == "null":
        return None if got is None else f"{path}: expected null, read back {got!r}"
    if t == "bool":
        return None if got is v[1] else f"{path}: expected {v[1]}, read back {got!r}"
    if t == "num":
        return None if num_eq(v[1], got) else f"{path}: expected number {b2f(v[1])!r}, read back {got!r}"
    if t == "str":
        if isinstance(got, str) and got == v[1]:
            return None
        return f"{path}: expected string {v[1]!r}, read back {got!r}"[:300]
    if t == "arr":
        if not isinstance(got, list) or len(got) != len(v[1]):
            return f"{path}: expected array of {len(v[1])}, read back {str(got)[:80]!r}"
        for i, (a, b) in enumerate(zip(v[1], got)):
            d = same(a, b, f"{path}[{i}]")
            if d:
                return d
        return None
    if t == "obj":
        if not isinstance(got, dict) or sorted(got) != sorted(k for k, _ in v[1]):
            return f"{path}: expected keys {[k for k, _ in v[1]]!r}, read back {(sorted(got) if isinstance(got, dict) else got)!r}"[:300]
        for k, a in v[1]:
            d = same(a, got[k], f"{path}.{k!r}")
            if d:
                return d
        return None
    return f"{path}: unexpected {t}"


def canon_to_py(c):
    """harness canonical tree (from std.parseYaml) -> python data"""
    if isinstance(c, dict):
        if "#" in c:
            return b2f(int(c["#"]))
        if "o" in c:
            return {k: canon_to_py(x) for k, x in c["o"]}
    if isinstance(c, list):
        return [canon_to_py(x) for x in c]
    return c


# ------------------------------------------------------------------ Coq side
def cq_s(s):
    return J.cq_bytes(s.encode("utf-8"))


def cq_val(v):
    return J.cq_val(v, iter(J.num_tokens(v, [])))


def dec(t):
    """Coq `Some [..]` / `None` -> str / None"""
    if t == "None":
        return None
    return bytes(t.args[0]).decode("utf-8", "surrogateescape")


def parse_yaml_batch(binary, groups):
    """groups: [(key, [(name, text), ...])] -> {(key, name): answer}; one evaluator per group, singly on failure"""
    reqs = []
    for key, items in groups:
        code = "[" + ", ".join(f"std.parseYaml(std.extVar('t{j}'))" for j in range(len(items))) + "]"
        reqs.append({"code": code, "ext_str": {f"t{j}": t for j, (_n, t) in enumerate(items)}})
    outs = core.run_harness(binary, "eval", reqs)
    res, redo = {}, []
    for (key, items), o in zip(groups, outs):
        if "ok" in o and isinstance(o["ok"], list) and len(o["ok"]) == len(items):
            for (n, _t), x in zip(items, o["ok"]):
                res[(key, n)] = {"ok": x}
        else:
            for n, t in items:
                redo.append(((key, n), {"code": "std.parseYaml(std.extVar('t'))", "ext_str": {"t": t}}))
    if redo:
        for (k, _r), o in zip(redo, core.run_harness(binary, "eval", [r for _k, r in redo])):
            res[k] = o
    return res


# ------------------------------------------------------------------ part A: single strings
def string_program(s):
    q = core.jstr(s)
    return (f"local s = {q}; {{ yk: std.manifestYamlDoc({{[s]: 1}}, quote_keys=false), yq: std.manifestYamlDoc({{[s]: s}}), "
            f"yv: std.manifestYamlDoc([s], quote_keys=false), toml: std.manifestToml({{[s]: s}}), "
            f"py: std.manifestPython({{[s]: s}}), xml: std.manifestXmlJsonml(['t', {{a: s}}, s]), xe: std.escapeStringXML(s), "
            f"ini: std.manifestIni({{main: {{k: s}}, sections: {{}}}}) }}")


def string_model(s):
    b = cq_s(s)
    one = "(JNum [49])"
    return ("(let sb := {lit} in (bare_safe {b}, yaml_plain_okb {b}, bare_allowed {b}, block_safe {b}, "
            "[yaml_manifest (fmt_yaml_std false false) (JObj [({b}, {one})]); "
            "yaml_manifest (fmt_yaml_std yaml_doc_default_indent_array yaml_doc_default_quote_keys) (JObj [({b}, JStr {b})]); "
            "yaml_manifest (fmt_yaml_std false false) (JArr [JStr {b}]); "
            "toml_manifest (fmt_toml_std toml_default_indent) (JObj [({b}, JStr {b})]); "
            "pywr (JObj [({b}, JStr {b})]); "
            "xml_manifest xml_std_force_closing (JArr [JStr [116]; JObj [([97], JStr {b})]; JStr {b}]); "
            "xml_escape_impl {b}; "
            "ini_manifest true (JObj [(k_main, JObj [([107], JStr {b})]); (k_sections, JObj [])]); "
            "yaml_manifest (fmt_yaml_cli 2) (JArr [JStr {b}]); "
            "ystream (fmt_yaml_cli 2) yaml_stream_cli_document_end yaml_stream_cli_end_newline (JArr [JStr {b}])]))"
            ).format(b="sb", one=one, lit=b)


MODEL_NAMES = ["yk", "yq", "yv", "toml", "py", "xml", "xe", "ini", "cli -f yaml", "cli -y"]


def ini_read(text):
    cp = configparser.RawConfigParser(delimiters=("=",), comment_prefixes=("#", ";"), inline_comment_prefixes=None,
                                      strict=False, interpolation=None, default_section="\x00nodefault",
                                      empty_lines_in_values=False, dict_type=MultiDict)
    cp.optionxform = str
    cp.read_string("[\x00main]\n" + text)
    return {sec: {k: ini_norm(v.split("\n")) for k, v in cp._sections[sec].items()} for sec in cp._sections}


def ini_norm(vals):
    """configparser strips trailing blank continuation lines: trailing empty values of a repeated key are not observable"""
    vals = list(vals)
    while len(vals) > 1 and vals[-1] == "":
        vals.pop()
    return vals


class MultiDict(dict):
    """collect repeated options (the INI writer emits one line per array element)"""

    def __setitem__(self, key, value):
        if isinstance(value, list) and key in self and isinstance(self[key], list):
            self[key].extend(value)
        else:
            super().__setitem__(key, value)


def ini_domain_key(k):
    return bool(k) and k == k.strip() and not re.search(r"[=\n\r\[\]]", k) and k[0] not in "#;" and ":" not in k


def ini_domain_val(s):
    return s == s.strip() and not re.search(r"[\n\r]", s)


def part_strings(run, binary, failures, model_diffs):
    S = strings(run)
    run.log(f"part A: {len(S)} strings over the hostile alphabet")
    reqs = [{"code": string_program(s)} for s in S]
    outs = core.run_harness(binary, "eval", reqs)
    couts = core.run_harness(binary, "c14", [{"code": f"[{core.jstr(s)}]", "fmts": ["cli -f yaml", "cli -y"]} for s in S])
    models = core.coq_eval(IMPORTS, [string_model(s) for s in S])
    # round 2: std.parseYaml of every YAML text
    groups = []
    texts_of = []
    for s, o, c in zip(S, outs, couts):
        texts = {}
        if "ok" in o:
            texts = {k: x for k, x in core.decanon(o["ok"])["__obj__"]}
        for name, a in zip(["cli -f yaml", "cli -y"], c.get("outs", [])):
            if "ok" in a:
                texts[name] = a["ok"]
        texts_of.append(texts)
        groups.append((s, [(name, texts[name]) for name in ("yk", "yq", "yv", "cli -f yaml", "cli -y") if name in texts]))
    youts = parse_yaml_batch(binary, [g for g in groups if g[1]])
    run.log("part A: harness done, judging")

    for s, o, texts, m in zip(S, outs, texts_of, models):
        run.note_case("S:" + s, bool(s))
        run.count("strings")
        case = {"string": s, "codepoints": [ord(c) for c in s]}

        def fail(path, what, expected, got, known=None):
            f = {"case": dict(case, path=path), "summary": f"C14 [{path}] {what}: string {s!r}"[:300], "what": what,
                 "expected": expected, "got": got}
            if known:
                f["known"] = known
                run.count("known:" + known)
            failures.append(f)

        if "ok" not in o:
            fail("std", "a std.manifest* call failed on a string", "texts", o)
            continue
        if isinstance(m, tuple) and m and m[0] == "ERROR":
            run.obligation("model.eval", False, str(m[1])[:300])
            continue
        m_bare, m_ok, m_tbare, m_block, m_texts = m
        # --- spec executables agree (Coq yaml_plain_okb vs Python re; block_safe twice)
        if m_ok != py_plain_ok(s) or m_block != block_safe(s):
            model_diffs.append({"case": case, "model": f"plain_ok={m_ok} block_safe={m_block}",
                                "code": f"python spec: plain_ok={py_plain_ok(s)} block_safe={block_safe(s)}"})
        # --- impl-model == code, byte for byte
        for name, mt in zip(MODEL_NAMES, m_texts):
            mt = dec(mt)
            if name in texts and mt != texts[name]:
                model_diffs.append({"case": dict(case, path=name), "model": mt, "code": texts[name]})
        # --- YAML: bare decision against the SPEC
        real_bare_key = texts["yk"] == s + ": 1"
        real_bare_val = texts.get("cli -f yaml") == "- " + s
        run.count("yaml-key-bare" if real_bare_key else "yaml-key-quoted")
        if real_bare_key != m_bare:
            model_diffs.append({"case": dict(case, path="bare_safe"), "model": m_bare, "code": real_bare_key})
        for where, bare in (("key", real_bare_key), ("cli value", real_bare_val)):
            if bare and not py_plain_ok(s):
                fail(f"yaml bare {where}", "emitted unquoted although a YAML 1.1/1.2 reader does not resolve it to this string",
                     "quoted", s)
        # --- YAML read back
        single = "\n" not in s
        for name, expect in (("yk", {s: 1.0}), ("yq", {s: s}), ("yv", [s]), ("cli -f yaml", [s]), ("cli -y", s)):
            if name not in texts:
                fail(name, "no output", "text", None)
                continue
            if name != "yk" and not (single or block_safe(s)):
                run.count("yaml-skipped-not-block-safe")
                continue
            a = youts.get((s, name), {})
            got = canon_to_py(a["ok"]) if "ok" in a else None
            if "ok" not in a or got != expect:
                if name.startswith("cli") and saphyr_lenient(s):
                    run.count("oracle-lenient:saphyr-resolves-spec-string-as-number")
                    continue
                fail(name, "std.parseYaml (serde-saphyr) does not read the emitted YAML back as the input", repr(expect)[:200],
                     {"text": texts[name][:200], "read": a if "ok" not in a else repr(got)[:200]})
        # --- TOML
        try:
            got = tomllib.loads(texts["toml"])
            if got != {s: s}:
                fail("toml", "tomllib reads the output back as different data", {s: s}, repr(got)[:200])
        except (tomllib.TOMLDecodeError, ValueError) as e:
            fail("toml", f"output is not TOML ({str(e)[:80]})", {s: s}, texts["toml"][:200])
        # --- Python
        try:
            got = ast.literal_eval(texts["py"])
            if got != {s: s}:
                fail("python", "ast.literal_eval reads the output back as different data", {s: s}, repr(got)[:200])
        except (ValueError, SyntaxError) as e:
            fail("python", f"output is not a Python literal ({str(e)[:80]})", {s: s}, texts["py"][:200])
        # --- XML
        exp_attr, exp_text = s, s
        kn = None
        if XML_BAD.search(s):
            kn = K_XML_CTRL
        elif re.search(r"[\t\n\r]", s):
            kn = K_XML_WS
        try:
            el = ET.fromstring(texts["xml"])
            if el.tag != "t" or el.attrib != {"a": exp_attr} or (el.text or "") != exp_text or len(el):
                fail("xml", "xml.etree reads the output back as different data", {"a": s, "text": s},
                     {"attrib": el.attrib, "text": el.text}, known=kn)
        except ET.ParseError as e:
            fail("xml", f"output is not well-formed XML ({str(e)[:80]})", s, texts["xml"][:200], known=kn)
        # std.escapeStringXml: five entities only, nothing else touched
        un = texts["xe"]
        if re.search(r"[<>\"']|&(?!(lt|gt|amp|quot|apos);)", un) or \
                un.replace("&lt;", "<").replace("&gt;", ">").replace("&quot;", '"').replace("&apos;", "'").replace("&amp;", "&") != s:
            fail("escapeStringXml", "unescaping does not give the string back / raw markup left", s, un[:200])
        # --- INI (stated domain only)
        if ini_domain_val(s):
            try:
                got = ini_read(texts["ini"])
                if got.get("\x00main", {}).get("k") != [s]:  # noqa
                    fail("ini", "configparser reads the value back differently", s, repr(got)[:200])
            except configparser.Error as e:
                fail("ini", f"configparser rejects the output ({str(e)[:80]})", s, texts["ini"][:200])
        if len(run.samples) < 4 and real_bare_key and len(s) > 2:
            run.samples.append({"string": s, "yaml_key": texts["yk"], "toml": texts["toml"], "xml": texts["xml"]})
    return S


# ------------------------------------------------------------------ part B: trees
KEYS = ["a", "b", "k1", "key", "A", "e", "y", "no", "0o7", "1", "1.5", "x-y", "a.b", "a b", "", "é", "😀", "a\"b", "a\\", "#", "a:b",
        "-", "...", "\x7f", "\n", "a\nb", "null", "~", "<<", "=", "[x]", "main", "sections", "0x1F", "1e3", "2001-12-14"]
STRS = KEYS + ["a\nb", "a\nb\n", "x: y\n- z", "#c\nd", "multi\n\nline", "yes", "No", "1_000", ".inf", "1:30", "tab\there", " lead", "trail ",
               "'", "{}", "[]", "- a", "? a", "a, b", "&a", "*a", "!a", "|", ">", "%a", "@a", "`a", "\x01", "é\n😀"]
NUMS = [0.0, -0.0, 1.0, -1.0, 2.0, 10.0, 0.5, -0.25, 1e21, 1.5e-7, 123456789.0, 0.1 + 0.2, 2.0 ** 53, 1e300, 255.0, 1e-5]


class TGen:
    def __init__(self, rng):
        self.r = rng

    def scalar(self, nulls=True):
        r = self.r
        k = r.below(10)
        if k == 0 and nulls:
            return ("null",)
        if k == 1:
            return ("bool", r.chance(0.5))
        if k < 5:
            return ("num", f2b(r.choice(NUMS)))
        return ("str", r.choice(STRS))

    def keys(self, n):
        ks = set()
        for _ in range(n * 3):
            if len(ks) >= n:
                break
            ks.add(self.r.choice(KEYS))
        return sorted(ks)

    def value(self, d, nulls=True):
        r = self.r
        if d == 0 or r.chance(0.25):
            return self.scalar(nulls)
        n = r.choice([0, 1, 1, 2, 2, 3, 4])
        if r.chance(0.45):
            if r.chance(0.3):   # array of tables
                return ("arr", [("obj", [(k, self.value(d - 1, nulls)) for k in self.keys(r.choice([0, 1, 2]))]) for _ in range(n)])
            return ("arr", [self.value(d - 1, nulls) for _ in range(n)])
        return ("obj", [(k, self.value(d - 1, nulls)) for k in self.keys(n)])


FIXED_TREES = [
    ("obj", []), ("arr", []), ("null",), ("bool", True), ("str", ""), ("str", "a\nb"), ("num", f2b(1.5)),
    ("obj", [("a", ("arr", [])), ("b", ("obj", []))]),
    ("obj", [("a", ("arr", [("arr", []), ("arr", [("num", f2b(1.0))]), ("obj", []), ("obj", [("k", ("str", "v"))])]))]),
    ("arr", [("arr", [("arr", [("num", f2b(1.0))])]), ("obj", [("a", ("obj", [("b", ("obj", []))]))])]),
    ("obj", [("a", ("num", f2b(1.0))), ("s", ("obj", [("t", ("obj", [("u", ("num", f2b(2.0)))]))])),
             ("t", ("arr", [("obj", [("x", ("num", f2b(1.0)))]), ("obj", []), ("obj", [("y", ("arr", [("obj", [])]))])]))]),
    ("obj", [("only", ("obj", [("sec", ("obj", [("x", ("bool", False))]))]))]),
    ("obj", [("a b", ("obj", [("c.d", ("obj", [("", ("num", f2b(1.0)))]))]))]),
    ("obj", [("m", ("arr", [("num", f2b(1.0)), ("str", "x"), ("arr", [("bool", True)]), ("obj", [("k", ("num", f2b(2.0)))])]))]),
    ("obj", [("x", ("str", "a\nb\n")), ("y", ("arr", [("str", "l1\nl2"), ("obj", [("z", ("str", "p\nq"))])]))]),
    ("arr", [("str", "yes"), ("str", "0o7"), ("str", "..."), ("str", "1e3"), ("str", "~"), ("str", "a: b"), ("str", "- x")]),
    ("obj", [("n", ("null",))]), ("obj", [("a", ("arr", [("null",)]))]), ("obj", [("a", ("arr", [("obj", [("n", ("null",))])]))]),
]


def has_null(v):
    if v[0] == "null":
        return True
    if v[0] == "arr":
        return any(has_null(x) for x in v[1])
    if v[0] == "obj":
        return any(has_null(x) for _, x in v[1])
    return False


IDENT = re.compile(r"[A-Za-z_][A-Za-z0-9_]*\Z")
TOML_INDENTS = ["", " ", "\t", "    "]
YAML_COMBOS = [(i, q) for i in (False, True) for q in (False, True)]
CLI_FMTS = ["cli -f yaml", "cli -f yaml --line-padding 4", "cli -f toml", "cli -f toml --line-padding 0", "python", "pythonvars",
            "xml", "cli -f xml-jsonml", "ini", "cli -f ini"]


def jb(b):
    return "true" if b else "false"


def tree_programs(src, indent):
    ydocs = ", ".join(f"std.manifestYamlDoc(v, {jb(i)}, {jb(q)})" for i, q in YAML_COMBOS)
    y = (f"local v = {src}; {{ docs: [{ydocs}], dflt: std.manifestYamlDoc(v), "
         f"s0: std.manifestYamlStream([v, 'x', v]), s1: std.manifestYamlStream([v], true, false, false), "
         f"s2: std.manifestYamlStream([], false, true) }}")
    t = f"local v = {src}; {{ t: std.manifestToml(v), tx: std.manifestTomlEx(v, {core.jstr(indent)}) }}"
    p = f"local v = {src}; std.manifestPython(v)"
    pv = f"local v = {src}; std.manifestPythonVars(v)"
    return [y, t, p, pv]


def tree_model(v, indent):
    lit = cq_val(v)
    c = "tv"
    return (f"(let tv := {lit} in (yaml_paths {c}, toml_paths {c} {cq_s(indent)}, misc_paths {c}, "
            f"[ystream (fmt_yaml_std yaml_stream_default_indent_array yaml_stream_default_quote_keys) yaml_stream_default_document_end "
            f"yaml_stream_std_end_newline (JArr [{c}; JStr [120]; {c}]); "
            f"ystream (fmt_yaml_std true false) false yaml_stream_std_end_newline (JArr [{c}]); "
            f"yaml_manifest (fmt_yaml_cli 4) {c}; toml_manifest (fmt_toml_cli 0) {c}]))")


def pyvars_read(text):
    mod = ast.parse(text)
    out = {}
    for st in mod.body:
        if not (isinstance(st, ast.Assign) and len(st.targets) == 1 and isinstance(st.targets[0], ast.Name)):
            raise ValueError("not an assignment to a name")
        out[st.targets[0].id] = ast.literal_eval(st.value)
    return out


def part_trees(run, binary, failures, model_diffs):
    g = TGen(run.rng.fork("trees"))
    n = 3000 if run.tier == "thorough" else 200
    trees = list(FIXED_TREES)
    for i in range(n):
        nulls = i % 3 == 0
        v = g.value(1 + i % 4, nulls)
        if i % 2 == 0 and v[0] != "obj":
            v = ("obj", [(k, g.value(i % 3, nulls)) for k in g.keys(2)])
        trees.append(v)
    sg = J.Gen(run.rng.fork("src"))
    reqs, creqs, meta = [], [], []
    for v in trees:
        src = sg.src(v, plain=run.rng.chance(0.6))
        indent = run.rng.choice(TOML_INDENTS)
        reqs.append({"code": "null", "outs": [], "also": tree_programs(src, indent)})
        creqs.append({"code": src, "fmts": CLI_FMTS})
        meta.append((v, src, indent))
    run.log(f"part B: {len(trees)} JSON-like trees")
    outs = core.run_harness(binary, "manifest", reqs)
    couts = core.run_harness(binary, "c14", creqs)
    budget = 400000 if run.tier == "thorough" else 40000
    mexprs, midx = [], []
    for i, (v, src, indent) in enumerate(meta):
        cost = len(src.encode())
        if cost <= 500 and budget >= cost:
            budget -= cost
            mexprs.append(tree_model(v, indent))
            midx.append(i)
    models = dict(zip(midx, core.coq_eval(IMPORTS, mexprs)))
    run.log(f"part B: harness + model ({len(mexprs)} trees on the model) done")

    ygroups = []
    judged = []
    for i, ((v, src, indent), o, c) in enumerate(zip(meta, outs, couts)):
        run.note_case("T:" + src, J.size(v) > 1)
        run.count("tree:" + v[0])
        run.count(f"tree-depth{min(J.depth(v), 5)}")
        case = {"jsonnet": src, "value": J.show(v)}
        texts, errs = {}, {}

        def fail(path, what, expected, got, known=None, _case=case, _src=src):
            f = {"case": dict(_case, path=path), "summary": f"C14 [{path}] {what}: {_src[:160]}", "what": what,
                 "expected": expected, "got": got}
            if known:
                f["known"] = known
                run.count("known:" + known)
            failures.append(f)

        also = o.get("also", [None] * 4)
        # YAML program
        a = also[0]
        if a and "ok" in a:
            d = dict(core.decanon(a["ok"])["__obj__"])
            for (iq, t) in zip(YAML_COMBOS, d["docs"]):
                texts[f"yaml{int(iq[0])}{int(iq[1])}"] = t
            texts["yaml-default"] = d["dflt"]
            texts["ystream0"], texts["ystream1"], texts["ystream-empty"] = d["s0"], d["s1"], d["s2"]
        else:
            errs["yaml"] = a
        a = also[1]
        if a and "ok" in a:
            d = dict(core.decanon(a["ok"])["__obj__"])
            texts["toml"], texts["tomlex"] = d["t"], d["tx"]
        else:
            errs["toml"] = a
        for nm, a in (("python", also[2]), ("pythonvars", also[3])):
            if a and "ok" in a:
                texts["std-" + nm] = a["ok"]
            else:
                errs["std-" + nm] = a
        for nm, a in zip(CLI_FMTS, c.get("outs", [])):
            if "ok" in a:
                texts[nm] = a["ok"]
            else:
                errs[nm] = a
        panics = [k for k, a in errs.items() if not (isinstance(a, dict) and "err" in a)]
        for k in panics:
            fail(k, "manifestation neither produced text nor a Jsonnet error", "text or error", errs[k])
        # ---- domains
        toml_dom = v[0] == "obj" and not has_null(v)
        for nm in ("toml", "cli -f toml", "cli -f toml --line-padding 0"):
            if toml_dom and nm in errs and nm not in panics:
                fail(nm, "a TOML-representable value is rejected", "TOML text", errs[nm])
            if not toml_dom and nm not in errs:
                fail(nm, "a value outside TOML's domain (null inside / not an object) is not rejected", "error", texts.get(nm, "")[:200])
        for nm in ("yaml", "std-python", "cli -f yaml", "python"):
            if nm in errs and nm not in panics:
                fail(nm, "a function-free value is rejected", "text", errs[nm])
        if (v[0] == "obj") != ("pythonvars" in texts) or (v[0] == "obj") != ("std-pythonvars" in texts):
            fail("pythonvars", "accepts exactly objects at the top level", v[0], {k: errs.get(k) for k in ("pythonvars", "std-pythonvars")})
        # ---- YAML read back (round 2 requests)
        if yaml_value_ok(v):
            items = []
            for nm in ("yaml00", "yaml01", "yaml10", "yaml11", "yaml-default", "cli -f yaml", "cli -f yaml --line-padding 4",
                       "ystream0", "ystream1", "ystream-empty"):
                if nm == "ystream0" and v[0] == "null":
                    continue   # std.parseYaml drops null documents of a multi-document stream (oracle quirk)
                if nm in texts:
                    items.append((nm, texts[nm]))
            if items:
                ygroups.append((i, items))
        else:
            run.count("yaml-readback-skipped-not-block-safe")
        # ---- TOML read back
        for nm in ("toml", "tomlex", "cli -f toml", "cli -f toml --line-padding 0"):
            if nm in texts and toml_dom:
                try:
                    d = same(v, tomllib.loads(texts[nm]))
                    if d:
                        fail(nm, f"tomllib reads the output back as different data ({d})", J.show(v), texts[nm][:300])
                except (tomllib.TOMLDecodeError, ValueError, RecursionError) as e:
                    fail(nm, f"output is not TOML ({str(e)[:80]})", J.show(v), texts[nm][:300])
        # ---- Python read back
        for nm in ("std-python", "python"):
            if nm in texts:
                try:
                    d = same(v, ast.literal_eval(texts[nm]))
                    if d:
                        fail(nm, f"ast.literal_eval reads the output back as different data ({d})", J.show(v), texts[nm][:300])
                except (ValueError, SyntaxError, RecursionError) as e:
                    fail(nm, f"output is not a Python literal ({str(e)[:80]})", J.show(v), texts[nm][:300])
        if v[0] == "obj" and all(IDENT.match(k) and k not in ("None", "True", "False") for k, _ in v[1]):
            for nm in ("std-pythonvars", "pythonvars"):
                if nm in texts:
                    try:
                        d = same(v, pyvars_read(texts[nm]))
                        if d:
                            fail(nm, f"Python reads the assignments back as different data ({d})", J.show(v), texts[nm][:300])
                    except (ValueError, SyntaxError) as e:
                        fail(nm, f"output is not a sequence of Python assignments ({str(e)[:80]})", J.show(v), texts[nm][:300])
        # ---- impl-model == code
        m = models.get(i)
        if m is not None:
            if isinstance(m, tuple) and m and m[0] == "ERROR":
                run.obligation("model.eval", False, str(m[1])[:300])
            else:
                my, mt, mm, ms = m
                pairs = list(zip(["yaml00", "yaml01", "yaml10", "yaml11", "cli -f yaml"], my))
                pairs += list(zip(["toml", "tomlex", "cli -f toml"], mt))
                pairs += list(zip(["python", "pythonvars", "xml", "cli -f xml-jsonml", "ini", "cli -f ini"], mm))
                pairs += list(zip(["ystream0", "ystream1", "cli -f yaml --line-padding 4", "cli -f toml --line-padding 0"], ms))
                pairs += [("std-python", mm[0]), ("std-pythonvars", mm[1]), ("yaml-default", my[1])]
                for nm, t in pairs:
                    mt_ = dec(t)
                    real = texts.get(nm)
                    if nm in errs and nm in panics:
                        continue
                    if mt_ != real:
                        model_diffs.append({"case": dict(case, path=nm), "model": mt_, "code": real if real is not None else errs.get(nm)})
                run.count("trees-on-model")
        judged.append((v, src, texts))
        if len(run.samples) < 9 and 3 <= J.size(v) <= 7 and "toml" in texts:
            run.samples.append({"jsonnet": src[:200], "yaml": texts.get("yaml00", "")[:200], "toml": texts["toml"][:200]})

    youts = parse_yaml_batch(binary, ygroups)
    for (i, nm), a in sorted(youts.items()):
        v, src, indent = meta[i]
        t = judged[i][2][nm]
        if nm == "ystream0":
            expect = ("arr", [v, ("str", "x"), v])
        elif nm == "ystream-empty":
            expect = ("null",)
        else:
            expect = v   # a one-document stream reads back as the document
        d = same(expect, canon_to_py(a["ok"])) if "ok" in a else f"parse error: {a.get('msg', a)!s:.200}"
        if d:
            kn = None
            if nm.startswith("cli") and any(saphyr_lenient(s) for s in strs_of(v, keys=False)):
                run.count("oracle-lenient:saphyr-resolves-spec-string-as-number")
                continue
            if nm == "cli -f yaml --line-padding 4" and pad_trap(v):
                kn = K_PAD
            f = {"case": {"jsonnet": src, "path": nm, "value": J.show(v)},
                 "summary": f"C14 [{nm}] std.parseYaml (serde-saphyr) does not read the emitted YAML back as the input ({d}): {src[:160]}",
                 "what": "yaml read-back differs", "expected": J.show(expect), "got": t[:300]}
            if kn:
                f["known"] = kn
                run.count("known:" + kn)
            failures.append(f)
        run.count("yaml-read-back")


def pad_trap(v):
    """an array element that is an object with two or more fields (misaligned unless padding = 2)"""
    if v[0] == "arr":
        return any((x[0] == "obj" and len(x[1]) >= 2) or pad_trap(x) for x in v[1])
    if v[0] == "obj":
        return any(pad_trap(x) for _, x in v[1])
    return False


# ------------------------------------------------------------------ part C: JSONML, INI, rejections
TAGS = ["a", "b", "div", "x-y", "t.1", "_u", "T1"]
ATTRS = ["id", "a", "x-y", "_z", "lang.x", "B2"]
XTEXT = ["", "t", "a<b", "x&y", "q\"'>", "é😀", "  sp  ", "]]>", "&amp;", "a\nb", "1 < 2 & 3 > 2"]


def gen_jsonml(r, d):
    attrs = []
    if r.chance(0.6):
        for k in sorted(set(r.choice(ATTRS) for _ in range(r.below(3)))):
            x = r.choice([("str", r.choice([t for t in XTEXT if "\n" not in t])), ("num", f2b(r.choice([1.0, 0.5, -3.0]))), ("bool", True), ("null",),
                          ("obj", [("k", ("str", "<v>"))]), ("arr", [("num", f2b(1.0)), ("str", "&")])])
            attrs.append((k, x))
    kids = []
    for _ in range(r.choice([0, 0, 1, 2, 3]) if d > 0 else 0):
        kids.append(("str", r.choice(XTEXT)) if r.chance(0.5) else gen_jsonml(r, d - 1))
    items = [("str", r.choice(TAGS))]
    if attrs or r.chance(0.2):
        items.append(("obj", attrs))
    return ("arr", items + kids)


def jsonml_expect(v):
    """normal form: (tag, attrs dict of text, [children]) with adjacent text merged, empty text dropped"""
    if v[0] == "str":
        return v[1]
    items = v[1]
    tag = items[0][1]
    attrs, rest = {}, items[1:]
    if rest and rest[0][0] == "obj":
        for k, x in rest[0][1]:
            attrs[k] = x[1] if x[0] == "str" else to_string(x)
        rest = rest[1:]
    kids = []
    for c in rest:
        e = jsonml_expect(c)
        if isinstance(e, str):
            if e:
                if kids and isinstance(kids[-1], str):
                    kids[-1] += e
                else:
                    kids.append(e)
        else:
            kids.append(e)
    return (tag, attrs, kids)


def to_string(x):
    """std.toString of a non-string value"""
    t = x[0]
    if t == "null":
        return "null"
    if t == "bool":
        return "true" if x[1] else "false"
    if t == "num":
        return J.rust_display(x[1])
    if t == "str":
        return json.dumps(x[1], ensure_ascii=False)
    if t == "arr":
        return "[" + ", ".join(to_string(e) for e in x[1]) + "]" if x[1] else "[ ]"
    return "{" + ", ".join(json.dumps(k, ensure_ascii=False) + ": " + to_string(e) for k, e in x[1]) + "}" if x[1] else "{ }"


def etree_norm(el):
    kids = []
    if el.text:
        kids.append(el.text)
    for c in el:
        kids.append(etree_norm(c))
        if c.tail:
            if kids and isinstance(kids[-1], str):
                kids[-1] += c.tail
            else:
                kids.append(c.tail)
    return (el.tag, dict(el.attrib), kids)


BAD_JSONML = ["[]", "{}", "1", "null", "true", "[1]", "[null]", "['a', 1]", "['a', null]", "['a', {}, 2]", "['a', ['b', true]]",
              "['a', {}, {}]", "[['a']]", "['a', [ ]]", "['a', 'x', {}]", "[{}, 'a']", "['a', {}, [1, 'b']]"]
FUN = "(function(x) x)"
FUN_CASES = [  # (code, formats that must reject)
    (FUN, ["cli -f yaml", "python", "cli -f toml", "xml", "ini", "pythonvars"]),
    (f"[{FUN}]", ["cli -f yaml", "python", "cli -y", "xml"]),
    (f"{{a: {FUN}}}", ["cli -f yaml", "python", "cli -f toml", "pythonvars", "toml:  "]),
    (f"{{a: [1, {{b: {FUN}}}]}}", ["cli -f yaml", "python", "cli -f toml", "pythonvars", "yaml:1:1", "yamlcli:2"]),
    (f"{{a: {{b: [{{c: {FUN}}}]}}}}", ["cli -f yaml", "python", "cli -f toml", "pythonvars"]),
    (f"['a', {{x: {FUN}}}]", ["xml", "cli -f xml-jsonml"]),
    (f"['a', {FUN}]", ["xml", "cli -f xml-jsonml"]),
    (f"{{main: {{a: {FUN}}}, sections: {{}}}}", ["ini", "cli -f ini"]),
    (f"{{sections: {{s: {{a: [1, {FUN}]}}}}}}", ["ini", "cli -f ini"]),
    ("{a: null}", ["cli -f toml", "toml:  "]), ("{a: [1, null]}", ["cli -f toml"]), ("{a: {b: null}}", ["cli -f toml"]),
    ("{a: [{b: null}]}", ["cli -f toml"]), ("[1]", ["cli -f toml", "pythonvars", "ini"]), ("'s'", ["cli -f toml", "pythonvars", "ini", "cli -y"]),
    ("{a: 1}", ["cli -y", "ini", "xml"]), ("{main: 1, sections: {}}", ["ini"]), ("{sections: {s: 1}}", ["ini"]), ("{main: {}}", ["ini"]),
]
STD_REJECT = ([f"std.manifestYamlDoc({FUN})", f"std.manifestYamlDoc({{a: [{FUN}]}})", f"std.manifestYamlStream([1, {FUN}])",
               "std.manifestYamlStream({a: 1})", f"std.manifestToml({{a: {FUN}}})", "std.manifestToml({a: null})",
               "std.manifestTomlEx({a: [null]}, ' ')", "std.manifestToml([1])", "std.manifestToml('x')", f"std.manifestPython([{FUN}])",
               f"std.manifestPythonVars({{a: {FUN}}})", "std.manifestPythonVars([1])", f"std.manifestXmlJsonml(['a', {{b: {FUN}}}])",
               f"std.manifestIni({{main: {{a: {FUN}}}, sections: {{}}}})", "std.manifestIni({main: {}})"]
              + [f"std.manifestXmlJsonml({b})" for b in BAD_JSONML])

INI_KEYS = ["a", "b", "key", "K", "x.y", "a b", "é", "0", "k-1", "path/x"]
INI_VALS = [("str", "v"), ("str", "a b"), ("str", ""), ("str", "x=y"), ("str", "é😀"), ("str", "#c"), ("str", "100%"), ("str", "${x}"),
            ("num", f2b(1.0)), ("num", f2b(0.5)), ("bool", True), ("null",), ("str", "[s]"), ("str", "a;b"), ("str", "a: b")]


def gen_ini(r):
    def body():
        fs = []
        for k in sorted(set(r.choice(INI_KEYS) for _ in range(r.below(4)))):
            if r.chance(0.25):
                fs.append((k, ("arr", [r.choice(INI_VALS) for _ in range(r.below(4))])))
            else:
                fs.append((k, r.choice(INI_VALS)))
        return ("obj", fs)
    top = []
    if r.chance(0.7):
        top.append(("main", body()))
    top.append(("sections", ("obj", [(k, body()) for k in sorted(set(r.choice(["s", "T", "a.b", "sec 1", "é", "0"]) for _ in range(r.below(4))))])))
    return ("obj", top)


def ini_expect(v):
    def body(b):
        out = {}
        for k, x in b[1]:
            vals = [y[1] if y[0] == "str" else to_string(y) for y in (x[1] if x[0] == "arr" else [x])]
            if vals:
                out[k] = ini_norm(vals)
        return out
    d = dict(v[1])
    out = {"\x00main": body(d["main"]) if "main" in d else {}}
    for name, b in d["sections"][1]:
        out[name] = body(b)
    return out


def part_misc(run, binary, failures, model_diffs):
    r = run.rng.fork("misc")
    n = 600 if run.tier == "thorough" else 70
    sg = J.Gen(run.rng.fork("src2"))
    cases = [("xml", gen_jsonml(r, 1 + i % 3)) for i in range(n)] + [("ini", gen_ini(r)) for i in range(n)]
    reqs = [{"code": sg.src(v, plain=True), "fmts": ["xml", "cli -f xml-jsonml", "ini", "cli -f ini", "python", "pythonvars"]} for _, v in cases]
    outs = core.run_harness(binary, "c14", reqs)
    models = core.coq_eval(IMPORTS, [f"misc_paths {cq_val(v)}" for _, v in cases])
    run.log(f"part C: {len(cases)} JSONML / INI documents")
    for (kind, v), rq, o, m in zip(cases, reqs, outs, models):
        run.note_case(kind + ":" + rq["code"], True)
        run.count("doc:" + kind)
        case = {"jsonnet": rq["code"], "value": J.show(v)}

        def fail(path, what, expected, got, _case=case):
            failures.append({"case": dict(_case, path=path), "summary": f"C14 [{path}] {what}: {_case['jsonnet'][:160]}",
                             "what": what, "expected": expected, "got": got})

        res = o.get("outs", [])
        if len(res) != 6:
            fail(kind, "no answer from the harness", "texts", o)
            continue
        if not (isinstance(m, tuple) and m and m[0] == "ERROR"):
            for nm, a, t in zip(["python", "pythonvars", "xml", "cli -f xml-jsonml", "ini", "cli -f ini"],
                                [res[4], res[5], res[0], res[1], res[2], res[3]], m):
                real = a.get("ok") if "ok" in a else None
                if "panic" in a:
                    fail(nm, "panic", "text or error", a)
                elif dec(t) != real:
                    model_diffs.append({"case": dict(case, path=nm), "model": dec(t), "code": real if real is not None else a})
        else:
            run.obligation("model.eval", False, str(m[1])[:300])
        if kind == "xml":
            exp = jsonml_expect(v)
            for nm, a in (("xml", res[0]), ("cli -f xml-jsonml", res[1])):
                if "ok" not in a:
                    fail(nm, "a JSONML value is rejected", "XML", a)
                    continue
                try:
                    got = etree_norm(ET.fromstring(a["ok"]))
                    if got != exp:
                        fail(nm, "xml.etree reads the output back as a different tree", repr(exp)[:300], a["ok"][:300])
                except ET.ParseError as e:
                    fail(nm, f"output is not well-formed XML ({str(e)[:80]})", repr(exp)[:300], a["ok"][:300])
        else:
            exp = ini_expect(v)
            for nm, a in (("ini", res[2]), ("cli -f ini", res[3])):
                if "ok" not in a:
                    fail(nm, "an INI document value is rejected", "INI", a)
                    continue
                try:
                    got = ini_read(a["ok"])
                    if got != exp:
                        fail(nm, "configparser reads the output back as different data", repr(exp)[:300], a["ok"][:300])
                except configparser.Error as e:
                    fail(nm, f"configparser rejects the output ({str(e)[:80]})", repr(exp)[:300], a["ok"][:300])
    # ---- rejections
    routs = core.run_harness(binary, "c14", [{"code": c, "fmts": f} for c, f in FUN_CASES])
    for (code, fmts), o in zip(FUN_CASES, routs):
        for nm, a in zip(fmts, o.get("outs", [{}] * len(fmts))):
            run.note_case(f"R:{code}:{nm}", True)
            run.count("rejection-cases")
            if "err" not in a:
                failures.append({"case": {"jsonnet": code, "path": nm}, "summary": f"C14 [{nm}] a value outside the format's domain is not rejected with an error: {code}",
                                 "what": "not rejected", "expected": "error", "got": a})
    souts = core.run_harness(binary, "eval", [{"code": c} for c in STD_REJECT])
    for code, a in zip(STD_REJECT, souts):
        run.note_case("R:" + code, True)
        run.count("rejection-cases")
        kn = None
        if "err" not in a:
            failures.append({"case": {"jsonnet": code, "path": "std"}, "summary": f"C14 [std] a value outside the format's domain is not rejected with an error: {code}",
                             "what": "not rejected", "expected": "error", "got": a, **({"known": kn} if kn else {})})


# ------------------------------------------------------------------ known findings must still reproduce
def known_still_reproduce(run, failures):
    """props/c14.meta.json is the source of the known list (known_findings.json is assembled from it and may lag)"""
    import os
    hit = {f.get("known") for f in failures if f.get("known")}
    meta = json.load(open(os.path.join(core.VERIF, "props", "c14.meta.json"), encoding="utf-8"))
    for k in meta.get("known_findings", []):
        run.obligation(f"known-finding-reproduces:{k['id']}", k["id"] in hit,
                       "the finding no longer reproduces: remove it from props/c14.meta.json and drop its class from the theorem")


# ------------------------------------------------------------------ the check
def check(run, terrs):
    proofs_ok, detail = core.check_property_file(run, "C14")
    # C14's theorems stand on C05's escaper theorems
    ok5, log5 = core.coq_make(["theories/C05/Proofs.vo"])
    run.obligation("C05.Proofs (escape_is_ref, imported)", ok5, log5[-400:] if not ok5 else "")
    binary, err = core.build_harness(run)
    if not binary:
        run.obligation("harness.build", False, err)
        return core.conclude(run, False, err, [], [])
    failures, model_diffs = run_all(run, binary)
    known_still_reproduce(run, failures)
    if run.dist.get("oracle-lenient:saphyr-resolves-spec-string-as-number"):
        run.notes.append("std.parseYaml (serde-saphyr) resolves plain scalars such as 0B1, 0X1, 0O7, nan, inf to numbers although neither "
                         "YAML 1.1 nor 1.2 does: `jrsonnet -f yaml` output containing such strings unquoted is correct YAML but "
                         "std.parseYaml does not give the string back (reader-side leniency, outside C14's writers; not judged)")
    run.notes.append("outside the quantifier: multi-line strings outside the block-scalar-safe class (leading space on the first line, "
                     "two trailing newlines, control characters) are written as `|`/`|-` block scalars that do not denote them; "
                     "`--line-padding 0` for YAML removes all nesting")
    kinds = {}
    for f in failures:
        k = ("known:" + f["known"]) if f.get("known") else f.get("what", "?")[:60]
        kinds[k] = kinds.get(k, 0) + 1
    run.log(f"failures by kind: {kinds}; model diffs: {len(model_diffs)}")
    failures.sort(key=lambda f: len(json.dumps(f.get("case", {}))))
    run.trusted = TRUSTED
    run.assumptions = ASSUMPTIONS
    return core.conclude(run, proofs_ok and ok5, detail, failures, model_diffs,
                         search=(lambda: search(run, binary)), level="proof", rule=RULE)


def run_all(run, binary):
    failures, model_diffs = [], []
    part_strings(run, binary, failures, model_diffs)
    part_trees(run, binary, failures, model_diffs)
    part_misc(run, binary, failures, model_diffs)
    return failures, model_diffs


def search(run, binary):
    """thorough-scope enumeration (all 1- and 2-symbol strings) judged by the oracles only"""
    run.log("search: exhaustive 1-2 symbol strings")
    old = run.tier
    run.tier = "thorough"
    try:
        f, md = [], []
        part_strings(run, binary, f, md)
        # a model difference on a concrete string is a concrete input where code and (proved) model part ways
        for d in md[:20]:
            f.append({"case": d["case"], "summary": f"C14 code and impl-model disagree on {json.dumps(d['case'])[:200]}",
                      "what": "code differs from the verified model", "expected": d["model"], "got": d["code"]})
        return f
    finally:
        run.tier = old


def replay(run, data):
    binary, err = core.build_harness(run)
    f = data.get("failure", {})
    case = f.get("case", {})
    print("what    :", f.get("what"))
    print("path    :", case.get("path"))
    print("expected:", f.get("expected"))
    print("was     :", f.get("got"))
    if "string" in case:
        s = case["string"]
        o = core.run_harness(binary, "eval", [{"code": string_program(s)}])[0]
        c = core.run_harness(binary, "c14", [{"code": f"[{core.jstr(s)}]", "fmts": ["cli -f yaml", "cli -y"]}])[0]
        print("string  :", repr(s))
        print("now     :", json.dumps(o, ensure_ascii=False)[:2000])
        print("now cli :", json.dumps(c, ensure_ascii=False)[:1000])
    elif "jsonnet" in case:
        code = case["jsonnet"]
        p = case.get("path", "")
        fm = p if p in CLI_FMTS or p.split(":")[0] in ("toml", "yaml", "yamlcli", "tomlcli") else None
        c = core.run_harness(binary, "c14", [{"code": code, "fmts": [fm] if fm else CLI_FMTS}])[0]
        print("jsonnet :", code)
        print("now     :", json.dumps(c, ensure_ascii=False)[:3000])
        if not fm:
            o = core.run_harness(binary, "manifest", [{"code": "null", "outs": [], "also": tree_programs(code, "  ")}])[0]
            print("now std :", json.dumps(o, ensure_ascii=False)[:3000])
    else:
        print(json.dumps(data, indent=1)[:3000])
    return 0


RULE = ("(A) strings: the format-hostile alphabet (66 symbols incl. quotes, backslash, # : - = [ ] { } , & * ! | > % @ `, space, tab, "
        "newline, NUL..0x1F, U+007F, é, 😀, YAML 1.1 keywords and number look-alikes) singly, ~170 boundary words around every arm of "
        "bare_safe, random 1-6 symbol strings inside bare_safe's classes, random 1-3 symbol mixtures (thorough: all 2-symbol strings); each "
        "as key and value through std.manifestYamlDoc (bare key, quoted, array), Toml, Python, XmlJsonml, escapeStringXml, Ini and "
        "CLI -f yaml / -y. (B) JSON-like trees depth<=4 over 36 hostile keys / 66 strings / 16 doubles incl. arrays of tables, nested "
        "sections, empty containers; std.manifestYamlDoc x4 option combinations + defaults, YamlStream (3 option sets), Toml, TomlEx "
        "(4 indents), Python, PythonVars, CLI -f yaml/toml/xml-jsonml/ini with line paddings. (C) JSONML trees, INI documents, 60 "
        "rejection cases. distinct = distinct string / Jsonnet expression; trivial = empty string, size-1 tree")
TRUSTED = ["Coq 8.16.1 kernel incl. vm_compute; no axioms",
           "translator/gens/c14fmt.py: RESERVED, character classes, bare_safe control skeleton, entity table, presets, std defaults",
           "SPEC: my transcription of the YAML 1.2 core schema (10.3.2) and YAML 1.1 type-repository regexes (float fraction class "
           "[0-9_] as implemented by PyYAML/libyaml, not the repository's misprint [0-9.]); plain-scalar syntax stated conservatively "
           "for one-token ASCII scalars; TOML v1.0 basic-string / unquoted-key, Python 3 string literal, XML 1.0 predefined entities",
           "oracles: serde-saphyr via std.parseYaml (the only YAML parser available: bundled with jrsonnet, YAML 1.2, coerces keys to "
           "strings, lenient 1.1-style resolution of values), Python 3 tomllib, ast, xml.etree, configparser (interpolation off, '=' only)",
           "C05's escaper theorems (imported) and Rust f64 Display (number tokens are opaque)",
           "full YAML / TOML layout is NOT proved (writers are modelled and compared byte for byte with the code, and read back by the "
           "oracles); INI has no standard: claim limited to keys/values without = [ ] : leading/trailing blanks, newlines"]
ASSUMPTIONS = ["impl-model transliterates manifest/{yaml,toml,python,xml,ini}.rs; tie = regenerated tables + byte-for-byte differential run",
               "strings are UTF-8 byte lists; objects reach the writers as the (name, value) sequence ObjValue::iter yields (C02)",
               "multi-line YAML strings are judged only inside the block-scalar-safe class (Model.v block_safe)"]
