"""C08 — arrays behave identically whatever their internal representation.

Theorems: coq/theories/C08 (impl-model of every ArrayLike index map and ArrValue constructor
refines the plain-list spec, for all views / all indices / all op compositions).
Correspondence: op trees -> (a) Jsonnet expression evaluated by the real code and probed
through ArrValue::get and through Jsonnet-level observers, (b) the same tree evaluated by the
Coq model ([run_case], vm_compute).  Compared: length, every get in 0..len+3, index-expression
errors out of bounds, and observational equivalence with the plain literal.
"""
import json

from vlib import core
from vlib.core import cq_N, cq_Z, cq_list, cq_opt

IMPORTS = "From Coq Require Import List ZArith NArith.\nFrom JrV Require Import C08.Model.\nImport ListNotations.\n"


# ------------------------------------------------------------------ op trees
# python tuples: ("lit", [ids], how) ("cat",a,b) ("slice",a,i,e,st,how) ("rev",a) ("rep",a,n)
# ("range",f,t) ("make",n,f) ("map",f,a) ("mapi",f,a) ("rmat",a,at)
def elem_js(k):
    return json.dumps(f"e{k}")


def op_js(o):
    t = o[0]
    if t == "lit":
        ids, how = o[1], o[2]
        lit = "[" + ", ".join(elem_js(k) for k in ids) + "]"
        if how == "lit" or not ids and how in ("objvals",):
            return lit
        if how == "comp":
            return f"[x for x in {lit}]"
        if how == "filter":
            return f"std.filter(function(x) true, {lit})"
        if how == "objvals":
            return "std.objectValues({" + ", ".join(f"k{i:03d}: {elem_js(k)}" for i, k in enumerate(ids)) + "})"
        if how == "flatmap":
            return f"std.flatMap(function(x) [x], {lit})"
        if how == "join":
            return "std.join([], [" + ", ".join(f"[{elem_js(k)}]" for k in ids) + "])"
        raise ValueError(how)
    if t == "cat":
        return f"({op_js(o[1])} + {op_js(o[2])})"
    if t == "flat":
        return "std.flattenArrays([" + ", ".join(op_js(x) for x in o[1]) + "])"
    if t == "slice":
        a, i, e, st, how = o[1:]
        if how == "std":
            f = lambda x: "null" if x is None else str(x)  # noqa
            return f"std.slice({op_js(a)}, {f(i)}, {f(e)}, {f(st)})"
        f = lambda x: "" if x is None else str(x)  # noqa
        s = f"{op_js(a)}[{f(i)}:{f(e)}"
        if st is not None:
            s += f":{st}"
        return s + "]"
    if t == "rev":
        return f"std.reverse({op_js(o[1])})"
    if t == "rep":
        return f"std.repeat({op_js(o[1])}, {o[2]})"
    if t == "range":
        return f"std.range({o[1]}, {o[2]})"
    if t == "make":
        return f"std.makeArray({o[1]}, function(i) ['m', {o[2]}, i])"
    if t == "map":
        return f"std.map(function(x) ['m', {o[1]}, x], {op_js(o[2])})"
    if t == "mapi":
        return f"std.mapWithIndex(function(i, x) ['mi', {o[1]}, i, x], {op_js(o[2])})"
    if t == "rmat":
        return f"std.removeAt({op_js(o[1])}, {o[2]})"
    raise ValueError(t)


def flat_tree(xs):
    """the OCat tree std.flattenArrays builds (flatten_inner)"""
    if len(xs) == 1:
        return xs[0]
    if len(xs) == 2:
        return ("cat", xs[0], xs[1])
    h = len(xs) // 2
    return ("cat", flat_tree(xs[:h]), flat_tree(xs[h:]))


def op_coq(o):
    t = o[0]
    if t == "lit":
        return "(OLit " + cq_list([f"EId {cq_Z(k)}" for k in o[1]]) + ")"
    if t == "cat":
        return f"(OCat {op_coq(o[1])} {op_coq(o[2])})"
    if t == "flat":
        return op_coq(flat_tree(o[1])) if o[1] else "(OLit [])"
    if t == "slice":
        a, i, e, st, _ = o[1:]
        return (f"(OSlice {op_coq(a)} {cq_opt(None if i is None else cq_Z(i))} "
                f"{cq_opt(None if e is None else cq_Z(e))} {cq_opt(None if st is None else cq_N(st))})")
    if t == "rev":
        return f"(ORev {op_coq(o[1])})"
    if t == "rep":
        return f"(ORep {op_coq(o[1])} {cq_N(o[2])})"
    if t == "range":
        return f"(ORange {cq_Z(o[1])} {cq_Z(o[2])})"
    if t == "make":
        return f"(OMake {cq_Z(o[1])} {cq_Z(o[2])})"
    if t == "map":
        return f"(OMap {cq_Z(o[1])} {op_coq(o[2])})"
    if t == "mapi":
        return f"(OMapI {cq_Z(o[1])} {op_coq(o[2])})"
    if t == "rmat":
        return f"(ORemoveAt {op_coq(o[1])} {cq_Z(o[2])})"
    raise ValueError(t)


def depth(o):
    t = o[0]
    if t in ("lit", "range", "make"):
        return 0
    if t == "cat":
        return 1 + max(depth(o[1]), depth(o[2]))
    if t == "flat":
        return 1 + max([depth(x) for x in o[1]] or [0])
    if t in ("map", "mapi"):
        return 1 + depth(o[2])
    return 1 + depth(o[1])


# ------------------------------------------------------------------ model terms -> python
def elem_py(e):
    """Coq elem term -> the python value the Jsonnet program must produce"""
    if isinstance(e, core.App):
        if e.name == "EId":
            return f"e{e.args[0]}"
        if e.name == "ENum":
            return float(e.args[0])
        if e.name == "EAp":
            return ["m", float(e.args[0]), elem_py(e.args[1])]
        if e.name == "EApI":
            return ["mi", float(e.args[0]), float(e.args[1]), elem_py(e.args[2])]
    raise ValueError(f"bad elem {e!r}")


def opt_py(t, f):
    if t == "None":
        return None
    assert isinstance(t, core.App) and t.name == "Some", t
    return ("some", f(t.args[0]))


def js_lit(v):
    if isinstance(v, float):
        return str(int(v)) if v == int(v) else repr(v)
    if isinstance(v, str):
        return json.dumps(v)
    if isinstance(v, list):
        return "[" + ", ".join(js_lit(x) for x in v) + "]"
    raise ValueError(v)


# ------------------------------------------------------------------ generators
HOWS = ["lit", "comp", "filter", "objvals", "flatmap", "join"]


class Gen:
    def __init__(self, rng):
        self.rng = rng
        self.next_id = 0

    def lit(self, n, how=None):
        ids = list(range(self.next_id, self.next_id + n))
        self.next_id += n
        return ("lit", ids, how or self.rng.choice(HOWS))

    def leaf(self):
        r = self.rng.below(10)
        if r < 6:
            return self.lit(self.rng.choice([0, 1, 2, 3, 5]))
        if r < 8:
            return ("range",) + self.rng.choice([(0, -1), (0, 0), (0, 3), (-2, 2), (3, 1), (5, 7)])
        return ("make", self.rng.choice([0, 1, 3]), self.rng.below(5))

    def pos(self):
        return self.rng.choice([None, None, -7, -2, -1, 0, 1, 2, 3, 6])

    def op(self, d):
        if d == 0:
            return self.leaf()
        r = self.rng.below(100)
        sub = lambda: self.op(self.rng.below(d))  # noqa
        deep = lambda: self.op(d - 1)  # noqa
        if r < 25:
            return ("slice", deep(), self.pos(), self.pos(), self.rng.choice([None, None, 1, 2, 3]),
                    self.rng.choice(["idx", "idx", "std"]))
        if r < 40:
            a, b = deep(), sub()
            if self.rng.chance(0.5):
                a, b = b, a
            return ("cat", a, b)
        if r < 52:
            return ("rev", deep())
        if r < 64:
            return ("rep", deep(), self.rng.choice([0, 1, 2, 3]))
        if r < 74:
            return ("map", self.rng.below(5), deep())
        if r < 84:
            return ("mapi", self.rng.below(5), deep())
        if r < 92:
            return ("rmat", deep(), self.rng.choice([-1, 0, 1, 2, 5]))
        xs = [deep()] + [sub() for _ in range(self.rng.below(3))]
        self.rng.shuffle(xs)
        return ("flat", xs)


def rebuild_family(g, sizes=(999, 1001)):
    """a concatenation above ARR_EXTEND_THRESHOLD of an evaluated ("cheap": range) and an unevaluated
    (literal / comprehension / mapped) half, cut back to a short window inside either half or across the
    seam, and concatenated again below the threshold with evaluated and unevaluated arrays: the second
    concatenation copies element by element and must cope with windows whose elements are not all of
    one kind"""
    out = []
    for n in sizes:
        for how in ("lit", "comp"):
            for first in (True, False):
                big, lazy = ("range", 0, n - 1), (lambda: g.lit(2, how))
                ext = (lambda: ("cat", big, lazy())) if first else (lambda: ("cat", lazy(), big))
                seam = n if first else 2
                for (i, e) in ((seam - 2, seam + 1), (seam - 1, None) if first else (None, seam + 1), (0, 2), (-2, None)):
                    win = lambda: ("slice", ext(), i, e, None, "idx")  # noqa
                    out.append(("cat", win(), ("range", 1, 3)))
                    out.append(("cat", ("range", 1, 2), win()))
                    out.append(("cat", win(), g.lit(1, "lit")))
                    out.append(("rev", ("cat", win(), ("range", 0, 1))))
                    out.append(("flat", [win(), ("range", 0, 1), win()]))
                    out.append(("rmat", ("cat", win(), ("range", 5, 6)), 1))
        mapped = ("map", 1, ("range", 0, 2))
        out.append(("cat", ("slice", ("cat", ("range", 0, n - 1), mapped), n - 1, None, None, "idx"), ("range", 7, 8)))
        out.append(("cat", ("range", 7, 8), ("slice", ("cat", mapped, ("range", 0, n - 1)), None, 4, None, "idx")))
    return out


def enumerate_cases(run):
    """quick: exhaustive depth-1 over a reduced parameter grid + threshold family + random
    depth 2..4; thorough: the full grid, exhaustive depth-2 unary chains, more random."""
    thorough = run.tier == "thorough"
    g = Gen(run.rng.fork("gen"))
    cases = []
    leaves = [lambda n=n, h=h: g.lit(n, h) for n in (0, 1, 2, 3, 5) for h in ("lit", "objvals")]
    leaves += [lambda f=f, t=t: ("range", f, t) for f, t in [(0, -1), (0, 0), (0, 3), (-2, 2), (3, 1)]]
    leaves += [lambda n=n: ("make", n, 1) for n in (0, 1, 3)]
    pos_q = [None, -2, 0, 1, 3, 7]
    pos_t = [None, -7, -2, -1, 0, 1, 2, 3, 6]
    steps_q, steps_t = [None, 2], [None, 1, 2, 3]
    poss, steps = (pos_t, steps_t) if thorough else (pos_q, steps_q)

    def unary(mk):
        out = []
        for i in poss:
            for e in poss:
                for st in steps:
                    out.append(("slice", mk(), i, e, st, "idx" if (i, e, st) != (None, None, None) else "std"))
        out.append(("rev", mk()))
        for n in (0, 1, 2, 3):
            out.append(("rep", mk(), n))
        out.append(("map", 2, mk()))
        out.append(("mapi", 3, mk()))
        for at in (-1, 0, 1, 2, 5):
            out.append(("rmat", mk(), at))
        return out

    for lf in leaves:
        cases.append(lf())
        cases.extend(unary(lf))
    for a in leaves:
        for b in leaves:
            cases.append(("cat", a(), b()))
    # threshold family around ARR_EXTEND_THRESHOLD
    for n in (998, 999, 1000, 1001):
        big = ("range", 0, n - 1)
        one = lambda: g.lit(1, "lit")  # noqa
        cases.append(("cat", big, one()))
        cases.append(("cat", one(), big))
        cases.append(("slice", ("cat", big, one()), -3, None, None, "idx"))
        cases.append(("rev", ("cat", one(), big)))
        cases.append(("slice", ("rev", ("cat", big, g.lit(2, "comp"))), 1, None, 499, "idx"))
        cases.append(("flat", [big, one(), one()]))
    cases.extend(rebuild_family(g, sizes=(999, 1001, 2500) if thorough else (1001,)))
    if thorough:
        # exhaustive depth 2: every unary op over every depth-1 unary op (reduced grid) over a leaf set
        small_leaves = [lambda: g.lit(3, "lit"), lambda: ("range", 0, 3), lambda: g.lit(0, "lit")]
        save = (poss, steps)
        poss, steps = pos_q, steps_q
        for lf in small_leaves:
            for inner in unary(lf):
                cases.extend(unary(lambda inner=inner: inner))
        poss, steps = save
    nrand = 20000 if thorough else 1200
    for k in range(nrand):
        cases.append(g.op(2 + k % 3))
    return cases


# ------------------------------------------------------------------ huge arrays (lazily, O(1) per probe)
def huge_family():
    """views over ranges of more than 2^31 (up to 2^32) elements: nothing is ever materialised, only the
    length and single positions on both sides of 2^31 / 2^32 and of the end are read"""
    R1, R2 = ("range", -10, 2147483647), ("range", -2147483648, 2147483647)
    views = []
    for R in (R1, R2):
        views += [R, ("rev", R), ("slice", R, -3, None, None, "idx"), ("slice", R, 2147483640, None, 7, "idx"),
                  ("slice", ("rev", R), 5, -5, 3, "idx"), ("cat", R, ("lit", [1, 2], "lit")),
                  ("cat", ("lit", [3], "lit"), R), ("rev", ("slice", R, 2147483646, None, None, "idx")),
                  ("rep", ("slice", R, 2147483640, 2147483645, None, "idx"), 3)]
    return views


def correspond_huge(run, binary):
    failures = []
    views = huge_family()
    fixed = [0, 1, 5, 2147483647, 2147483648, 2147483649, 3000000000, 4294967295, 4294967296, 4294967305]
    exprs = []
    for v in views:
        idx = "[" + "; ".join(f"{i}%N" for i in fixed) + "]"
        exprs.append(f"match build {op_coq(v)} with BOk v => Some (len_impl v, map (get_impl v) {idx}, "
                     f"match len_impl v with Some n => map (get_impl v) [n - 3; n - 1; n; n + 1]%N | None => [] end) "
                     f"| _ => None end")
    model = core.coq_eval(IMPORTS, exprs)
    reqs, meta = [], []
    for v, m in zip(views, model):
        if isinstance(m, tuple) and m and m[0] == "ERROR":
            run.obligation("model.eval.huge", False, str(m[1])[:300])
            continue
        got = opt_py(m, lambda t: t)
        if got is None or opt_py(got[1][0], int) is None:
            run.obligation("model.eval.huge", False, f"model could not build {op_js(v)}")
            continue
        mlen, mfixed, mend = got[1]
        n = opt_py(mlen, int)[1]
        ajs = op_js(v)
        run.note_case("huge:" + ajs, True)
        run.count("huge-view")
        positions = list(zip(fixed, mfixed)) + list(zip([n - 3, n - 1, n, n + 1], mend))
        base = len(reqs)
        reqs.append({"code": f"std.length({ajs})"})
        for i, _ in positions:
            reqs.append({"code": f"({ajs})[{i}]"})
        meta.append((ajs, n, positions, base))
    outs = core.run_harness(binary, "eval", reqs)
    for ajs, n, positions, base in meta:
        case = {"jsonnet": ajs}
        o = outs[base]
        if core.decanon(o.get("ok")) != n if "ok" in o else True:
            failures.append({"case": case, "summary": f"C08 length of a huge view differs from the model: {ajs}",
                             "what": "huge length", "expected": n, "got": o})
            continue
        for k, (i, me) in enumerate(positions):
            o = outs[base + 1 + k]
            # Some (Some e): element | Some None: absent | None: the implementation model panics
            exp = opt_py(me, lambda inner: opt_py(inner, elem_py))
            if i >= n or i < 0:
                good = o.get("err") == "ArrayBoundsError"
                want = "ArrayBoundsError"
            else:
                want = exp
                good = ("ok" in o and exp is not None and exp[1] is not None
                        and core.decanon(o["ok"]) == exp[1][1])
            if not good:
                failures.append({"case": dict(case, request={"code": f"({ajs})[{i}]"}),
                                 "summary": f"C08 position {i} of a huge view (length {n}) differs from the model: {ajs}",
                                 "what": "huge index", "expected": want, "got": o})
                break
    return failures



# ------------------------------------------------------------------ all three accessors, around the boundaries
SRC_PREFIX = "C08.C08_model_is_translated_source"
BIG = [2 ** 32, 2 ** 63, 2 ** 64 - 1]


def accessor_family(run, deep=False):
    """views of every index-computing representation over cheap (range), non-cheap (literal, mapped) and empty
    bases, probed through get / get_lazy / get_cheap at the indices around every boundary"""
    g = Gen(run.rng.fork("acc"))
    bases = [lambda: ("range", 0, 4), lambda: g.lit(5, "lit"), lambda: g.lit(1, "comp"), lambda: g.lit(0, "lit"),
             lambda: ("range", 0, -1), lambda: ("make", 3, 1), lambda: ("range", -2, 0)]
    slices = [(None, None, None), (1, None, None), (None, -1, None), (1, 4, 2), (0, 5, 3), (2, 2, None),
              (-3, None, 2), (1, 3, None), (0, None, 2), (4, 9, None)]
    if deep:
        slices += [(i, e, st) for i in (None, 1, 2) for e in (None, 3, 4, -1) for st in (None, 2, 3)]

    def unary(mk):
        out = [("slice", mk(), i, e, st, "idx" if (i, e, st) != (None, None, None) else "std") for i, e, st in slices]
        out.append(("rev", mk()))
        out += [("rep", mk(), n) for n in (0, 1, 2, 3)]
        out += [("map", 2, mk()), ("mapi", 3, mk())]
        return out
    cases = []
    for b in bases:
        cases.append(b())
        cases.extend(unary(b))
        for b2 in bases[:4]:
            cases.append(("cat", b(), b2()))
    # linked concatenations (above the threshold) and views of them
    for n in (999, 1000, 1001):
        for mk in (lambda n=n: ("cat", ("range", 0, n - 1), g.lit(2, "lit")),
                   lambda n=n: ("cat", g.lit(2, "comp"), ("range", 0, n - 1))):
            cases.append(mk())
            cases += [("rev", mk()), ("slice", mk(), -4, None, None, "idx"), ("slice", mk(), 1, None, 333, "idx"),
                      ("rep", ("slice", mk(), -3, None, None, "idx"), 2)]
    # depth 2: every unary view of a few unary views
    inner = [("slice", ("range", 0, 6), 1, 6, 2, "idx"), ("rev", g.lit(4, "lit")), ("rep", ("range", 0, 1), 3),
             ("rev", ("range", 0, 3)), ("slice", g.lit(5, "lit"), 1, None, None, "idx")]
    if deep:
        inner += unary(lambda: ("range", 0, 5))[:8] + unary(lambda: g.lit(4, "lit"))[:8]
    for v in inner:
        cases.extend(unary(lambda v=v: v))
    return cases


def correspond_accessors(run, binary, deep=False):
    """SPEC (plain list) against get, get_lazy (thunk evaluated) and get_cheap of the real ArrValue"""
    cases, seen = [], set()
    for c in accessor_family(run, deep):
        if op_js(c) not in seen:
            seen.add(op_js(c))
            cases.append(c)
    model = core.coq_eval(IMPORTS, [f"spec {op_coq(c)}" for c in cases])
    reqs, meta = [], []
    for c, m in zip(cases, model):
        if isinstance(m, tuple) and m and m[0] == "ERROR":
            run.obligation("model.eval.accessors", False, str(m[1])[:300])
            continue
        spec = [elem_py(e) for e in m]
        n = len(spec)
        idx = sorted({i for i in [0, 1, 2, n - 2, n - 1, n, n + 1, n + 2, n + 5, 2 * n] + BIG if i >= 0})
        ajs = op_js(c)
        reqs.append({"code": ajs, "arrprobe_at": [str(i) for i in idx]})
        meta.append((c, ajs, spec, idx))
    outs = core.run_harness(binary, "eval", reqs)
    failures = []
    for (c, ajs, spec, idx), req, o in zip(meta, reqs, outs):
        run.note_case("acc:" + ajs, True)
        run.count("accessor-probe")
        run.count(f"accessor-root:{c[0]}")
        case = {"jsonnet": ajs, "op": repr(c), "request": req}
        n = len(spec)

        def fail(what, expected, got):
            failures.append({"case": case, "summary": f"C08 {what}: {ajs[:200]}", "what": what,
                             "expected": expected, "got": got})
        if "ok" not in o or "at" not in o["ok"]:
            fail("array expression did not evaluate (accessor probe)", {"len": n}, o)
            continue
        pr = o["ok"]
        if int(pr["len"]) != n:
            fail("length differs from the plain array", n, pr["len"])
            continue
        cheap_arr = bool(pr.get("is_cheap"))
        for i, a in zip(idx, pr["at"]):
            want = ("some", spec[i]) if i < n else None

            def dec(x):
                if x is None:
                    return None
                return ("some", core.decanon(x["v"])) if "v" in x else ("bad", x)
            got = {k: dec(a[k]) for k in ("get", "lazy", "cheap")}
            bad = [k for k in ("get", "lazy") if got[k] != want]
            if got["cheap"] != want and (cheap_arr or got["cheap"] is not None):
                bad.append("cheap")
            if bad:
                name = {"get": "get", "lazy": "get_lazy", "cheap": "get_cheap"}[bad[0]]
                fail(f"{name}({i}) differs from the plain array (len {n}, is_cheap {cheap_arr})", want, got[bad[0]])
                break
    return failures

def probe_regressions(run, binary):
    """regression cases of fixed findings.  4b122d6: `(-v) as usize` in the slice position clamp (ArrValue::slice
    get_idx, and the string slice of val.rs) overflowed for v = i32::MIN; the answer is the clamped slice"""
    failures = []
    progs = [("[1, 2, 3][-2147483648:]", [1.0, 2.0, 3.0]), ("[1, 2, 3][:-2147483648]", []),
             ('"abc"[-2147483648:]', "abc"), ('"abc"[:-2147483648]', ""),
             ("std.slice([1, 2, 3], -2147483648, null, null)", [1.0, 2.0, 3.0]),
             ("[1, 2, 3][-2147483647:]", [1.0, 2.0, 3.0]), ("std.range(0, 4)[-2147483648:2147483647]", [0.0, 1.0, 2.0, 3.0, 4.0])]
    outs = core.run_harness(binary, "eval", [{"code": c} for c, _ in progs])
    for (code, want), o in zip(progs, outs):
        run.note_case("regress:" + code, True)
        run.count("slice-position-extreme")
        if "ok" in o and core.decanon(o["ok"]) == want:
            continue
        failures.append({"case": {"jsonnet": code, "request": {"code": code}}, "what": "slice with an extreme position",
                         "summary": f"C08 slice with an extreme position is not the clamped slice: {code}",
                         "expected": want, "got": o})
    return failures


# ------------------------------------------------------------------ the check
EXTRA = 3


def probe_program(ajs, pjs, n):
    """Jsonnet program: every observer applied to the view A and to the plain literal P"""
    return f"""local A = {ajs}; local P = {pjs};
{{
  len: std.length(A) == {n},
  eq: A == P, eq2: P == A, ne: !(A != P),
  lt: !(A < P), le: A <= P, ge: A >= P, cmp: std.__compare(A, P) == 0,
  iter: [x for x in A] == P,
  idx: [A[i] for i in std.range(0, {n} - 1)] == P,
  str: std.toString(A) == std.toString(P),
  json: std.manifestJsonMinified(A) == std.manifestJsonMinified(P),
  rev: std.reverse(A) == std.reverse(P),
  fold: std.foldl(function(a, x) a + [x], A, []) == P,
  foldr: std.foldr(function(x, a) [x] + a, A, []) == P,
  sl: A[1:] == P[1:], sl2: A[:-1] == P[:-1], sl3: A[::2] == P[::2],
  cat: A + A == P + P,
  cnt: std.length(std.filter(function(x) true, A)) == {n},
  member: if {n} > 0 then std.member(A, P[0]) else !std.member(A, 0),
  find: if {n} > 0 then std.find(P[{n} - 1], A) == std.find(P[{n} - 1], P) else true,
  join: std.join([], [A, A]) == P + P,
  flat: std.flattenArrays([A, [], A]) == P + P,
  val: A,
}}"""


def check(run, terrs):
    proofs_ok, detail = core.check_property_file(run, "C08")
    binary, err = core.build_harness(run)
    if not binary:
        run.obligation("harness.build", False, err)
        return core.conclude(run, False, err, [], [])
    failures, model_diffs = correspond(run, binary, enumerate_cases(run))
    failures += correspond_huge(run, binary)
    failures += correspond_accessors(run, binary)
    failures += probe_regressions(run, binary)
    run.trusted = TRUSTED
    run.assumptions = ASSUMPTIONS
    return core.conclude(
        run, proofs_ok, detail, failures, model_diffs,
        search=(lambda: search(run, binary)) if run.tier == "quick" else None,
        level="proof", rule=RULE)


def search(run, binary):
    """deeper enumeration used when an obligation or the correspondence broke"""
    src = [n for n, ok, _ in run.obligations if not ok and (n.startswith(SRC_PREFIX) or n == "translator.GenArr")]
    if src:
        # the hand model no longer equals the functions translated from arr/spec.rs + arr/mod.rs: probe every
        # view kind through all three accessors around the boundary indices first
        run.log(f"search: source-tie obligation(s) broke ({', '.join(src)[:200]}): targeted accessor probes")
        f = correspond_accessors(run, binary, deep=True)
        if f:
            return f
    run.log("search: thorough-scope enumeration")
    old = run.tier
    run.tier = "thorough"
    try:
        cases = enumerate_cases(run)[:40000]
    finally:
        run.tier = old
    f, _ = correspond(run, binary, cases)
    return f


def correspond(run, binary, cases):
    failures, model_diffs = [], []
    # dedupe
    seen, uniq = set(), []
    for c in cases:
        k = op_js(c)
        if k not in seen:
            seen.add(k)
            uniq.append(c)
    cases = uniq
    run.log(f"{len(cases)} distinct op trees")
    for c in cases:
        run.count(f"depth{depth(c)}")
        run.count(f"root:{c[0]}")
    # ---- model side
    model = core.coq_eval(IMPORTS, [f"(run_case {op_coq(c)} {EXTRA}%N, build_class {op_coq(c)})" for c in cases])
    reqs, meta = [], []
    for c, m in zip(cases, model):
        if isinstance(m, tuple) and m and m[0] == "ERROR":
            run.obligation("model.eval", False, str(m[1])[:300])
            continue
        obs_t, spec_t, cls = m  # Coq prints ((a, b), c) as (a, b, c)
        spec = [elem_py(e) for e in spec_t]
        obs = opt_py(obs_t, lambda p: (int(p[0]), [opt_py(x, elem_py) for x in p[1]]))
        ajs = op_js(c)
        n = len(spec)
        run.count("len0" if n == 0 else "len1-5" if n <= 5 else "len6-50" if n <= 50 else "len>50")
        base = len(reqs)
        reqs.append({"code": ajs, "arrprobe": EXTRA})
        reqs.append({"code": probe_program(ajs, js_lit(spec), n)})
        oob = [-2, -1, n, n + 1, n + 2]
        for i in oob:
            reqs.append({"code": f"({ajs})[{i}]"})
        reqs.append({"code": f"({ajs})[0.5]"})
        meta.append((c, ajs, spec, obs, int(cls), base, oob))
    run.log(f"model evaluated; {len(reqs)} harness requests")
    outs = core.run_harness(binary, "eval", reqs)
    run.log("harness done")
    for c, ajs, spec, obs, cls, base, oob in meta:
        nontrivial = depth(c) >= 1
        run.note_case(ajs, nontrivial)
        case = {"jsonnet": ajs, "op": repr(c)}
        n = len(spec)

        def fail(what, expected, got):
            failures.append({"case": case, "summary": f"C08 {what}: {ajs[:200]}", "what": what,
                             "expected": expected, "got": got})

        # (1) Rust-level probe
        o = outs[base]
        if "ok" not in o:
            fail("array expression did not evaluate", {"len": n}, o)
            continue
        pr = o["ok"]
        got_len = int(pr.get("len", -1))
        got_get = []
        for gx in pr.get("get", []):
            if gx is None:
                got_get.append(None)
            elif "v" in gx:
                got_get.append(("some", core.decanon(gx["v"])))
            else:
                got_get.append(("bad", gx))
        exp_get = [("some", x) for x in spec] + [None] * EXTRA
        if got_len != n:
            fail("length differs from the plain array", n, got_len)
        elif got_get != exp_get:
            bad = next(i for i, (a, b) in enumerate(zip(got_get, exp_get)) if a != b)
            fail(f"get({bad}) differs from the plain array (len {n})", exp_get[bad], got_get[bad])
        if obs is None:
            if cls == 0:
                model_diffs.append({"case": case, "model": "observe panicked", "code": pr})
        else:
            m_len, m_get = obs[1]
            if (m_len, m_get) != (got_len, got_get):
                model_diffs.append({"case": case, "model": [m_len, repr(m_get)[:300]],
                                    "code": [got_len, repr(got_get)[:300]]})
        # (2) observational equivalence
        o = outs[base + 1]
        if "ok" not in o:
            fail("observer program failed", "all observers true", o)
        else:
            d = dict(core.decanon(o["ok"])["__obj__"])
            val = d.pop("val")
            bad = sorted(k for k, v in d.items() if v is not True)
            if bad:
                fail(f"observers tell the view from the plain array: {bad}", "all true", bad)
            if val != spec:
                fail("manifested view differs from the plain array", spec[:20], val[:20])
        # (3) index expression out of bounds / fractional
        for j, i in enumerate(oob):
            o = outs[base + 2 + j]
            if o.get("err") != "ArrayBoundsError":
                fail(f"index [{i}] on an array of length {n} is not an out-of-bounds error", "ArrayBoundsError", o)
        o = outs[base + 2 + len(oob)]
        if o.get("err") not in ("FractionalIndex",):
            fail("fractional index accepted", "FractionalIndex", o)
        if len(run.samples) < 6 and nontrivial and n > 0:
            run.samples.append({"jsonnet": ajs, "model_op": op_coq(c), "len": n, "plain": spec[:8]})
    return failures, model_diffs


def replay(run, data):
    binary, err = core.build_harness(run)
    f = data.get("failure", {})
    code = f.get("case", {}).get("jsonnet")
    if not code:
        print(json.dumps(data, indent=1)[:3000])
        return 1
    req = f.get("case", {}).get("request") or {"code": code, "arrprobe": EXTRA}
    outs = core.run_harness(binary, "eval", [req])
    print("jsonnet :", code)
    print("expected:", f.get("expected"))
    print("was     :", f.get("got"))
    print("now     :", outs[0])
    return 0


RULE = ("op trees over {literal (6 construction routes), +, flattenArrays, slice (index and std.slice), "
        "reverse, repeat, range, makeArray, map, mapWithIndex, removeAt}: exhaustive depth-1 over a start/"
        "end/step grid and all leaf pairs for +, the 998..1001 concatenation-threshold family, random depth "
        "2-4; distinct = distinct Jsonnet expression; non-trivial = at least one view-producing operation")
TRUSTED = ["Coq 8.16.1 kernel incl. vm_compute (no native_compute)",
           "no axioms (all C08 theorems closed under the global context)",
           "translator/gen.py: ARR_EXTEND_THRESHOLD copied from arr/mod.rs",
           "correspondence: jrharness eval/arrprobe, vlib generators, Coq term printer/parser",
           "modelled not verified: element evaluation/laziness (C03), GC sharing, Vec-like "
           "representations (Eager/Lazy/Expr/Char/Bytes/PickObject*) as one bounds-checked vector"]
ASSUMPTIONS = ["impl-model transliterates arr/spec.rs + arr/mod.rs; tie = differential run on every check",
               "array sizes fit usize (theorem hypothesis wf/op_ok)"]
