"""C10 — stdlib array, set and higher-order functions match their reference definitions.

Part More (coq/theories/C10/ModelMore.v ...): 19 builtins over arrays of LAZY elements, see gen_lazy_cases /
correspond_lazy below.

Theorems: coq/theories/C10 (the merge loops of std.setUnion/setInter/setDiff, the binary search
of std.setMember, uniq, the sort-type classifier + stable sort, the flattenArrays tree, the join
loop and std.remove refine the documented definitions, for ALL lists and EVERY key function).
Correspondence: every generated call std.<f>(args) is (a) rendered to Jsonnet and evaluated by the
real code through `jrharness eval`, (b) rendered to a Gallina [call] and evaluated by coqc
(vm_compute) through [run_case] = (SPEC outcome, IMPL-MODEL outcome, judgement).
Judged against SPEC where the documentation determines the outcome, against the IMPL-MODEL
otherwise (non-set arguments, partial key functions ...).
"""
import json

from vlib import core

IMPORTS = ("From Coq Require Import List ZArith NArith.\nFrom JrV Require Import C10.Model.\n"
           "Import ListNotations.\n")

NEGZ = ("-0",)
OBJ = ("{}",)
ALPHABET = [0, 1, NEGZ, 2, "a", "b", None, True, [1], [1, 2], OBJ]


# ------------------------------------------------------------------ values
def v_js(v):
    if v is None:
        return "null"
    if v is True:
        return "true"
    if v is False:
        return "false"
    if v == NEGZ:
        return "-0"
    if v == OBJ:
        return "{}"
    if isinstance(v, int):
        return str(v) if v >= 0 else f"({v})"
    if isinstance(v, str):
        return json.dumps(v)
    if isinstance(v, list):
        return "[" + ", ".join(v_js(x) for x in v) + "]"
    raise ValueError(v)


def v_coq(v):
    if v is None:
        return "VNull"
    if v is True:
        return "(VBool true)"
    if v is False:
        return "(VBool false)"
    if v == NEGZ:
        return "VNegZero"
    if v == OBJ:
        return "VObj"
    if isinstance(v, int):
        return f"(VNum ({v})%Z)"
    if isinstance(v, str):
        return "(VStr [" + "; ".join(f"{ord(ch)}%N" for ch in v) + "])"
    if isinstance(v, list):
        return "(VArr [" + "; ".join(v_coq(x) for x in v) + "])"
    raise ValueError(v)


NEGZ_BITS = 1 << 63


def term_val(t):
    """Coq [val] term -> python value"""
    if t == "VNull":
        return None
    if t == "VNegZero":
        return NEGZ
    if t == "VObj":
        return OBJ
    if isinstance(t, core.App):
        a = t.args
        if t.name == "VBool":
            return a[0] is True
        if t.name == "VNum":
            return int(a[0])
        if t.name == "VStr":
            return "".join(chr(int(c)) for c in a[0])
        if t.name == "VArr":
            return [term_val(x) for x in a[0]]
    raise ValueError(f"bad val term {t!r}")


def canon_val(v):
    """python value -> canonical comparable form (numbers as IEEE bit patterns)"""
    if v is None or v is True or v is False or isinstance(v, str):
        return v
    if v == NEGZ:
        return ("n", NEGZ_BITS)
    if v == OBJ:
        return ("o", ())
    if isinstance(v, int):
        return ("n", core.float_to_bits(float(v)))
    if isinstance(v, list):
        return [canon_val(x) for x in v]
    raise ValueError(v)


def canon_harness(t):
    if isinstance(t, dict):
        if "#" in t:
            return ("n", int(t["#"]))
        if "o" in t:
            return ("o", tuple((k, canon_harness(x)) for k, x in t["o"]))
        return ("?", json.dumps(t, sort_keys=True))
    if isinstance(t, list):
        return [canon_harness(x) for x in t]
    return t


def term_out(t):
    """Coq [option out] term -> ('ok', canon) | ('err',)"""
    if t == "None":
        return ("err",)
    assert isinstance(t, core.App) and t.name == "Some", t
    o = t.args[0]
    if o.name == "OVal":
        return ("ok", canon_val(term_val(o.args[0])))
    if o.name == "OFrac":
        n, d = int(o.args[0]), int(o.args[1])
        return ("ok", ("n", core.float_to_bits(n / d)))     # one correctly rounded IEEE division
    raise ValueError(o)


def code_out(o):
    if "ok" in o:
        return ("ok", canon_harness(o["ok"]))
    if "err" in o:
        return ("err",)
    return ("crash", json.dumps(o)[:300])


# ------------------------------------------------------------------ function pool
FN_JS = {
    "FId": "function(x) x",
    "FIdSlow": "function(x) [x][0]",
    "FNeg": "function(x) -x",
    "FConst": "function(x) 7",
    "FMod2": 'function(x) if std.isNumber(x) then x % 2 else error "mod2"',
    "FFirst": "function(x) x[0]",
    "FToStr": "function(x) std.toString(x)",
    "FErr": 'function(x) error "boom"',
    "FWrap": "function(x) [x]",
    "FLen": "function(x) std.length(x)",
    "FTrue": "function(x) true",
    "FIsNum": "function(x) std.isNumber(x)",
    "FNotNull": "function(x) x != null",
    "FGt0": "function(x) x > 0",
    "FDup": "function(x) [x, x]",
    "FNullStr": "function(x) if std.isString(x) then null else [x]",
    "FStrDup": 'function(x) if std.isString(x) then x + x else error "strdup"',
    "FNullA": 'function(x) if x == "a" then null else x',
}
FN2_JS = {
    "F2Pair": "function(p, q) [p, q]",
    "F2Snoc": 'function(p, q) if std.isArray(p) then p + [q] else error "snoc"',
    "F2Cons": 'function(p, q) if std.isArray(q) then [p] + q else error "cons"',
    "F2Fst": "function(p, q) p",
    "F2Snd": "function(p, q) q",
    "F2ErrOne": 'function(p, q) if p == 1 || q == 1 then error "one" else [p, q]',
    "F2Err": 'function(p, q) error "boom"',
    "F2Add": 'function(p, q) if std.isNumber(p) && std.isNumber(q) then p + q else error "add"',
}
KEYS = [None, "FId", "FIdSlow", "FNeg", "FConst", "FMod2", "FFirst", "FToStr", "FErr", "FWrap", "FLen"]
PREDS = ["FTrue", "FIsNum", "FNotNull", "FGt0", "FId", "FErr", "FLen"]
MAPPERS = ["FId", "FNeg", "FConst", "FFirst", "FToStr", "FErr", "FWrap", "FLen", "FIsNum", "FDup", "FMod2"]
FLATMAPPERS = ["FDup", "FWrap", "FNullStr", "FId", "FStrDup", "FNullA", "FErr", "FToStr", "FFirst"]
FN2S = list(FN2_JS)


def k_coq(k):
    return "None" if k is None else f"(Some {k})"


def oz_coq(z):
    return "None" if z is None else f"(Some ({z})%Z)"


def ov_coq(v):
    return "None" if v == "absent" else f"(Some {v_coq(v)})"


def z_coq(z):
    return f"({z})%Z"


def z_js(z):
    return "null" if z is None else str(z)


# ------------------------------------------------------------------ calls
# a call is a tuple (name, args...); SIG gives the kind of each argument:
#   v value, k optional key function, f fn, g fn2, z integer, oz optional integer, ov optional value
SIG = {
    "CSort": ("sort", "vk"), "CUniq": ("uniq", "vk"), "CSet": ("set", "vk"),
    "CSetMember": ("setMember", "vvk"), "CSetUnion": ("setUnion", "vvk"),
    "CSetInter": ("setInter", "vvk"), "CSetDiff": ("setDiff", "vvk"),
    "CMember": ("member", "vv"), "CContains": ("contains", "vv"), "CFind": ("find", "vv"),
    "CCount": ("count", "vv"), "CRemove": ("remove", "vv"), "CRemoveAt": ("removeAt", "vz"),
    "CFlattenArrays": ("flattenArrays", "v"), "CFlattenDeep": ("flattenDeepArray", "v"),
    "CFoldl": ("foldl", "gvv"), "CFoldr": ("foldr", "gvv"), "CMap": ("map", "fv"),
    "CMapWithIndex": ("mapWithIndex", "gv"), "CFilter": ("filter", "fv"),
    "CFilterMap": ("filterMap", "ffv"), "CFlatMap": ("flatMap", "fv"), "CJoin": ("join", "vv"),
    "CLines": ("lines", "v"), "CDeepJoin": ("deepJoin", "v"), "CAny": ("any", "v"), "CAll": ("all", "v"),
    "CSum": ("sum", "v"), "CAvg": ("avg", "vO"), "CMinArray": ("minArray", "vkO"),
    "CMaxArray": ("maxArray", "vkO"), "CRange": ("range", "zz"), "CRepeat": ("repeat", "vz"),
    "CSlice": ("slice", "vZZZ"), "CMakeArray": ("makeArray", "zf"),
}


def call_coq(c):
    _, sig = SIG[c[0]]
    parts = []
    for kind, a in zip(sig, c[1:]):
        parts.append({"v": v_coq, "k": k_coq, "f": str, "g": str, "z": z_coq, "Z": oz_coq, "O": ov_coq}[kind](a))
    return "(" + c[0] + " " + " ".join(parts) + ")"


def call_js(c):
    name, sig = SIG[c[0]]
    parts = []
    for kind, a in zip(sig, c[1:]):
        if kind == "v":
            parts.append(v_js(a))
        elif kind == "k":
            if a is not None:
                parts.append("keyF=" + FN_JS[a])
        elif kind == "f":
            parts.append(FN_JS[a])
        elif kind == "g":
            parts.append(FN2_JS[a])
        elif kind == "z":
            parts.append(str(a))
        elif kind == "Z":
            parts.append(z_js(a))
        elif kind == "O":
            if a != "absent":
                parts.append("onEmpty=" + v_js(a))
    return f"std.{name}(" + ", ".join(parts) + ")"


def arr_arg_len(c):
    n = 0
    for kind, a in zip(SIG[c[0]][1], c[1:]):
        if kind == "v" and isinstance(a, (list, str)):
            n = max(n, len(a))
    return n


# ------------------------------------------------------------------ generators
NUMS = [0, 1, NEGZ, 2, 3, -1]
STRS = ["a", "b", "ab", "", "ba"]
SUB_ALPHABETS = [NUMS[:4], NUMS, STRS[:2], STRS, ALPHABET, ALPHABET, [[1], [1, 2], [0], [], [1, 1]],
                 [0, 1, NEGZ, 2, "a", "b"], [None, True, OBJ, 1]]


def rand_arr(rng, maxlen, alpha=None):
    alpha = alpha if alpha is not None else rng.choice(SUB_ALPHABETS)
    n = rng.below(maxlen + 1)
    return [rng.choice(alpha) for _ in range(n)]


def all_arrays(alpha, maxlen):
    out = [[]]
    frontier = [[]]
    for _ in range(maxlen):
        frontier = [a + [x] for a in frontier for x in alpha]
        out.extend(frontier)
    return out


def rand_nested(rng, depth):
    if depth == 0 or rng.chance(0.35):
        return rng.choice(ALPHABET)
    return [rand_nested(rng, depth - 1) for _ in range(rng.below(4))]


def gen_cases(run, binary_unused=None):
    thorough = run.tier == "thorough"
    rng = run.rng.fork("gen")
    L = 8 if thorough else 5
    mul = 8 if thorough else 1
    cases = []
    add = cases.append

    # ---- A. sort / uniq / set
    small = [0, NEGZ, 1, "a", None, [1], [1, 2]] if thorough else [0, NEGZ, 1, "a", None, [1]]
    for arr in all_arrays(small, 3):
        for fn in ("CSort", "CUniq", "CSet"):
            add((fn, arr, None))
    for arr in all_arrays([0, NEGZ, 1, 2], 4 if thorough else 3) + all_arrays(["a", "b", ""], 3):
        for fn in ("CSort", "CSet"):
            for k in ("FIdSlow", "FNeg", "FToStr"):
                add((fn, arr, k))
    for _ in range(500 * mul):
        add((rng.choice(["CSort", "CUniq", "CSet"]), rand_arr(rng, L), rng.choice(KEYS)))
    for bad in (3, "ab", None, OBJ):
        for fn in ("CSort", "CUniq", "CSet"):
            add((fn, bad, rng.choice(KEYS)))
    # long arrays: beyond the insertion-sort cut-off of Rust's sorts (20), ties that differ (0 / -0)
    for n in (21, 24, 33, 48, 64, 100):
        for k in (None, "FId", "FIdSlow", "FMod2"):
            arr = [rng.choice([0, NEGZ, 0, NEGZ, 1, 2, 3, -1, 5, -4]) for _ in range(n)]
            add(("CSort", arr, k))
            add(("CSet", arr, k))
        add(("CSort", [rng.choice(["a", "b", "ab", "", "c"]) for _ in range(n)], None))
        add(("CSort", [rng.choice([[1], [1, 2], [0], [], [2, 1]]) for _ in range(n)], rng.choice([None, "FLen", "FFirst"])))

    # ---- B. set operations: sets are made by the SPEC's own std.set (first Coq pass)
    raw = []
    set_keys = [None, "FId", "FIdSlow", "FNeg", "FMod2", "FFirst", "FToStr", "FWrap", "FLen", "FConst"]
    for k in set_keys:
        for _ in range(7 if not thorough else 16):
            alpha = rng.choice(SUB_ALPHABETS)
            raw.append((k, rand_arr(rng, L + 1, alpha), alpha))
        raw.append((k, [], ALPHABET))
    made = core.coq_eval(IMPORTS, [f"set_spec {k_coq(k)} {v_coq(a)[5:-1]}" for k, a, _ in raw])
    by_key = {}
    for (k, _a, alpha), t in zip(raw, made):
        if isinstance(t, core.App) and t.name == "Some":
            s = [term_val(x) for x in t.args[0]]
            by_key.setdefault(k, [])
            if (s, alpha) not in by_key[k]:
                by_key[k].append((s, alpha))
    for k, sets in by_key.items():
        for a, alpha in sets:
            for b, _ in sets:
                for fn in ("CSetUnion", "CSetInter", "CSetDiff"):
                    add((fn, a, b, k))
            for x in alpha + [rng.choice(ALPHABET)]:
                add(("CSetMember", x, a, k))
    for _ in range(400 * mul):      # arguments that are not sets, partial keys
        fn = rng.choice(["CSetUnion", "CSetInter", "CSetDiff"])
        alpha = rng.choice(SUB_ALPHABETS)
        add((fn, rand_arr(rng, L, alpha), rand_arr(rng, L, alpha), rng.choice(KEYS)))
    for _ in range(300 * mul):
        alpha = rng.choice(SUB_ALPHABETS)
        add(("CSetMember", rng.choice(alpha), rand_arr(rng, L, alpha), rng.choice(KEYS)))
    for fn in ("CSetUnion", "CSetInter", "CSetDiff"):
        add((fn, 1, [1], None))
        add((fn, [1], "a", None))
    add(("CSetMember", 1, "a", None))

    # ---- C. membership / find / count / remove / removeAt
    for _ in range(500 * mul):
        alpha = rng.choice(SUB_ALPHABETS)
        arr = rand_arr(rng, L, alpha)
        x = rng.choice(alpha if rng.chance(0.8) else ALPHABET)
        fn = rng.choice(["CMember", "CContains", "CFind", "CCount", "CRemove"])
        add((fn, x, arr) if fn == "CFind" else (fn, arr, x))
    for hay in ("", "a", "ab", "abab", "aab"):
        for nd in ("", "a", "b", "ab", "ba", "abab", "ababa", 1, None):
            add(("CMember", hay, nd))
            add(("CContains", hay, nd))
    for fn in ("CMember", "CContains", "CCount", "CRemove"):
        for bad in (3, None, OBJ):
            add((fn, bad, 1))
    add(("CFind", 1, "a"))
    add(("CFind", 1, 3))
    for n in range(0, L + 1):
        arr = [rng.choice(ALPHABET) for _ in range(n)]
        for at in range(-3, n + 4):
            add(("CRemoveAt", arr, at))
    add(("CRemoveAt", "abc", 1))

    # ---- D. flatten
    for _ in range(250 * mul):
        add(("CFlattenArrays", [rand_arr(rng, 3) for _ in range(rng.below(8))]))
    for _ in range(40):
        arrs = [rand_arr(rng, 2) for _ in range(rng.below(4))]
        arrs.insert(rng.below(len(arrs) + 1), rng.choice([None, 1, True, OBJ, "a"]))
        add(("CFlattenArrays", arrs))
    add(("CFlattenArrays", 3))
    for _ in range(200 * mul):
        add(("CFlattenDeep", rand_nested(rng, 3)))

    # ---- E. folds, maps, filters
    def items(rng):
        return rng.choice(STRS + ["abc"]) if rng.chance(0.15) else rand_arr(rng, L)
    for _ in range(500 * mul):
        f2 = rng.choice(FN2S)
        init = rng.choice([[], 0, "z", None, [9]]) if f2 not in ("F2Add",) else rng.choice([0, NEGZ, 5])
        add((rng.choice(["CFoldl", "CFoldr"]), f2, items(rng), init))
    for _ in range(350 * mul):
        add(("CMap", rng.choice(MAPPERS), items(rng)))
    for _ in range(250 * mul):
        add(("CMapWithIndex", rng.choice(FN2S), items(rng)))
    for _ in range(300 * mul):
        add(("CFilter", rng.choice(PREDS), rand_arr(rng, L)))
    for _ in range(250 * mul):
        add(("CFilterMap", rng.choice(PREDS), rng.choice(MAPPERS), rand_arr(rng, L)))
    for _ in range(300 * mul):
        add(("CFlatMap", rng.choice(FLATMAPPERS), items(rng)))
    for bad in (3, None, OBJ, True):
        add(("CFoldl", "F2Pair", bad, 0))
        add(("CFoldr", "F2Pair", bad, 0))
        add(("CMap", "FId", bad))
        add(("CMapWithIndex", "F2Pair", bad))
        add(("CFilter", "FTrue", bad))
        add(("CFilterMap", "FTrue", "FId", bad))
        add(("CFlatMap", "FWrap", bad))
    add(("CFilter", "FTrue", "ab"))
    add(("CFilterMap", "FTrue", "FId", "ab"))

    # ---- F. join / lines / deepJoin
    piece_pools = [["a", "b", "", None], [[1], [], [1, 2], None], ["a", None, [1], 1], ["a", "b"], [[0], [NEGZ]]]
    for _ in range(400 * mul):
        pool = rng.choice(piece_pools)
        sep = rng.choice([",", "", "ab", [], [0], ["s", None], 1, None, OBJ])
        add(("CJoin", sep, rand_arr(rng, L, pool)))
    for _ in range(150 * mul):
        add(("CLines", rand_arr(rng, L, rng.choice(piece_pools))))
    add(("CJoin", ",", "ab"))
    add(("CJoin", ",", 3))
    add(("CLines", "ab"))
    for _ in range(200 * mul):
        def dj(d):
            if d == 0 or rng.chance(0.4):
                return rng.choice(["a", "b", "", "ab"] + ([None, 1, OBJ] if rng.chance(0.15) else []))
            return [dj(d - 1) for _ in range(rng.below(4))]
        add(("CDeepJoin", dj(3)))

    # ---- G. any / all / sum / avg / minArray / maxArray
    for arr in all_arrays([True, False, None], 4):
        add(("CAny", arr))
        add(("CAll", arr))
    for bad in (3, "a", True):
        add(("CAny", bad))
        add(("CAll", bad))
    for arr in all_arrays([0, NEGZ, 1, -1], 3):
        add(("CSum", arr))
        add(("CAvg", arr, "absent"))
    for _ in range(300 * mul):
        arr = rand_arr(rng, L, rng.choice([NUMS, NUMS, [1, 2, 3, 5, -7, 100], [0, 1, "a"], [1, None, [1]]]))
        add(("CSum", arr))
        add(("CAvg", arr, rng.choice(["absent", "absent", 5, None, "e"])))
    add(("CSum", 3))
    add(("CAvg", "a", "absent"))
    for _ in range(500 * mul):
        add((rng.choice(["CMinArray", "CMaxArray"]), rand_arr(rng, L), rng.choice(KEYS),
             rng.choice(["absent", "absent", 5, None, [1]])))
    for arr in all_arrays([0, NEGZ, 1, [1], [1, 2]], 3):
        for fn in ("CMinArray", "CMaxArray"):
            add((fn, arr, rng.choice([None, "FLen", "FFirst", "FNeg"]) if arr and not isinstance(arr[0], int) else None, "absent"))
    add(("CMinArray", 3, None, "absent"))
    add(("CMaxArray", "ab", None, 1))

    # ---- H. range / repeat / slice / makeArray
    for a in range(-3, 5):
        for b in range(-3, 5):
            add(("CRange", a, b))
    for what in ([], [1], [1, "a"], "", "ab", "a", 3, None, OBJ):
        for n in range(-1, 4):
            add(("CRepeat", what, n))
    for _ in range(400 * mul):
        v = rng.choice(STRS + ["abcde", "abc"]) if rng.chance(0.35) else rand_arr(rng, L)
        n = len(v)
        pos = lambda: None if rng.chance(0.2) else rng.randint(-3, n + 3)  # noqa
        add(("CSlice", v, pos(), pos(), rng.choice([None, None, 1, 1, 2, 3, 0, -1])))
    # every (index, end, step) on one string / one array of 8, and on a string with multi-byte characters
    grid = [None] + list(range(-3, 11))
    for v in ("abcdefgh", [1, 2, 3, 4, 5, 6, 7, 8], "aé😀bcdz"):
        pts = grid if (mul > 1 or v == "abcdefgh") else [None, -2, 0, 1, 3, 4, 6, 9]
        for i in pts:
            for e in pts:
                for st in (None, 1, 2, 3, 5):
                    add(("CSlice", v, i, e, st))
    for bad in (3, None, OBJ):
        add(("CSlice", bad, 0, 1, 1))
    for n in range(-1, 5):
        for f in ("FId", "FNeg", "FConst", "FWrap", "FErr", "FLen", "FMod2", "FToStr"):
            add(("CMakeArray", n, f))
    return cases


# ------------------------------------------------------------------ part "More": arrays of lazy elements
# (coq/theories/C10/ModelMore.v).  An element is a value or ERR (`error "e"`: forcing it fails); a case is
# one call of LSIG; kinds: l lazy array, v value, h lfn2, f fn, k optional key function,
# E onEmpty ("absent" | ERR | value)
IMPORTS_MORE = ("From Coq Require Import List ZArith NArith.\nFrom JrV Require Import C10.Model C10.ModelMore.\n"
                "Import ListNotations.\n")
ERR = ("err",)
LFN2_JS = {
    "L2Fst": "function(p, q) p",
    "L2Snd": "function(p, q) q",
    "L2Add": 'function(p, q) if std.isNumber(p) && std.isNumber(q) then p + q else error "add"',
    "L2Err": 'function(p, q) error "boom"',
}
LFM_JS = {
    "LMWrap": "function(x) [x]",
    "LMDup": "function(x) [x, x]",
    "LMEmpty": "function(x) []",
    "LMErrElem": 'function(x) [error "boom"]',
    "LMIfNum": "function(x) if std.isNumber(x) then [x] else []",
    "LMErr": 'function(x) error "boom"',
    "LMNum": "function(x) 1",
}
# calls outside the value universe of the model (results with lazy elements inside values), and the
# reproducers of the fixed findings: (Jsonnet, expected canonical JSON value)
LAZY_REGRESSIONS = [
    ('std.foldl(function(p, q) p, [error "x"], 0)', 0),                                   # 762ca42
    ('std.foldr(function(p, q) q, [error "x"], 0)', 0),                                   # 762ca42
    ('std.length(std.foldl(function(a, b) a + [b], [error "x"], []))', 1),                # 762ca42
    ('std.length(std.foldr(function(a, b) b + [a], [error "x", error "y"], []))', 2),     # 762ca42
    ('std.map(function(x) 7, [error "x"])[0]', 7),                                        # 9dc676b
    ('std.mapWithIndex(function(i, x) i, [error "x", error "y"])', [0, 1]),               # 9dc676b
    ('std.filterMap(function(x) true, function(x) 7, [error "x"])', [7]),                 # 9dc676b
    ('std.length(std.flatMap(function(x) [error "boom"], [1]))', 1),                      # 9d0c0a4
    ('std.length(std.flatMap(function(x) [x, x], [error "x"]))', 2),                      # 9d0c0a4
    ('std.flatMap(function(x) [1], [error "x"])', [1]),                                   # 9d0c0a4
]
LSIG = {
    "LAny": ("any", "l"), "LAll": ("all", "l"), "LCount": ("count", "lv"), "LMember": ("member", "lv"),
    "LContains": ("contains", "lv"), "LFind": ("find", "vl"), "LRemove": ("remove", "lv"),
    "LFoldl": ("foldl", "hlv"), "LFoldr": ("foldr", "hlv"), "LMap": ("map", "fl"), "LReverse": ("reverse", "l"),
    "LMapWithIndex": ("mapWithIndex", "hl"), "LFilter": ("filter", "fl"), "LFilterMap": ("filterMap", "ffl"),
    "LFlatMap": ("flatMap", "ml"),
    "LMinArray": ("minArray", "lkE"), "LMaxArray": ("maxArray", "lkE"),
    "LStartsWith": ("startsWith", "ll"), "LEndsWith": ("endsWith", "ll"),
}
L_ARRAY_RESULT = ("LRemove", "LMap", "LReverse", "LMapWithIndex", "LFilter", "LFilterMap", "LFlatMap")
KNOWN_IDS = {1: "C10-member-remove-stop-at-first-match", 2: "C10-callback-element-forced",
             3: "C10-minarray-first-key-not-compared"}


def le_js(e):
    return 'error "e"' if e == ERR else v_js(e)


def le_coq(e):
    return "None" if e == ERR else f"(Some {v_coq(e)})"


def ll_js(l):
    return "[" + ", ".join(le_js(e) for e in l) + "]"


def ll_coq(l):
    return "[" + "; ".join(le_coq(e) for e in l) + "]"


def lcall_coq(c):
    parts = []
    for kind, a in zip(LSIG[c[0]][1], c[1:]):
        if kind == "l":
            parts.append(ll_coq(a))
        elif kind == "v":
            parts.append(v_coq(a))
        elif kind in "hfm":
            parts.append(a)
        elif kind == "k":
            parts.append(k_coq(a))
        elif kind == "E":
            parts.append("None" if a == "absent" else f"(Some {le_coq(a)})")
    return "(" + c[0] + " " + " ".join(parts) + ")"


def lcall_js(c):
    name, sig = LSIG[c[0]]
    parts = []
    for kind, a in zip(sig, c[1:]):
        if kind == "l":
            parts.append(ll_js(a))
        elif kind == "v":
            parts.append(v_js(a))
        elif kind == "h":
            parts.append(LFN2_JS[a])
        elif kind == "m":
            parts.append(LFM_JS[a])
        elif kind == "f":
            parts.append(FN_JS[a])
        elif kind == "k":
            if a is not None:
                parts.append("keyF=" + FN_JS[a])
        elif kind == "E":
            if a != "absent":
                parts.append("onEmpty=" + le_js(a))
    return f"std.{name}(" + ", ".join(parts) + ")"


def term_lout(t):
    """Coq [option lout] -> ('err',) | ('ok', canon) | ('ok', ('A', [('ok', canon) | ('err',) ...]))"""
    if t == "None":
        return ("err",)
    assert isinstance(t, core.App) and t.name == "Some", t
    o = t.args[0]
    if o.name == "LV":
        return ("ok", canon_val(term_val(o.args[0])))
    if o.name == "LA":
        return ("ok", ("A", [("err",) if e == "None" else ("ok", canon_val(term_val(e.args[0]))) for e in o.args[0]]))
    raise ValueError(o)


def gen_lazy_cases(run):
    thorough = run.tier == "thorough"
    rng = run.rng.fork("gen-lazy")
    mul = 6 if thorough else 1
    L = 6 if thorough else 4
    cases = []
    add = cases.append
    E3 = all_arrays([1, 2, ERR], 3)
    E2 = all_arrays([1, 2, ERR], 2)
    pools = [[1, 2, ERR], [1, "a", [1], ERR], [0, NEGZ, 1, ERR], [1, 2, 3], ["a", "b", ERR, "a"],
             [[1], [1, 2], [], ERR], [None, True, OBJ, 1, ERR]]

    def larr(maxlen=None, pool=None):
        pool = pool if pool is not None else rng.choice(pools)
        return [rng.choice(pool) for _ in range(rng.below((maxlen or L) + 1))]

    # any / all: every array over {true, false, failing, non-boolean} up to length 3 (4 thorough)
    for arr in all_arrays([True, False, ERR, 1], 4 if thorough else 3):
        add(("LAny", arr))
        add(("LAll", arr))
    # scans with equality: every array over {1, 2, failing} up to length 3, looking for 1
    for arr in E3:
        for fn in ("LCount", "LMember", "LContains", "LRemove"):
            add((fn, arr, 1))
        add(("LFind", 1, arr))
        add(("LReverse", arr))
    for _ in range(120 * mul):
        pool = rng.choice(pools)
        arr = larr(pool=pool)
        x = rng.choice([e for e in pool if e != ERR] + [rng.choice(ALPHABET)])
        fn = rng.choice(["LCount", "LMember", "LContains", "LRemove", "LFind"])
        add((fn, x, arr) if fn == "LFind" else (fn, arr, x))
    # folds: every function of the pool on every array over {1, 2, failing} up to length 3
    for arr in E3:
        for f in LFN2_JS:
            add(("LFoldl", f, arr, 0))
            add(("LFoldr", f, arr, 0))
    for _ in range(60 * mul):
        add((rng.choice(["LFoldl", "LFoldr"]), rng.choice(list(LFN2_JS)), larr(), rng.choice([0, 5, "z", None])))
    for arr in E2 + [larr() for _ in range(20 * mul)]:
        for f in ("FConst", "FId", "FNeg", "FErr", "FTrue", "FLen"):
            add(("LMap", f, arr))
    # mapWithIndex / filter / filterMap / flatMap: which elements are forced, what stays a thunk
    LPREDS = ["FTrue", "FIsNum", "FErr", "FGt0", "FNotNull", "FConst"]
    for arr in E2 + [larr(3, [1, "a", ERR, 0]) for _ in range(12 * mul)]:
        for f in LFN2_JS:
            add(("LMapWithIndex", f, arr))
        for pr in LPREDS:
            add(("LFilter", pr, arr))
        for g in LFM_JS:
            add(("LFlatMap", g, arr))
    for arr in E3:
        add(("LFilter", "FTrue", arr))
        add(("LFilter", "FIsNum", arr))
        add(("LFlatMap", rng.choice(list(LFM_JS)), arr))
    for _ in range(100 * mul):
        add(("LFilterMap", rng.choice(LPREDS), rng.choice(["FConst", "FId", "FNeg", "FErr", "FLen"]),
             larr(3, rng.choice([[1, 2, ERR], [1, "a", ERR, 0], [1, -1, 0]]))))
    # minArray / maxArray: ties (the first extreme element wins), failing elements, onEmpty, keys that do not compare
    for arr in E3:
        for fn in ("LMinArray", "LMaxArray"):
            add((fn, arr, None, rng.choice(["absent", ERR, 5])))
    for oe in ("absent", ERR, 5, None):
        for k in (None, "FNeg", "FErr", "FConst"):
            add(("LMinArray", [], k, oe))
            add(("LMaxArray", [], k, oe))
    tops = [[1, 2, 3, 2, 1, 3], [0, NEGZ, 1, -1], ["a", "b", "ab", "", "b"], [[1], [1, 2], [0], [], [1, 1], [2]],
            [None, True, OBJ, 1, "a"], [1, 2, ERR], [[1], [0, 5], ERR, [0]]]
    for _ in range(250 * mul):
        pool = rng.choice(tops)
        arr = [rng.choice(pool) for _ in range(rng.below(L + 2))]
        k = rng.choice([None, None, "FId", "FNeg", "FConst", "FErr", "FLen", "FFirst", "FMod2", "FToStr"])
        add((rng.choice(["LMinArray", "LMaxArray"]), arr, k, rng.choice(["absent", "absent", ERR, 5])))
    for v in (None, True, False, OBJ, 1, "a", [1], [None], ERR):      # one element: nothing to compare with but itself
        for k in (None, "FNeg", "FConst", "FLen", "FWrap"):
            add(("LMinArray", [v], k, "absent"))
            add(("LMaxArray", [v], k, "absent"))
    # startsWith / endsWith on arrays: every pair up to length 2, random longer pairs
    for a in E2:
        for b in E2:
            add(("LStartsWith", a, b))
            add(("LEndsWith", a, b))
    for _ in range(150 * mul):
        pool = rng.choice(pools[:4])
        a = larr(pool=pool)
        if rng.chance(0.6) and a:       # b = a prefix / suffix of a, possibly with one element changed
            n = rng.below(len(a) + 1)
            fn = rng.choice(["LStartsWith", "LEndsWith"])
            b = list(a[:n] if fn == "LStartsWith" else a[len(a) - n:])
            if b and rng.chance(0.4):
                b[rng.below(len(b))] = rng.choice(pool)
        else:
            fn = rng.choice(["LStartsWith", "LEndsWith"])
            b = larr(pool=pool)
        add((fn, a, b))
    return cases


def correspond_lazy(run, binary, cases):
    failures, model_diffs = [], []
    seen, uniq = set(), []
    for c in cases:
        key = lcall_js(c)
        if key not in seen:
            seen.add(key)
            uniq.append(c)
    cases = uniq
    run.log(f"{len(cases)} distinct calls on lazy arrays")
    groups = [cases[i:i + MODEL_BATCH] for i in range(0, len(cases), MODEL_BATCH)]
    res = core.coq_eval(IMPORTS_MORE, ["[" + "; ".join(f"lrun_case {lcall_coq(c)}" for c in g) + "]" for g in groups])
    model = []
    for g, r in zip(groups, res):
        if isinstance(r, list) and len(r) == len(g):
            model.extend(r)
        else:
            model.extend(core.coq_eval(IMPORTS_MORE, [f"lrun_case {lcall_coq(c)}" for c in g]))
    # code: one request per scalar call; an array result is observed by its length and by each element
    plan, reqs = [], []
    for c, m in zip(cases, model):
        js = lcall_js(c)
        if isinstance(m, tuple) and m and m[0] == "ERROR":
            plan.append(None)
            continue
        spec, impl = term_lout(m[0]), term_lout(m[1])
        if c[0] in L_ARRAY_RESULT:
            n = max([len(o[1][1]) for o in (spec, impl) if o[0] == "ok"] + [0])
            plan.append((len(reqs), n))
            reqs.append({"code": f"std.length({js})"})
            reqs.extend({"code": f"({js})[{i}]"} for i in range(n))
        else:
            plan.append((len(reqs), None))
            reqs.append({"code": js})
    SEQ = 40
    packed = [{"seq": reqs[i:i + SEQ]} for i in range(0, len(reqs), SEQ)]
    outs = []
    for r in core.run_harness(binary, "eval", packed):
        got = r.get("seq") if isinstance(r, dict) else None
        outs.extend(got if isinstance(got, list) else [r])
    if len(outs) != len(reqs):
        run.obligation("harness.lazy", False, f"{len(outs)} answers for {len(reqs)} requests")
        return failures, model_diffs
    run.count("harness:lazy-requests", len(reqs))
    regs = core.run_harness(binary, "eval", [{"seq": [{"code": c} for c, _ in LAZY_REGRESSIONS]}])
    regs = regs[0].get("seq") if regs and isinstance(regs[0], dict) and isinstance(regs[0].get("seq"), list) else []
    if len(regs) != len(LAZY_REGRESSIONS):
        run.obligation("harness.lazy-regressions", False, f"{len(regs)} answers")
    for (code, want), o in zip(LAZY_REGRESSIONS, regs):
        got = code_out(o)
        exp = ("ok", canon_val(want))
        run.note_case(code, True)
        run.count("lazy:regression")
        if got != exp:
            failures.append({"case": {"jsonnet": code}, "what": "regression of a fixed laziness finding",
                             "summary": f"C10 result differs from the documented definition: {code}",
                             "expected": repr(exp), "got": repr(got)[:300]})
    for c, m, pl in zip(cases, model, plan):
        js = lcall_js(c)
        if pl is None:
            run.obligation("model.eval", False, f"{lcall_coq(c)[:200]}: {str(m[1])[:300]}")
            continue
        spec, impl, known = term_lout(m[0]), term_lout(m[1]), int(m[2])
        at, n = pl
        if n is None:
            got = code_out(outs[at])
        else:
            ln = code_out(outs[at])
            if ln[0] != "ok":
                got = ln
            else:
                want = core.float_to_bits(float(n))
                if ln[1] != ("n", want):
                    got = ("ok", ("A-length", ln[1]))
                else:
                    els = [code_out(o) for o in outs[at + 1:at + 1 + n]]
                    crash = [e for e in els if e[0] == "crash"]
                    got = crash[0] if crash else ("ok", ("A", els))
        nfail = sum(1 for kind, a in zip(LSIG[c[0]][1], c[1:]) if kind == "l" for e in a if e == ERR)
        nlen = max(len(a) for kind, a in zip(LSIG[c[0]][1], c[1:]) if kind == "l")
        run.note_case(js, nlen >= 2)
        run.count("fn:" + LSIG[c[0]][0] + "(lazy)")
        run.count("lazy:failing-elements=" + ("0" if nfail == 0 else "1" if nfail == 1 else "2+"))
        run.count("lazy:len0" if nlen == 0 else "lazy:len1" if nlen == 1 else "lazy:len2+")
        run.count("lazy:known-class=" + str(known))
        run.count("outcome:" + ("error" if spec == ("err",) else "value"))
        case = {"jsonnet": js, "model_call": lcall_coq(c)}

        def fail(what, expected, **kw):
            d = {"case": case, "summary": f"C10 {what}: {js[:220]}", "what": what,
                 "expected": repr(expected)[:400], "got": repr(got)[:400]}
            d.update(kw)
            failures.append(d)

        if got[0] == "crash":
            fail("the call panicked / aborted instead of returning a value or an error", spec)
        elif known == 0 or impl == spec:
            if got != spec:
                fail("result differs from the documented definition", spec)
        elif got == impl:
            fail("known deviation from the documented definition", spec, known=KNOWN_IDS[known])
        elif got == spec:
            model_diffs.append({"case": case, "model": repr(impl)[:300], "code": repr(got)[:300],
                                "note": f"known finding {KNOWN_IDS[known]} no longer reproduces: the code now "
                                        "follows the definition here; the impl-model and the finding are stale"})
        else:
            fail("result differs from the documented definition and from the known deviation", spec)
        if len(run.samples) < 14 and nfail and run.evaluations % 211 == 0:
            run.samples.append({"jsonnet": js, "model_call": lcall_coq(c), "spec": repr(spec)[:200]})
    return failures, model_diffs


# ------------------------------------------------------------------ the check
MODEL_BATCH = 20


def eval_model(cases):
    """[run_case c] for every case, MODEL_BATCH cases per `Eval vm_compute` (one list); a batch that
    does not come back as a list of the right length is re-evaluated case by case."""
    groups = [cases[i:i + MODEL_BATCH] for i in range(0, len(cases), MODEL_BATCH)]
    res = core.coq_eval(IMPORTS, ["[" + "; ".join(f"run_case {call_coq(c)}" for c in g) + "]" for g in groups])
    out, redo = [None] * len(cases), []
    for gi, (g, r) in enumerate(zip(groups, res)):
        if isinstance(r, list) and len(r) == len(g):
            for j, x in enumerate(r):
                out[gi * MODEL_BATCH + j] = x
        else:
            redo.extend(range(gi * MODEL_BATCH, gi * MODEL_BATCH + len(g)))
    if redo:
        single = core.coq_eval(IMPORTS, [f"run_case {call_coq(cases[i])}" for i in redo])
        for i, x in zip(redo, single):
            out[i] = x
    return out


def correspond(run, binary, cases):
    failures, model_diffs = [], []
    seen, uniq = set(), []
    for c in cases:
        key = call_js(c)
        if key not in seen:
            seen.add(key)
            uniq.append(c)
    cases = uniq
    run.log(f"{len(cases)} distinct calls")
    model = eval_model(cases)
    run.log("model evaluated")
    outs = run_code(run, binary, cases, model)
    run.log("harness done")
    for c, m, o in zip(cases, model, outs):
        js = call_js(c)
        if isinstance(m, tuple) and m and m[0] == "ERROR":
            run.obligation("model.eval", False, f"{call_coq(c)[:200]}: {str(m[1])[:300]}")
            continue
        spec_t, impl_t, judge = m
        spec, impl, got = term_out(spec_t), term_out(impl_t), code_out(o)
        n = arr_arg_len(c)
        run.note_case(js, n >= 2 or c[0] in ("CRange", "CRepeat", "CMakeArray", "CFlattenDeep", "CDeepJoin"))
        run.count("fn:" + SIG[c[0]][0])
        run.count("len0" if n == 0 else "len1" if n == 1 else "len2-5" if n <= 5 else "len6-8" if n <= 8 else "len>8")
        run.count("judge:" + judge)
        run.count("outcome:" + ("error" if spec == ("err",) else "value"))
        case = {"jsonnet": js, "model_call": call_coq(c)}

        def fail(what, expected, **kw):
            d = {"case": case, "summary": f"C10 {what}: {js[:220]}", "what": what,
                 "expected": repr(expected)[:400], "got": repr(got)[:400]}
            d.update(kw)
            failures.append(d)

        if got[0] == "crash":
            fail("the call panicked / aborted instead of returning a value or an error", spec)
            continue
        if judge == "JSkip":
            continue
        if judge == "JModel":
            if got != impl:
                model_diffs.append({"case": case, "model": repr(impl)[:300], "code": repr(got)[:300],
                                    "note": "outside the documented domain; code vs impl-model"})
            continue
        if got != spec:
            fail("result differs from the documented definition", spec)
        elif got != impl:
            model_diffs.append({"case": case, "model": repr(impl)[:300], "code": repr(got)[:300]})
        if len(run.samples) < 10 and n >= 2 and run.evaluations % 97 == 0:
            run.samples.append({"jsonnet": js, "model_call": call_coq(c), "spec": repr(spec)[:200]})
    return failures, model_diffs


BATCH = 24


def run_code(run, binary, cases, model):
    """Evaluate every call with the real code.  Calls the model expects to return a value are
    evaluated BATCH at a time as one array (one interpreter start-up per batch); a batch that does
    not come back as an array of the right length is re-run call by call, as are all calls expected
    to fail."""
    outs = [None] * len(cases)
    expect_ok, single = [], []
    for i, m in enumerate(model):
        ok = False
        if not (isinstance(m, tuple) and m and m[0] == "ERROR"):
            spec_t, impl_t, judge = m
            ok = (impl_t if judge == "JModel" else spec_t) != "None"
        (expect_ok if ok else single).append(i)
    batches = [expect_ok[j:j + BATCH] for j in range(0, len(expect_ok), BATCH)]
    res = core.run_harness(binary, "eval",
                           [{"code": "[" + ",\n".join(call_js(cases[i]) for i in b) + "]"} for b in batches])
    for b, r in zip(batches, res):
        if isinstance(r, dict) and isinstance(r.get("ok"), list) and len(r["ok"]) == len(b):
            for i, x in zip(b, r["ok"]):
                outs[i] = {"ok": x}
        else:
            single.extend(b)
    run.count("harness:batched", sum(1 for o in outs if o is not None))
    run.count("harness:single", len(single))
    res = core.run_harness(binary, "eval", [{"code": call_js(cases[i])} for i in single])
    for i, r in zip(single, res):
        outs[i] = r
    return outs


def check(run, terrs):
    proofs_ok, detail = core.check_property_file(run, "C10")
    binary, err = core.build_harness(run)
    if not binary:
        run.obligation("harness.build", False, err)
        return core.conclude(run, False, err, [], [])
    failures, model_diffs = correspond(run, binary, gen_cases(run))
    f2, d2 = correspond_lazy(run, binary, gen_lazy_cases(run))
    failures, model_diffs = failures + f2, model_diffs + d2
    run.trusted = TRUSTED
    run.assumptions = ASSUMPTIONS
    return core.conclude(
        run, proofs_ok, detail, failures, model_diffs,
        search=(lambda: search(run, binary)) if run.tier == "quick" else None,
        level="proof", rule=RULE)


SRC_OBLIGATIONS = ("translator.GenSets", "C10.C10_model_is_translated_source", "C10.C10_translated_")


def source_tie_cases():
    """small sorted sets (and a few non-sets) for the merges whose translated text no longer equals the hand
    model: all pairs of duplicate-free ascending subsets of {0,1,2,3} (empty sides included), key functions that
    tie / reverse / fail on the same arrays, removeAt at every index -2..len+2 of arrays with distinct elements"""
    import itertools
    cases = []
    subsets = [list(c) for n in range(0, 5) for c in itertools.combinations([0, 1, 2, 3], n)]
    for a in subsets:
        for b in subsets:
            for fn in ("CSetUnion", "CSetInter", "CSetDiff"):
                cases.append((fn, a, b, None))
    small = [list(c) for n in range(0, 4) for c in itertools.combinations([0, 1, 2], n)]
    for k in ("FMod2", "FNeg", "FConst", "FId", "FErr"):
        for a in small:
            for b in small:
                for fn in ("CSetUnion", "CSetInter", "CSetDiff"):
                    cases.append((fn, a, b, k))
                    if k == "FNeg":
                        cases.append((fn, a[::-1], b[::-1], k))
    for n in range(0, 6):
        arr = list(range(n))
        for at in range(-2, n + 3):
            cases.append(("CRemoveAt", arr, at))
    return cases


def search(run, binary):
    src = [n for n, ok, _ in run.obligations if not ok and n.startswith(SRC_OBLIGATIONS)]
    if src:
        # the text translated from sets.rs / arrays.rs no longer equals the hand model (or could not be translated):
        # look for a concrete call where the code leaves the reference definition
        run.log(f"search: source-tie obligation(s) broke ({', '.join(src)[:200]}): targeted set / removeAt probes")
        f, _ = correspond(run, binary, source_tie_cases())
        if f:
            return f
    run.log("search: thorough-scope enumeration")
    old = run.tier
    run.tier = "thorough"
    try:
        cases = gen_cases(run)
    finally:
        run.tier = old
    run.rng.fork("search").shuffle(cases)      # every family stays represented under the cap
    cases = cases[:25000]
    f, _ = correspond(run, binary, cases)
    old = run.tier
    run.tier = "thorough"
    try:
        lazy = gen_lazy_cases(run)
    finally:
        run.tier = old
    f2, _ = correspond_lazy(run, binary, lazy)
    return f + f2


def replay(run, data):
    binary, err = core.build_harness(run)
    f = data.get("failure", {})
    code = f.get("case", {}).get("jsonnet")
    if not code:
        print(json.dumps(data, indent=1)[:3000])
        return 1
    outs = core.run_harness(binary, "eval", [{"code": code}])
    print("jsonnet :", code)
    print("expected:", f.get("expected"))
    print("was     :", f.get("got"))
    print("now     :", code_out(outs[0]))
    return 0


RULE = ("one case = one call std.<f>(args) of the 35 functions named by the property; arrays (strings where "
        "accepted) of length 0..5 (thorough 0..8) over {0,1,-0,2,\"a\",\"b\",null,true,[1],[1,2],{}} and sub-"
        "alphabets, with duplicates; exhaustive length<=3 for sort/uniq/set/any/all/sum/avg; sets built by the "
        "SPEC's std.set and all pairs per key function; index arguments -3..len+3; key / predicate / map / fold "
        "functions from a pool of 18+8; arrays of 21..100 elements for the sort paths; distinct = distinct "
        "Jsonnet call text; non-trivial = an array/string argument of length >= 2 (or range/repeat/makeArray/"
        "flattenDeepArray/deepJoin); PART MORE: one case = one call of any/all/count/member/contains/find/remove/"
        "foldl/foldr/map/reverse/minArray/maxArray/startsWith/endsWith on arrays whose elements may be `error`: "
        "exhaustive to length 3 over {1, 2, failing} (any/all: {true, false, failing, 1}), all pairs to length 2 for "
        "startsWith/endsWith, random arrays to length 4 (thorough 6) over 7 pools, ties and incomparable first keys "
        "for minArray/maxArray with 9 key functions and onEmpty absent/failing/value; an array result is observed "
        "by std.length and element by element; non-trivial = an array of length >= 2")
TRUSTED = ["Coq 8.16.1 kernel incl. vm_compute (no native_compute)",
           "no axioms (all C10 theorems closed under the global context)",
           "SPEC = my reading of the std.jsonnet reference definitions (written from memory; network sealed)",
           "Rust's slice::sort_by / sort_by_key are stable sorts (modelled by insertion sort; "
           "C10_stable_sort_unique shows any stable sort gives the same list)",
           "correspondence: jrharness eval, vlib generators, Coq term printer/parser, the Jsonnet text of the "
           "function pool (FN_JS/FN2_JS) vs Model.apply/apply2 — itself exercised by the std.map/foldl cases",
           "IEEE division of std.avg done by Python on the exact quotient the model returns"]
ASSUMPTIONS = ["impl-model transliterates sets.rs / sort.rs / arrays.rs loops; tie = differential run on every check; "
               "for builtin_set_union, builtin_set_diff and builtin_remove_at additionally a SOURCE tie: "
               "translator/gens/setops.py turns their statements into Gen/GenSets.v on every run and "
               "C10_model_is_translated_source_{union,diff,remove_at} prove translated = hand model for all inputs "
               "(setInter is translated and run in an Example, its equality is not proved yet; setMember and "
               "get_sort_type are not translated)",
               "source tie vocabulary (fixed text of the translator, trusted): iterators as remaining lists, "
               "Option::map(keyF).transpose()?, expect = panic, checked i32 `+`, `as usize`, ArrValue::slice's clamps "
               "(whose three arms the translator pins in arr/mod.rs); a while loop = sloop with fuel 1+|a|+|b|, shown "
               "never to run out",
               "numbers in cases are small integers (number equality / comparison semantics are C09's)",
               "part More: an element is a value or a failure (which elements are forced is judged; sharing and "
               "evaluation counts are C03's); everywhere else values are fully evaluated",
               "part More judges a call inside a known class (Coq: lknown) against the impl-model; if the code "
               "follows the definition there, the finding is stale and the check fails",
               "calls whose outcome the documentation leaves open (non-set arguments of set functions, key "
               "functions undefined on an element, sums over strings, null from an array flatMap function) are "
               "compared with the impl-model only"]
