"""Shared code of the C19 / C20 checks (formatter preserves the program; formatter is
idempotent and never crashes).

* ProgGen: valid Jsonnet programs as ENTRY LISTS: tokens (str) and explicit slot marks
  ("slot", tag).  A slot mark names a token boundary the formatter's list printers visit
  (between the children of an array / object / argument list / multi-binding local, and
  file start / end); every other boundary is an "inner" boundary.
* decorate(): puts //, #, /* */, /** */ comments (each with a unique id) at token boundaries.
* judge(): the per-case verdicts from one `jrharness fmt` answer.
* python port of the block-comment printer (tied to the Coq model on every run) used only to
  CLASSIFY failures as known findings.
"""
import json
import re

from vlib import core

INDENTS = [0, 2, 4]

BINOPS = ["*", "/", "%", "+", "-", "<<", ">>", "<", ">", "<=", ">=", "==", "!=", "in", "&", "^", "|", "&&", "||"]
UNOPS = ["-", "!", "~", "+"]
IDS = ["a", "b", "c", "x", "y", "zz", "foo", "bar_1", "_q"]


def slot(tag):
    return ("slot", tag)


class ProgGen:
    """Token-level generator; `features` counts the constructs used (evidence)."""

    def __init__(self, rng, max_depth=4, risky=(), weird_strings=True):
        """risky: which constructs with KNOWN formatter defects may be used:
        unary, uplus, tailstrict, localn (multi-binding local), multispec (object comprehension
        with several for/if), tab (tab inside a text block line)"""
        self.rng = rng
        self.max_depth = max_depth
        # unary operators, tailstrict, multi-binding locals and `+:` function fields were
        # disabled while the formatter corrupted them (fixed by fd80c63, 36da7c4, d7f7e14,
        # 800ddf4); they are part of every stream again
        self.risky = set(risky) | {"unary", "tailstrict", "localn"}
        self.uplus = "uplus" in self.risky
        self.weird = weird_strings
        self.features = {}

    def note(self, k):
        self.features[k] = self.features.get(k, 0) + 1

    def ident(self):
        return self.rng.choice(IDS)

    def number(self):
        return self.rng.choice(["0", "1", "2", "42", "1.5", "1e3", "0.25", "1_000", "7"])

    def string(self):
        r = self.rng
        k = r.below(10 if self.weird else 5)
        self.note("string")
        if k == 0:
            return '"s%d"' % r.below(9)
        if k == 1:
            return "'t%d'" % r.below(9)
        if k == 2:
            return '"a\\nb\\"c\\u0041"'
        if k == 3:
            return "'it\\'s'"
        if k == 4:
            return '""'
        if k == 5:
            self.note("string:verbatim")
            return '@"v ""q"" \\n"'
        if k == 6:
            self.note("string:verbatim")
            return "@'w ''q'' x'"
        if k in (7, 8):
            return self.text_block()
        self.note("string:unicode")
        return '"é中"'

    def text_block(self):
        r = self.rng
        self.note("string:textblock")
        ind = r.choice(["  ", "    ", "\t", " "])
        lines = []
        for _ in range(r.randint(1, 3)):
            c = r.below(6)
            if c == 0:
                lines.append("")
                self.note("textblock:blank-line")
            elif c == 1 and "tab" in self.risky:
                lines.append(ind + "col\tumn")
                self.note("textblock:tab")
            elif c == 2 and r.chance(0.5):
                # whitespace-only content: part of the string value, unlike a truly empty line
                lines.append(ind + r.choice(["  ", " ", ""]))
                self.note("textblock:whitespace-only-line")
            elif c == 2 and r.chance(0.5):
                lines.append(ind + "trailing  ")
                self.note("textblock:trailing-space")
            elif c == 2:
                lines.append(ind + "  deeper")
            else:
                lines.append(ind + "text %d" % r.below(9))
        if lines[0].strip() == "" or lines[0].endswith("deeper"):
            lines[0] = ind + "first"
        chomp = "-" if r.chance(0.25) else ""
        if chomp:
            self.note("textblock:chomp")
        term = r.choice(["", " "]) if len(ind) > 1 or ind == "\t" else ""
        return "|||" + chomp + "\n" + "\n".join(lines) + "\n" + term + "|||"

    # -------------------------------------------------------------- expressions
    def atom(self):
        r = self.rng
        k = r.below(9)
        if k <= 1:
            return [self.number()]
        if k <= 3:
            return [self.ident()]
        if k == 4:
            return [self.string()]
        if k == 5:
            return [r.choice(["null", "true", "false", "self", "$"])]
        if k == 6:
            self.note("super")
            return ["super", ".", self.ident()]
        if k == 7:
            return ["[", slot("arr"), "]"] if r.chance(0.5) else ["{", slot("obj"), "}"]
        return [self.ident()]

    def operand(self, d):
        """an expression usable as an operand of a unary/binary operator or a suffix base"""
        r = self.rng
        e = self.expr(d)
        if len(e) == 1 or r.chance(0.55):
            if len(e) > 1:
                self.note("parens")
                return ["("] + e + [")"]
            return e
        # bare: only safe when the expression is closed on the right / left
        if e[0] in ("local", "if", "function", "assert", "error", "import", "importstr", "importbin") or \
                e[0] in UNOPS:
            self.note("parens")
            return ["("] + e + [")"]
        if any(isinstance(t, str) and t in ("local", "if", "function", "assert", "error", "then", "else",
                                            "import", "importstr", "importbin", "for") for t in e):
            return ["("] + e + [")"]
        self.note("bare-operand")
        return e

    def expr(self, d):
        r = self.rng
        if d >= self.max_depth:
            return self.atom()
        k = r.below(24)
        d1 = d + 1
        if k <= 2:
            return self.atom()
        if k == 3 and ("unary" in self.risky or self.uplus):
            op = r.choice(UNOPS if self.uplus else UNOPS[:3])
            self.note("unary:" + op)
            return [op] + self.operand(d1)
        if k in (4, 5, 6):
            op = r.choice(BINOPS)
            self.note("binary:" + op)
            return self.operand(d1) + [op] + self.operand(d1)
        if k == 7:
            return self.array(d1)
        if k in (8, 9):
            return self.obj(d1)
        if k == 10:
            return self.call(d1)
        if k == 11:
            return self.local(d1)
        if k == 12:
            self.note("if")
            e = ["if"] + self.expr(d1) + ["then"] + self.expr(d1)
            if r.chance(0.7):
                e += ["else"] + self.expr(d1)
            else:
                self.note("if-without-else")
            return e
        if k == 13:
            return self.function(d1)
        if k == 14:
            self.note("index")
            b = self.suffix_base(d1)
            if r.chance(0.5):
                return b + [".", self.ident()]
            return b + ["["] + self.expr(d1) + ["]"]
        if k == 15:
            return self.slice(d1)
        if k == 16:
            return self.arrcomp(d1)
        if k == 17:
            self.note("assert-expr")
            e = ["assert"] + self.expr(d1)
            if r.chance(0.5):
                e += [":"] + self.expr(d1)
            return e + [";"] + self.expr(d1)
        if k == 18:
            self.note("error")
            return ["error"] + self.expr(d1)
        if k == 19:
            kw = r.choice(["import", "importstr", "importbin"])
            self.note(kw)
            return [kw, r.choice(['"lib.libsonnet"', "'a/b.txt'", '@"v.json"'])]
        if k == 20:
            self.note("objextend")
            return self.suffix_base(d1) + self.obj(d1)
        if k == 21:
            self.note("parens")
            return ["("] + self.expr(d1) + [")"]
        if k == 22:
            self.note("in-super")
            return self.operand(d1) + ["in", "super"]
        return self.objcomp(d1)

    def suffix_base(self, d):
        r = self.rng
        k = r.below(4)
        if k == 0:
            return [self.ident()]
        if k == 1:
            return ["("] + self.expr(d) + [")"]
        if k == 2:
            return [self.ident(), ".", self.ident()]
        return ["std", ".", r.choice(["length", "map", "x"])]

    def sep_list(self, tag, items, trailing_ok=True):
        """items separated by `,` with a slot mark at every boundary between the brackets"""
        out = [slot(tag)]
        for i, it in enumerate(items):
            out += it + [slot(tag)]
            if i + 1 < len(items):
                out += [",", slot(tag)]
            elif trailing_ok and self.rng.chance(0.3):
                self.note("trailing-comma")
                out += [",", slot(tag)]
        return out

    def array(self, d):
        self.note("array")
        n = self.rng.choice([0, 1, 2, 2, 3, 4])
        return ["["] + self.sep_list("arr", [self.expr(d) for _ in range(n)]) + ["]"]

    def call(self, d):
        r = self.rng
        self.note("call")
        f = self.suffix_base(d)
        args = [self.expr(d) for _ in range(r.choice([0, 1, 1, 2, 3]))]
        if r.chance(0.3):
            self.note("call:named-arg")
            args.append([self.ident(), "="] + self.expr(d))
        e = f + ["("] + self.sep_list("args", args) + [")"]
        if "tailstrict" in self.risky and r.chance(0.3):
            self.note("tailstrict")
            e.append("tailstrict")
        return e

    def params(self, d):
        r = self.rng
        ps = []
        for i in range(r.choice([0, 1, 2, 2, 3])):
            p = ["p%d" % i]
            if r.chance(0.3):
                self.note("param-default")
                p += ["="] + self.expr(d + 1)
            ps.append(p)
        out = ["("]
        for i, p in enumerate(ps):
            out += p
            if i + 1 < len(ps):
                out.append(",")
        return out + [")"]

    def function(self, d):
        self.note("function")
        return ["function"] + self.params(d) + self.expr(d)

    def bind(self, d):
        r = self.rng
        k = r.below(4)
        if k == 0:
            self.note("bind:function-sugar")
            return [self.ident()] + self.params(d) + ["="] + self.expr(d)
        if k == 1:
            self.note("bind:function-value")
            return [self.ident(), "="] + self.function(d)
        return [self.ident(), "="] + self.expr(d)

    def local(self, d):
        r = self.rng
        n = r.choice([2, 3]) if "localn" in self.risky and r.chance(0.4) else 1
        self.note("local" if n == 1 else "local:multi-bind")
        tag = "local1" if n == 1 else "localn"
        return ["local"] + self.sep_list(tag, [self.bind(d) for _ in range(n)], trailing_ok=False) + \
            [";"] + self.expr(d)

    def slice(self, d):
        r = self.rng
        self.note("slice")
        e = self.suffix_base(d) + ["["]
        form = r.below(6)
        a, b, c = self.expr(d + 1), self.expr(d + 1), self.expr(d + 1)
        if form == 0:
            e += a + [":"]
        elif form == 1:
            e += [":"] + b
        elif form == 2:
            e += a + [":"] + b
        elif form == 3:
            e += a + [":"] + b + [":"] + c
        elif form == 4:
            e += [":", ":"] + c
            self.note("slice:step-only")
        else:
            e += a + [":", ":"] + c
            self.note("slice:step-only")
        return e + ["]"]

    def compspecs(self, d, obj=False):
        r = self.rng
        out = ["for", self.ident(), "in"] + self.expr(d + 1)
        more = r.choice([0, 0, 1, 2])
        if obj:
            more = r.choice([1, 2]) if "multispec" in self.risky else 0
            if more:
                self.note("objcomp:multi-spec")
        for _ in range(more):
            if r.chance(0.5):
                out += ["if"] + self.expr(d + 1)
            else:
                out += ["for", self.ident(), "in"] + self.expr(d + 1)
        return out

    def arrcomp(self, d):
        self.note("arrcomp")
        e = ["["] + self.expr(d)
        if self.rng.chance(0.2):
            e.append(",")
        return e + self.compspecs(d) + ["]"]

    def fieldname(self, d):
        r = self.rng
        k = r.below(5)
        if k <= 1:
            return [self.ident()]
        if k == 2:
            return [r.choice(['"k 1"', "'k2'", '"a"'])]
        if k == 3:
            self.note("field:computed-name")
            return ["["] + self.expr(d + 1) + ["]"]
        return [self.ident()]

    def member(self, d, allow_nonfield=True):
        r = self.rng
        k = r.below(10)
        if allow_nonfield and k == 0:
            self.note("obj-local")
            return ["local"] + self.bind(d)
        if allow_nonfield and k == 1:
            self.note("obj-assert")
            e = ["assert"] + self.expr(d)
            if r.chance(0.5):
                e += [":"] + self.expr(d)
            return e
        vis = r.choice([":", ":", "::", ":::"])
        if k == 2:
            self.note("method")
            return self.fieldname(d) + self.params(d) + [vis] + self.expr(d)
        if k == 3:
            self.note("field:function-value")
            return self.fieldname(d) + [vis] + self.function(d)
        if k == 4:
            self.note("field:plus")
            if r.chance(0.35):
                self.note("field:plus-function-value")
                return self.fieldname(d) + ["+" + vis] + self.function(d)
            return self.fieldname(d) + ["+" + vis] + self.expr(d)
        self.note("field" + vis)
        return self.fieldname(d) + [vis] + self.expr(d)

    def obj(self, d):
        self.note("object")
        n = self.rng.choice([0, 1, 2, 2, 3, 4])
        return ["{"] + self.sep_list("obj", [self.member(d) for _ in range(n)]) + ["}"]

    def objcomp(self, d):
        r = self.rng
        self.note("objcomp")
        e = ["{"]
        if r.chance(0.3):
            e += ["local"] + self.bind(d) + [","]
        e += ["["] + self.expr(d + 1) + ["]", ":"] + self.expr(d)
        if r.chance(0.2):
            e.append(",")
        return e + self.compspecs(d, obj=True) + ["}"]

    def program(self):
        return [slot("file-start")] + self.expr(0) + [slot("file-end")]


# ------------------------------------------------------------------ rendering
WORD = re.compile(r"[A-Za-z0-9_$\"'@]")


def needs_space(a, b):
    """would gluing token a and token b change the token sequence?"""
    if not a or not b:
        return False
    if WORD.match(a[-1]) and WORD.match(b[0]):
        return True
    # operator characters: never glue two operator tokens (`- -`, `< <`, `| ||`, `/ *`, `: :`)
    ops = set("+-*/%<>=!&|^~:.|")
    if a[-1] in ops and b[0] in ops:
        return True
    if a[-1].isdigit() and b[0] == ".":
        return True
    if a[-1] == "." and b[0].isdigit():
        return True
    if a.endswith("|||"):
        return True
    return False


COMMENT_FORMS = ["block", "block-tight", "slash", "hash", "block-multi", "doc", "block-star-gutter"]


def comment_text(form, cid, rng):
    """returns (token text, must_end_line)"""
    w = "c%dq" % cid
    if form == "block":
        return "/* %s */" % w, False
    if form == "block-tight":
        return "/*%s*/" % w, False
    if form == "slash":
        return "// %s w" % w, True
    if form == "hash":
        return "#%s" % w, True
    if form == "block-multi":
        return "/*\n  %s\n    more %s\n*/" % (w, w), False
    if form == "block-star-gutter":
        return "/*\n * %s\n * two\n */" % w, False
    if form == "doc":
        return "/**\n * %s\n * two\n */" % w, False
    raise ValueError(form)


def render(entries, rng, style="space", comment_at=None, forms=None, density=0.0):
    """entries -> (source text, [comment records]).  comment_at: None (no comments), "slots"
    (only at slot marks), "all" (any token boundary, slot or inner).  Every comment record is
    {"id", "form", "text", "slot": tag|"inner"}."""
    toks = []  # (token, slot tag of the boundary BEFORE it)
    pending = None
    for e in entries:
        if isinstance(e, tuple):
            pending = e[1]
        else:
            toks.append((e, pending))
            pending = None
    end_slot = pending
    out = []
    comments = []
    prev = ""
    forms = forms or COMMENT_FORMS
    cid = [0]

    def emit_comment(tag):
        form = rng.choice(forms)
        cid[0] += 1
        text, eol = comment_text(form, cid[0], rng)
        comments.append({"id": cid[0], "form": form, "text": text, "slot": tag or "inner"})
        return text, eol

    def boundary(tag, a, b, first=False, last=False):
        """text between token a and token b"""
        s = ""
        want = False
        if comment_at == "all":
            want = rng.chance(density)
        elif comment_at == "slots":
            want = tag is not None and rng.chance(density)
        if style == "space":
            ws = " "
        elif style == "newline":
            ws = "\n" if (tag is not None and rng.chance(0.6)) else " "
        elif style == "mixed":
            ws = rng.choice([" ", " ", "\n", "\n\n", "  ", "\t"]) if tag is not None else rng.choice([" ", " ", "\n"])
        else:  # compact
            ws = " " if needs_space(a, b) else ""
        if first or last:
            ws = "" if style != "mixed" else rng.choice(["", "\n"])
        if want:
            n = 1 if rng.chance(0.8) else 2
            for _ in range(n):
                text, eol = emit_comment(tag)
                s += (" " if (a and not s) else "") + ("" if not s or s.endswith("\n") or s.endswith(" ") else " ") + text
                s += "\n" if eol else " "
            if style == "newline" and tag is not None and not s.endswith("\n") and rng.chance(0.5):
                s += "\n"
            return s
        return ws

    for i, (t, tag) in enumerate(toks):
        out.append(boundary(tag, prev, t, first=(i == 0)))
        out.append(t)
        prev = t
    out.append(boundary(end_slot, prev, "", last=True))
    return "".join(out), comments


# ------------------------------------------------------------------ tree normalisation
def norm_tree(t):
    """span-erased ir Expr (parsecmd::expr JSON) modulo the two documented sugar equivalences:
    `local f(..) = e` == `local f = function(..) e`;  `f(..): e` == `f: function(..) e`."""
    if isinstance(t, list):
        if t and t[0] == "bindfn" and len(t) == 4:
            return ["bind", ["id", t[1]], ["function", norm_tree(t[2]), norm_tree(t[3])]]
        if t and t[0] == "field" and len(t) == 6 and t[3] is not None:
            return ["field", norm_tree(t[1]), t[2], None, t[4], ["function", norm_tree(t[3]), norm_tree(t[5])]]
        return [norm_tree(x) for x in t]
    return t


def tree_diff(a, b, path="$"):
    """first difference between two normalised trees, as a short string"""
    if type(a) != type(b):
        return f"{path}: {json.dumps(a)[:80]} vs {json.dumps(b)[:80]}"
    if isinstance(a, list):
        if len(a) != len(b):
            return f"{path}: {json.dumps(a)[:100]} vs {json.dumps(b)[:100]}"
        for i, (x, y) in enumerate(zip(a, b)):
            d = tree_diff(x, y, f"{path}[{i}]")
            if d:
                return d
        return None
    return None if a == b else f"{path}: {json.dumps(a)[:80]} vs {json.dumps(b)[:80]}"


# ------------------------------------------------------------------ comment normalisation
WS_CHARS = "\t\n\x0b\x0c\r \x85\xa0                　"


def comment_words(kind, text):
    """what C19_comment_text_preserved keeps: per line, the text with the surrounding
    whitespace and the leading gutter (ASCII whitespace and `*`) removed; blank lines dropped"""
    if kind == "MULTI_LINE_COMMENT":
        body = text[2:-2]
        lines = body.split("\n")
    elif kind == "SINGLE_LINE_SLASH_COMMENT":
        lines = [text[2:]]
    else:
        lines = [text[1:]]
    out = []
    for ln in lines:
        ln = ln.strip(WS_CHARS)
        ln = ln.lstrip(" \t\n\x0c\r*").rstrip(WS_CHARS)
        if ln:
            out.append(ln)
    k = "block" if kind == "MULTI_LINE_COMMENT" else ("slash" if kind == "SINGLE_LINE_SLASH_COMMENT" else "hash")
    return (k, tuple(out))


# ------------------------------------------------------------------ python port of fmt_ml (classification only)
def _trim_end(s):
    return s.rstrip(WS_CHARS)


def _cwp(a, b):
    n = 0
    for x, y in zip(a, b):
        if x == y and (x in " \t\n\x0c\r" or x == "*"):
            n += 1
        else:
            break
    return a[:n]


def fmt_ml(tok):
    """port of Model.v fmt_ml: ("nothing",) | ("single", body) | ("multi", doc, [lines])"""
    assert tok.startswith("/*") and tok.endswith("*/") and len(tok) >= 4
    text = tok[2:-2]
    doc = text.startswith("*")
    if doc:
        text = text[1:]
    ls0 = [_trim_end(l) for l in text.split("\n")]
    immediate = ls0[0] != ""
    lines = list(ls0)
    while lines and lines[0] == "":
        lines.pop(0)
    while lines and lines[-1] == "":
        lines.pop()
    if not lines:
        return ("nothing",)
    if len(lines) == 1 and not doc:
        return ("single", lines[0].strip(WS_CHARS))
    seed = _cwp(lines[1], lines[1]) if immediate and len(lines) > 1 else _cwp(lines[0], lines[0])
    pad = seed
    for l in lines[2 if immediate else 1:]:
        if l:
            pad = _cwp(pad, l)
    res = []
    for i, l in enumerate(lines):
        if (immediate and i == 0) or not l:
            res.append(l)
        else:
            assert l.startswith(pad)
            res.append(l[len(pad):])
    return ("multi", doc, res)


def render_ml(ind, o):
    if o[0] == "nothing":
        return ""
    if o[0] == "single":
        return "/* " + o[1] + " */"
    doc, ls = o[1], o[2]
    if not doc:
        lines = ["/*"] + ls + ["*/"]
    else:
        def conv(l):
            n = 0
            while n < len(l) and l[n] == "\t":
                n += 1
            return "    " * n + l[n:]
        lines = ["/**"] + [(" * " + conv(l)) if l else " *" for l in ls] + [" */"]
    return "\n".join([lines[0]] + [(ind + l) if l else l for l in lines[1:]])


def ml_text_stable(ind, tok):
    o = fmt_ml(tok)
    if o[0] == "nothing":
        return True
    r1 = render_ml(ind, o)
    return render_ml(ind, fmt_ml(r1)) == r1


def cq_str(s):
    return "[" + "; ".join(str(ord(c)) for c in s) + "]%N"


def coq_ml_out(t):
    """parsed Coq term of `fmt_ml tok` -> the python port's representation"""
    def s(x):
        return "".join(chr(int(c)) for c in x)
    if t == "None":
        return None
    assert isinstance(t, core.App) and t.name == "Some"
    o = t.args[0]
    if o == "MLNothing":
        return ("nothing",)
    if o.name == "MLSingle":
        return ("single", s(o.args[0]))
    return ("multi", o.args[0], [s(l) for l in o.args[1]])


# ================================================================== cases
RISKY = ["uplus", "multispec", "tab"]
SAFE_SLOTS = ("arr", "obj", "args", "localn", "file-start", "file-end")
STYLES = ["space", "newline", "compact", "mixed"]

FUZZ_ALPHA = ["x", "y", "1", "1.5", '"s"', "'t'", "@'v'", "+", "-", "*", "/", "%", "!", "~", "(", ")", "[", "]",
              "{", "}", ":", "::", ":::", "+:", ",", ".", ";", "=", "==", "<", "&&", "||", "$", "?", "...",
              "local", "if", "then", "else", "function", "for", "in", "import", "importstr", "error", "assert",
              "self", "super", "null", "true", "tailstrict", "|||\n a\n|||", "/* c */", "// c\n", "# c\n",
              "/**\n * d\n */", "/*/", "\n", "\t", "é", "\"a\\", "'", "1e", "0x", "@x"]

# canonical reproducing input of every known finding: (id, source, indent)
CANONICAL = {
    "C19-objcomp-specs-glued": "{ [k]: v for k in ks if k for v in vs }",
    "C19-line-comment-swallows-code": "f(1, // c1q\n 2)",
    "C19-comment-dropped-outside-lists": "1 /*c1q*/ + /*c2q*/ 2",
    "C19-empty-block-comment-dropped": "[/**/ 1]",
    "C20-rowan-import-nonstring-panic": "import 1",
    "C20-dprint-debug-tab-newline": "// a\tb\n1",
    "C20-hidoc-annotation-oob": "~/*missing Expr*/\n",
    "C20-block-comment-reindent-unstable": "/**\n * a\n *\n * b\n */\n1",
    "C20-comment-before-local-moves-out": "(local /*c1q*/ b = x; 2)",
    "C20-invalid-input-formatted": "1 /*/",
    "C20-second-pass-on-corrupted-output": "{ [k]: v for k in ks if k for v in vs }",
    "C20-whitespace-unstable-near-comments": "f( /*c1q*/ )",
    "C20-rowan-function-without-paren-panic": "function x",
    "C20-rowan-bump-at-eof-panic": "@'v' [ /*/ { ;",
    "C20-group-single-line-although-spanning":
        '({"k1":[({}),local zz=function()zz;a],_q()::({_q():function()super}),"k1":[(@"v\\n"){[42]():::_q}],'
        'local zz=function()([])})([({[0]:::b})in[]if if bar_1 then[[]]])',
}


# fixed findings: input -> behaviour now REQUIRED (obligations fixed-finding-stays-fixed.*):
#   "diag"      the formatter declines with a diagnostic at every indent, no panic
#   "preserved" at every indent the output parses to the same program with the same comments
#               (judged by the C19 check) and is a fixed point of a second pass (C20 check)
FIXED = {
    "C20-diag-range-underflow": ("+1", "diag"),                                    # eafd98a
    "C19-tailstrict-dropped": ("f(1) tailstrict", "preserved"),                    # 36da7c4
    "C19-multi-local-trailing-comma": ("local a = 1, b = 2; a", "preserved"),      # d7f7e14
    "C19-plus-dropped-on-function-field": ("{ a+: function(x) x }", "preserved"),  # 800ddf4
    "C19-unary-operand-dropped": ("~a * -b", "preserved"),                         # fd80c63
    "C19-unary-operand-dropped/2": ("[!1, -x.y(2)[3], ~(a + b)]", "preserved"),    # fd80c63
}


def text_block_family():
    out = []
    kinds = {"text": lambda ind: ind + "text", "empty": lambda ind: "", "ws": lambda ind: ind + "  ",
             "trail": lambda ind: ind + "trailing  ", "deeper": lambda ind: ind + "  deeper"}
    for chomp in ("", "-"):
        for ind in ("  ", "    ", "\t"):
            for mid in ("text", "empty", "ws", "trail", "deeper", None):
                for last in kinds:
                    lines = [ind + "first"] + ([kinds[mid](ind)] if mid else []) + [kinds[last](ind)]
                    blk = "|||" + chomp + "\n" + "\n".join(lines) + "\n|||"
                    ctx = ["{ name: 'x', body: %s, z: 1 }", "[%s, 2]", "local s = %s; s", "f(%s)"][(len(out)) % 4]
                    out.append(ctx % blk)
    return out


def build_cases(run, quick_scale=1.0):
    """list of case dicts {src, comments, style, risky, features, stream}"""
    rng = run.rng
    thorough = run.tier == "thorough"
    k = (12 if thorough else 1) * quick_scale
    cases = []

    def add(stream, n, risky=(), comment_at=None, forms=None, density=0.25, depth=3):
        for i in range(int(n * k)):
            g = ProgGen(rng.fork(f"{stream}-p{i}"), max_depth=depth if i % 5 else depth + 1, risky=risky)
            ent = g.program()
            style = STYLES[i % 4]
            src, comments = render(ent, rng.fork(f"{stream}-r{i}"), style=style, comment_at=comment_at,
                                   forms=forms, density=density)
            cases.append({"src": src, "comments": comments, "style": style, "risky": sorted(risky),
                          "features": g.features, "stream": stream})

    add("clean", 160)
    add("clean-slot-comments", 160, comment_at="slots")
    add("clean-block-comments", 60, comment_at="slots", forms=["block", "block-tight", "block-multi"], density=0.5)
    add("all-boundary-comments", 70, comment_at="all", density=0.2)
    for rk in RISKY:
        add("risky-" + rk, 24, risky=(rk,))
    add("risky-mixed", 40, risky=tuple(RISKY), comment_at="slots", density=0.15)
    # fixed text-block family (no comments): chomping x indentation x what the middle and the LAST content
    # line are (text / truly empty / whitespace beyond the indentation / trailing spaces / deeper) x context
    tb = text_block_family()
    if not thorough:
        r2 = rng.fork("textblock-family")
        tb = [c for c in tb if r2.chance(0.3 * quick_scale)]
    for src in tb:
        cases.append({"src": src, "comments": [], "style": "canonical", "risky": [], "features": {"string:textblock": 1},
                      "stream": "textblock-family"})
    for fid, src in CANONICAL.items():
        cases.append({"src": src, "comments": [], "style": "canonical", "risky": [], "features": {},
                      "stream": "canonical", "canonical": fid})
    for fid, (src, _want) in FIXED.items():
        cases.append({"src": src, "comments": [], "style": "canonical", "risky": [], "features": {},
                      "stream": "fixed", "fixed": fid})
    return cases


def fuzz_cases(run):
    rng = run.rng.fork("fuzz")
    n = 6000 if run.tier == "thorough" else 700
    out = []
    for i in range(n):
        ln = rng.randint(1, 7)
        toks = [rng.choice(FUZZ_ALPHA) for _ in range(ln)]
        sep = rng.choice([" ", " ", "", "\n"])
        out.append(sep.join(toks))
    # every 1- and 2-token string over the alphabet head (structure tokens)
    head = FUZZ_ALPHA[:52]
    out += head
    if run.tier == "thorough":
        out += [a + " " + b for a in head for b in head]
    else:
        for _ in range(500):
            out.append(rng.choice(head) + " " + rng.choice(head))
    seen, uniq = set(), []
    for s in out:
        if s not in seen:
            seen.add(s)
            uniq.append(s)
    return uniq


# ================================================================== judging
GLUED = re.compile(r"[A-Za-z0-9_\"'\]\)\}](?:for|if)\b")
CID = re.compile(r"c(\d+)q")


def tokens_of(lex):
    return [t[1] for t in lex.get("tokens", [])]


def c19_failures(case, o):
    """C19 verdicts for one harness answer -> list of failure dicts (known tagged)"""
    fails = []
    src = case["src"]
    t = o.get("tree", {})
    if "ok" not in t:
        return [{"what": "generator produced a program the evaluator's parser rejects", "indent": None,
                 "got": t, "expected": "valid program", "generator_bug": True}]
    tx = norm_tree(t["ok"])
    xin = o["lex"]
    cin = [comment_words(*c) for c in xin["comments"]]
    feats = case["features"]
    has = lambda p: any(k.startswith(p) for k in feats)  # noqa
    canonical = case.get("canonical")
    for ind in sorted(o["fmt"]):
        f = o["fmt"][ind]
        if "ok" not in f:
            continue  # declined with a diagnostic (allowed by C19) or panic (C20's business)
        y = f["ok"]
        probs = []
        ty = f["tree"]
        if "ok" not in ty:
            probs.append(("output rejected by the evaluator's parser", ty))
        else:
            d = tree_diff(tx, norm_tree(ty["ok"]))
            if d:
                probs.append(("output parses to a different program", d))
        cout = [comment_words(*c) for c in f["lex"]["comments"]]
        if cin != cout:
            probs.append(("comment sequence changed", {"in": cin[:8], "out": cout[:8]}))
        if not probs:
            continue
        for what, got in probs:
            # every symptom is classified on its own: two independent findings may meet in one case
            known = classify_c19(case, o, f, [(what, got)])
            fl = {"case": {"src": src, "indent": int(ind), "stream": case["stream"]},
                  "what": what, "expected": "same program, same comments", "got": got, "output": y[:600],
                  "summary": f"C19 {what} (indent {ind}): {src[:150]!r}"}
            if known:
                fl["known"] = known
            fails.append(fl)
    return fails


def classify_c19(case, o, f, probs):
    """narrow classifiers; returns a finding id or None"""
    y = f["ok"]
    feats = case["features"]
    can = case.get("canonical")
    xtok = tokens_of(o["lex"])
    ytok = tokens_of(f["lex"])
    whats = {p[0] for p in probs}
    has = lambda p: any(k.startswith(p) for k in feats)  # noqa
    if (has("objcomp:multi-spec") or can in ("C19-objcomp-specs-glued", "C20-second-pass-on-corrupted-output")) \
            and GLUED.search(y) and \
            "comment sequence changed" not in whats:
        return "C19-objcomp-specs-glued"
    # comments
    if True:
        cin = o["lex"]["comments"]
        cout = f["lex"]["comments"]
        # a line comment that swallowed code: an output line comment carries an input id but more text
        in_by_id = {}
        for k, t in cin:
            m = CID.search(t)
            if m:
                in_by_id[m.group(1)] = comment_words(k, t)
        swallowed = False
        for k, t in cout:
            if k.startswith("SINGLE_LINE"):
                m = CID.search(t)
                if m and m.group(1) in in_by_id and in_by_id[m.group(1)][0] in ("slash", "hash"):
                    wi = in_by_id[m.group(1)][1]
                    wo = comment_words(k, t)[1]
                    if wi and wo and wo[0] != wi[0] and wo[0].startswith(wi[0]):
                        swallowed = True
        if swallowed:
            return "C19-line-comment-swallows-code"
        if "comment sequence changed" in whats:
            # lost comments only, all of them placed outside the list printers' reach
            wout = [comment_words(k, t) for k, t in cout]
            win = [comment_words(k, t) for k, t in cin]
            it = iter(win)
            is_subseq = all(any(w == x for x in it) for w in wout)
            if is_subseq:
                out_ids = set()
                for k, t in cout:
                    out_ids.update(CID.findall(t))
                lost = [c for c in case["comments"] if str(c["id"]) not in out_ids]
                if can == "C19-comment-dropped-outside-lists":
                    return can
                if can == "C19-empty-block-comment-dropped" and wout == [] and win == [("block", ())]:
                    return can
                if lost and all(c["slot"] in ("inner", "local1") for c in lost):
                    return "C19-comment-dropped-outside-lists"
    return None


def find_indent(y, pos):
    ls = y.rfind("\n", 0, pos) + 1
    j = ls
    while j < len(y) and y[j] in " \t":
        j += 1
    return y[ls:j]


def c20_failures(case, o, relex):
    """C20 verdicts: never a panic; fixed point.  relex: dict text -> lex answer of that text"""
    fails = []
    src = case["src"]
    can = case.get("canonical")
    valid = "ok" in o.get("tree", {})
    rowan = o.get("rowan", {})
    for ind in sorted(o["fmt"]):
        f = o["fmt"][ind]
        probs = []  # (what, got, known)
        if "panic" in f:
            probs.append(("the formatter panicked", f["panic"], classify_panic(case, o, f["panic"], src, first=True)))
        elif "ok" in f:
            if not valid and rowan.get("errors") == 0:
                probs.append(("invalid input formatted without a diagnostic", o["tree"],
                              "C20-invalid-input-formatted"))
            elif not valid:
                probs.append(("invalid input formatted although the syntax-tree parser reported errors",
                              o["tree"], None))
            a = f["again"]
            y = f["ok"]
            c19_known = None
            if valid:
                pr = []
                ty = f["tree"]
                if "ok" not in ty:
                    pr.append(("output rejected by the evaluator's parser", ty))
                elif tree_diff(norm_tree(o["tree"]["ok"]), norm_tree(ty["ok"])):
                    pr.append(("output parses to a different program", ""))
                if [comment_words(*c) for c in o["lex"]["comments"]] != \
                        [comment_words(*c) for c in f["lex"]["comments"]]:
                    pr.append(("comment sequence changed", ""))
                c19_known = {classify_c19(case, o, f, [p]) for p in pr}
            else:
                c19_known = set()
            corrupted = bool(c19_known & {"C19-objcomp-specs-glued", "C19-line-comment-swallows-code"})
            if "panic" in a:
                k = classify_panic(case, o, a["panic"], y, first=False)
                if k == "C20-hidoc-annotation-oob" and not (corrupted or can == k or not valid):
                    k = None
                if k is None and corrupted and "ok" not in f.get("tree", {}):
                    # the first output is invalid Jsonnet (a C19 known finding glued / swallowed tokens): the
                    # second pass is a first pass on invalid input
                    k = classify_panic(case, {"tree": f["tree"], "lex": f["lex"]}, a["panic"], y, first=True)
                probs.append(("the formatter panicked on its own output", a["panic"], k))
            elif "diag" in a:
                probs.append(("the formatter rejects its own output", a,
                              "C20-second-pass-on-corrupted-output" if corrupted or not valid else None))
            elif not a.get("same"):
                y2 = a.get("text", "")
                k = classify_unstable(case, y, y2, f["lex"], relex.get(y2), corrupted)
                probs.append(("formatting the output again changes it", {"first": y[:500], "second": y2[:500]}, k))
        for what, got, known in probs:
            fl = {"case": {"src": src, "indent": int(ind), "stream": case["stream"]}, "what": what,
                  "expected": "diagnostic or stable output, never a panic", "got": got,
                  "summary": f"C20 {what} (indent {ind}): {src[:150]!r}"}
            if known:
                fl["known"] = known
            fails.append(fl)
    return fails


def classify_panic(case, o, msg, text, first):
    if "Debug panic! Found a tab" in msg and "\t" in text:
        return "C20-dprint-debug-tab-newline"
    if "Debug panic! Found a newline" in msg and "\n" in text:
        return "C20-dprint-debug-tab-newline"
    if "jrsonnet-rowan-parser/src/parser.rs" in msg and "Text::can_cast" in msg and "import" in text:
        return "C20-rowan-import-nonstring-panic"
    if "hi-doc" in msg and "out of bounds annotation" in msg:
        return "C20-hidoc-annotation-oob"
    invalid = "ok" not in o.get("tree", {})
    if first and invalid and "jrsonnet-rowan-parser/src/parser.rs" in msg:
        toks = tokens_of(o.get("lex", {}))
        if "expected L_PAREN" in msg and any(t == "function" and (i + 1 == len(toks) or toks[i + 1] != "(")
                                             for i, t in enumerate(toks)):
            return "C20-rowan-function-without-paren-panic"
        if "already at end" in msg:
            return "C20-rowan-bump-at-eof-panic"
    return None


def classify_unstable(case, y, y2, ylex, y2lex, corrupted):
    """second pass differs from the first: which known finding explains ALL of the difference?"""
    if corrupted:
        return "C20-second-pass-on-corrupted-output"
    if not y2lex:
        return None

    def no_trailing_commas(ts):
        return [t for i, t in enumerate(ts) if not (t == "," and i + 1 < len(ts) and ts[i + 1] in (")", "]", "}"))]
    ty1, ty2 = tokens_of(ylex), tokens_of(y2lex)
    cy = [tuple(c) for c in ylex["comments"]]
    cy2 = [tuple(c) for c in y2lex["comments"]]
    if (ty1 == ty2 or no_trailing_commas(ty1) == no_trailing_commas(ty2)) and cy == cy2:
        used = whitespace_change_explained(y, y2)
        if used and (cy or used == {"C20-group-single-line-although-spanning"}):
            return sorted(used)[0]
    if not cy:
        return None     # programs without comments must be stable, whitespace included
    # the only token change tolerated: a trailing comma that comes and goes with the single-line /
    # multi-line decision
    if ty1 != ty2 and no_trailing_commas(ty1) != no_trailing_commas(ty2):
        return None
    lost_before_local = 0
    if len(cy2) < len(cy):
        # comments lost on the second pass: each of them must stand directly in front of `local`
        # in the first output (where the single-binding local printer put it)
        rest = re.compile(r"(?:\s|/\*.*?\*/|//[^\n]*\n|#[^\n]*\n)*local\b", re.S)
        kept, j, pos = [], 0, 0
        for k, t in cy:
            p = y.find(t, pos)
            if p < 0:
                return None
            pos = p + len(t)
            if j < len(cy2) and comment_words(k, t) == comment_words(*cy2[j]):
                kept.append((k, t, p))
                j += 1
            elif rest.match(y, pos):
                lost_before_local += 1
            else:
                return None
        if j != len(cy2):
            return None
        cy = [(k, t) for k, t, _ in kept]
    elif len(cy2) > len(cy):
        return None
    # pairwise: a changed comment must be a block comment the comment model predicts unstable
    pos = 0
    changed = 0
    for (k, t), (k2, t2) in zip(cy, cy2):
        p = y.find(t, pos)
        if p >= 0:
            pos = p + len(t)
        if (k, t) == (k2, t2):
            continue
        if k != "MULTI_LINE_COMMENT" or k2 != k:
            return None
        ind = find_indent(y, p) if p >= 0 else ""
        if ml_text_stable(ind, t):
            return None
        changed += 1
    if lost_before_local:
        return "C20-comment-before-local-moves-out"
    if changed:
        # the whitespace around the re-indented comments must itself be stable or explained
        if whitespace_change_explained(y, y2, ignore_comment_text=True) is None:
            return None
        return "C20-block-comment-reindent-unstable"
    # whitespace only: the known site is the comments that END a list / the file (and the comment alone in an
    # otherwise empty list): every changed gap must lie in a run of comments that reaches a closing bracket or
    # the end of the text.  A gap that changes anywhere else is a different defect and is reported.
    return None


def trivia_split(text):
    """-> (elements [(kind, text)], gaps [whitespace before element i] + [final gap]); kind in com|str|tok"""
    els, gaps = [], []
    i, n, gap = 0, len(text), ""
    while i < n:
        c = text[i]
        if c in " \t\r\n":
            gap += c
            i += 1
            continue
        j = i
        if text.startswith("/*", i):
            j = text.find("*/", i + 2)
            j = n if j < 0 else j + 2
            kind = "com"
        elif text.startswith("//", i) or c == "#":
            j = text.find("\n", i)
            j = n if j < 0 else j
            kind = "com"
        elif text.startswith("|||", i):
            m = re.compile(r"\|\|\|-?[ \t]*\n(?:[ \t]*\n)*([ \t]+)").match(text, i)
            kind = "str"
            if m:
                ind = m.group(1)
                k = m.end() - len(ind)
                while k < n:
                    e = text.find("\n", k)
                    e = n if e < 0 else e
                    line = text[k:e]
                    if line.strip() == "" or line.startswith(ind):
                        k = e + 1
                        continue
                    break
                e = text.find("|||", k)
                j = n if e < 0 else e + 3
            else:
                j = i + 3
        elif c in "\"'" or (c == "@" and i + 1 < n and text[i + 1] in "\"'"):
            v = c == "@"
            q = text[i + 1] if v else c
            k = i + (2 if v else 1)
            while k < n:
                if v and text.startswith(q + q, k):
                    k += 2
                elif not v and text[k] == "\\":
                    k += 2
                elif text[k] == q:
                    break
                else:
                    k += 1
            j = min(k + 1, n)
            kind = "str"
        elif c.isalnum() or c == "_":
            while j < n and (text[j].isalnum() or text[j] in "_."):
                j += 1
            kind = "tok"
        else:
            j = i + 1
            kind = "tok"
        els.append((kind, text[i:j]))
        gaps.append(gap)
        gap = ""
        i = j
    gaps.append(gap)
    return els, gaps


def whitespace_change_explained(y, y2, ignore_comment_text=False):
    """y -> y2 differ in whitespace / trailing commas only.  Every changed whitespace gap must be explained by one of
    the two known whitespace instabilities; returns the set of finding ids used, or None if some gap is explained
    by neither (a different defect, reported).

    GROUP  the first output gave a bracketed LIST (object body, array literal, argument / parameter list) an
           inconsistent layout - no line break after the opening bracket although the content spans lines, or a
           line break at one end of the list only - because dprint settled the group's `is_multiple_lines`
           conditions inconsistently; the second pass reads those line breaks from its input and prints the group
           consistently.  Explains a gap that lies inside such a group (directly or nested).
    ENDING the gap lies in a run of comments that reaches a closing bracket or the end of the text (the comments
           that end a list / the file, or stand alone in an otherwise empty list)."""
    e1, g1 = drop_trailing_commas(*trivia_split(y))
    e2, g2 = drop_trailing_commas(*trivia_split(y2))
    if ignore_comment_text:
        e1 = [(k, "/*") if k == "com" and t.startswith("/*") else (k, t) for k, t in e1]
        e2 = [(k, "/*") if k == "com" and t.startswith("/*") else (k, t) for k, t in e2]
    if e1 != e2:
        return None
    if g1 == g2:
        return set()
    close = {"(": ")", "[": "]", "{": "}"}
    kw = {"in", "then", "else", "if", "local", "assert", "error", "for", "import", "importstr", "importbin",
          "tailstrict"}
    stack, encl, match, parent = [], [None] * (len(e1) + 1), {}, {}

    def is_list(i):
        t = e1[i][1]
        prev = next((e1[j] for j in range(i - 1, -1, -1) if e1[j][0] != "com"), None)
        value_before = prev is not None and (prev[0] == "str" or prev[1] in (")", "]", "}") or (
            (prev[1][0].isalnum() or prev[1][0] in "_$") and prev[1] not in kw))
        if t == "{":
            return True
        if t == "[":
            return not value_before
        return value_before          # `f(`, `function(`, `a(` in a method definition
    for i, (k, t) in enumerate(e1):
        encl[i] = stack[-1] if stack else None     # gap i (before element i) lies inside this open bracket
        if k == "tok" and t in ")]}" and stack:
            match[stack.pop()] = i
        if k == "tok" and t in close:
            parent[i] = stack[-1] if stack else None
            stack.append(i)

    def span(g, o, c):
        return any("\n" in g[j] for j in range(o + 1, c + 1)) or any("\n" in e1[j][1] for j in range(o + 1, c))

    def bad_then_good(o):
        if o not in match or not is_list(o):
            return False
        c = match[o]
        a1, b1, a2, b2 = "\n" in g1[o + 1], "\n" in g1[c], "\n" in g2[o + 1], "\n" in g2[c]
        inconsistent1 = a1 != b1 or (not a1 and span(g1, o, c))
        consistent2 = a2 == b2 and (a2 or not span(g2, o, c))
        return inconsistent1 and consistent2

    def ending(i):
        lo, ncom = i - 1, 0
        while lo >= 0 and e1[lo][0] == "com":
            ncom += 1
            lo -= 1
        hi = i
        while hi < len(e1) and e1[hi][0] == "com":
            ncom += 1
            hi += 1
        return bool(ncom) and (hi == len(e1) or e1[hi][1] in (")", "]", "}"))
    used = set()
    for i in range(len(g1)):
        if g1[i] == g2[i]:
            continue
        o = encl[i]
        while o is not None and not bad_then_good(o):
            o = parent.get(o)
        if o is not None:
            used.add("C20-group-single-line-although-spanning")
        elif ending(i):
            used.add("C20-whitespace-unstable-near-comments")
        else:
            return None
    return used


def drop_trailing_commas(els, gaps):
    e2, g2 = [], []
    carry = ""
    for i, el in enumerate(els):
        nxt = next((x for x in els[i + 1:] if x[0] != "com"), None)
        if el == ("tok", ",") and nxt is not None and nxt[1] in (")", "]", "}"):
            carry += gaps[i] + "\0"      # the comma's own position is part of the surrounding gap
            continue
        e2.append(el)
        g2.append(carry + gaps[i])
        carry = ""
    g2.append(carry + gaps[-1])
    return e2, g2




# ---------------------------------------------------------------- source tie (Gen/GenFmt.v)
# translator/gens/fmtkernels.py translates children.rs statement by statement into Gen/GenFmt.v;
# C19/{ModelSource,ProofsSource,PropertiesSource}.v and C20/PropertiesSource.v prove translated = model.
TIE_IMPORTS = ("From Coq Require Import List NArith Bool.\n"
               "From JrV Require Import C19.Model Gen.GenFmt C19.ModelSource.\nImport ListNotations.\n")


def source_tie_obligations(run, terrs):
    """translator.GenFmt is an obligation of C19 and C20 (their files import Gen.GenFmt); a failing
    plug-in of another property is recorded, not judged here.  Returns the GenFmt translate errors."""
    kept = []
    for n, ok, d in run.obligations:
        if n.startswith("translator.") and n != "translator.GenFmt":
            run.notes.append(f"{n} (table not used by this property): {d[:160]}")
        else:
            kept.append((n, ok, d))
    run.obligations = kept
    stale = [m for n, m in terrs if n == "GenFmt"]
    if stale:
        run.log("source tie: translator/gens/fmtkernels.py rejected the source: " + stale[0][:300])
    return stale


def tie_item_lists(rng, n):
    """arrays of numbers with trivia between the elements, dense where the translated decisions are:
    0/1/2/3 line ends, block comments with and without a line end, line comments before a line end"""
    cases = []
    for _ in range(n):
        ne = rng.randint(1, 3)
        items, cid = [], 0

        def trivia(first=False):
            nonlocal cid
            out = []
            for _ in range(rng.choice([0, 1, 1, 2, 3])):
                k = rng.below(7)
                cid += 1
                if k == 0:
                    out.append(("MLc", f"/*k{cid}q*/"))
                elif k == 1:
                    out.append(("MLc", f"/*\nk{cid}q\n*/"))
                elif k == 2:
                    out.append(("SlashC", f"// k{cid}q"))
                    out.append(("Ws", rng.choice(["\n", "\n\n", "\n  "])))
                elif k == 3:
                    out.append(("HashC", f"# k{cid}q"))
                    out.append(("Ws", rng.choice(["\n", "\n\n"])))
                else:
                    out.append(("Ws", rng.choice([" ", "\n", "\n\n", "\n\n\n", " \n ", "\n \n\n\n"])))
            merged = []
            for k, t in out:
                if merged and merged[-1][0] == "Ws" and k == "Ws":
                    merged[-1] = ("Ws", merged[-1][1] + t)
                else:
                    merged.append((k, t))
            for k, t in merged:
                items.append(("t", k, t))

        for e in range(ne):
            trivia()
            items.append(("n", 10 + e))
            trivia()
            if e + 1 < ne or rng.chance(0.3):
                items.append(("sep",))
        trivia()
        src = "[" + "".join(str(it[1]) if it[0] == "n" else "," if it[0] == "sep" else it[2] for it in items) + "]"
        cases.append((src, items))
    return cases


def cq_items(items):
    its = []
    for it in items:
        if it[0] == "n":
            its.append(f"INode {it[1]}")
        elif it[0] == "sep":
            its.append("ISep")
        else:
            its.append(f"ITriv {it[1]} {cq_str(it[2])}")
    return "[" + "; ".join(its) + "]"


def source_tie_search(run, binary, stale, prop):
    """an obligation broke: look for an item list on which children.rs AS TRANSLATED and the proved
    model disagree (both run inside coqc); the failing input is the array source text, shown with
    what the real formatter prints for it."""
    if stale:
        return []
    cases = tie_item_lists(run.rng.fork("tie-search"), 400 if run.tier == "quick" else 4000)
    exprs = [f"(src_children_case {cq_items(items)}, children_case {cq_items(items)})" for _, items in cases]
    res = core.coq_eval(TIE_IMPORTS, exprs)
    out = []
    for (src, items), r in zip(cases, res):
        if isinstance(r, tuple) and r and r[0] == "ERROR":
            run.log("source tie search: the translated kernel cannot be evaluated: " + str(r[1])[:200])
            return []
        a, b = r
        if repr(a) != repr(b):
            out.append({"case": {"src": src, "indent": 2},
                        "what": "children.rs as translated (Gen/GenFmt.v) disagrees with the model the "
                                f"{prop} theorems are proved about",
                        "summary": f"{prop} source tie: translated children.rs deviates from the proved model on {src!r}",
                        "expected": repr(b)[:600], "got": repr(a)[:600]})
    run.log(f"source tie search: {len(out)}/{len(cases)} item lists on which the translated kernel deviates")
    out.sort(key=lambda f: len(f["case"]["src"]))
    if out and binary:
        o = core.run_harness(binary, "fmt", [{"src": out[0]["case"]["src"], "indents": [2], "tree": False}])[0]
        out[0]["real_formatter_output"] = (o or {}).get("fmt", {}).get("2")
    return out
