"""C11 — stdlib string, encoding, parsing and hashing functions match their definitions.

Theorems: coq/theories/Common/Utf8.v + coq/theories/C11 (UTF-8 round trip / decoder soundness /
prefix freedom / full self-synchronisation; findSubstr's byte walk = the code-point definition; substr; split byte search = code-point definition + laws; endsWith; strip;
parse_nat classifier + exact accumulation below 2^53; codepoint/char; base64 round trip).
Correspondence: generated calls std.<fn>(args) -> (a) evaluated by the real code through
`jrharness eval` (batched arrays of calls; a failing batch is re-run call by call), (b) the Coq
SPEC ([spec_call]) and IMPL-MODEL ([impl_call]) evaluated with vm_compute, (c) independent
Python oracles (hashlib, base64, bytes.decode(errors="replace"), json).  Compared: value
canonically (strings as code points, numbers as doubles), error vs value coarsely.
Hash functions have NO Coq model: tied to hashlib only (exploration level for that clause).

Second part (C11/ModelMore.v, ProofsMore.v, PropertiesMore.v, PinsMore.v; Gen/GenStr.v from translator/gens/strfuns.py):
byte-level impl-models of asciiUpper/Lower, equalsIgnoreCase, isEmpty, length, stringChars, the strip family with its
guards, trim, strReplace, escapeStringBash/Dollars/XML/Json/Python, parseInt/Octal/Hex, resolvePath, driven by the
tables and constants regenerated from the source; the kinds of KINDS2 are judged through [spec_call2]/[impl_call2].
The text the CODE's escapers return is additionally handed to independent consumers (a real `sh`, xml.etree, `$$`
folding, Python json) which must give the argument back.
"""
import base64
import hashlib
import json
import os
import shutil
import subprocess
import tempfile

from vlib import core

IMPORTS = ("From Coq Require Import List ZArith NArith.\nFrom JrV Require Import Common.Utf8 C11.Model C11.ModelMore.\n"
           "Import ListNotations.\n")

ALPHA = ["a", "b", "A", " ", "\n", "\u00e9", "\u00df", "\u4e16", "\U0001F600", "\u0301", "\ufffd"]
# boundary characters for the case maps, the escapers, trim and the classifiers
ALPHA2 = ALPHA + ["z", "Z", "@", "[", "`", "{", "'", '"', "$", "<", ">", "&", "\\", "\t", "\x7f", "\x01",
                  "\r", "\x0c", "\x0b", "\u0085", "\u00a0", "\u2003", "\ud7ff", "\ue000", "\U0010FFFF", "\x80",
                  "\u00c9", "\u212a", "\u0130", "\u017f"]
SMALL = ["a", "é", "\U0001F600"]
# hostile alphabet of the second part (ModelMore.v): NUL, DEL, C1 controls, quotes, backslash, `$`, markup characters,
# surrogate-range neighbours, the last BMP / first astral / last scalar value, combining marks, and the characters whose
# Unicode case mappings are special (sharp s, dotted / dotless i, long s, Kelvin sign, ligature ff)
HOSTILE = ["a", "z", "A", "Z", "@", "[", "`", "{", "k", "K", "s", "i", "I", "\x00", "\x01", "\x1f", " ", "\t", "\n", "\r",
           "\x7f", "\x80", "\x85", "\x9f", "\xa0", "'", '"', "\\", "$", "<", ">", "&", ";", "#", "/", "-", "+",
           "\u00df", "\u00e9", "\u00c9", "\u0130", "\u0131", "\u017f", "\u212a", "\ufb00", "\u0301", "\u0300", "\u200d",
           "\u07ff", "\u0800", "\ud7ff", "\ue000", "\ufffd", "\ufffe", "\uffff", "\U00010000", "\U0001F600", "\U0010FFFF",
           "\u4e16"]
ESC_ALPHA = ["'", '"', "$", "<", ">", "&", "\\", "a", "\u00e9", "\n", "\x7f", "\x00", "\U0001F600", ";", "\x9f"]
CASE_EDGE = ["@", "A", "Z", "[", "`", "a", "z", "{", "K", "k", "\u212a", "s", "\u017f", "I", "i", "\u0130", "\u0131",
             "\u00df", "\u00c0", "\u00e0", "\x00", " ", "\x7f"]
ERR = ("ERR",)
K_SPLIT = "C11-split-empty-separator-accepted"
K_JSON = "C11-escapeStringJson-del-c1-raw"


def cps(s):
    return [ord(c) for c in s]


def cq_str(s):
    return "[" + ";".join(str(ord(c)) for c in s) + "]%N"


def cq_bytes(bs):
    return "[" + ";".join(str(b) for b in bs) + "]%N"


def cq_lim(n):
    return "None" if n is None else f"(Some {n}%nat)"


J = core.jstr


def jarr(xs):
    return "[" + ", ".join(str(x) for x in xs) + "]"


# ------------------------------------------------------------------ cases
# a case is a tuple (kind, *args); KINDS maps kind -> (jsonnet renderer, coq renderer or None)
def lim_js(n):
    return "-1" if n is None else str(n)


KINDS = {
    "length": (lambda s: f"std.length({J(s)})", lambda s: f"CLength {cq_str(s)}"),
    "substr": (lambda s, f, n: f"std.substr({J(s)}, {f}, {n})", lambda s, f, n: f"CSubstr {cq_str(s)} {f}%nat {n}%nat"),
    "chars": (lambda s: f"std.stringChars({J(s)})", lambda s: f"CChars {cq_str(s)}"),
    "isempty": (lambda s: f"std.isEmpty({J(s)})", lambda s: f"CIsEmpty {cq_str(s)}"),
    "find": (lambda p, s: f"std.findSubstr({J(p)}, {J(s)})", lambda p, s: f"CFind {cq_str(p)} {cq_str(s)}"),
    "split": (lambda s, c: f"std.split({J(s)}, {J(c)})", lambda s, c: f"CSplit {cq_str(s)} {cq_str(c)} None"),
    "splitlimit": (lambda s, c, n: f"std.splitLimit({J(s)}, {J(c)}, {lim_js(n)})",
                   lambda s, c, n: f"CSplit {cq_str(s)} {cq_str(c)} {cq_lim(n)}"),
    "splitlimitr": (lambda s, c, n: f"std.splitLimitR({J(s)}, {J(c)}, {lim_js(n)})",
                    lambda s, c, n: f"CSplitR {cq_str(s)} {cq_str(c)} {cq_lim(n)}"),
    "replace": (lambda s, f, t: f"std.strReplace({J(s)}, {J(f)}, {J(t)})",
                lambda s, f, t: f"CReplace {cq_str(s)} {cq_str(f)} {cq_str(t)}"),
    "starts": (lambda a, b: f"std.startsWith({J(a)}, {J(b)})", lambda a, b: f"CStarts {cq_str(a)} {cq_str(b)}"),
    "ends": (lambda a, b: f"std.endsWith({J(a)}, {J(b)})", lambda a, b: f"CEnds {cq_str(a)} {cq_str(b)}"),
    "lstrip": (lambda s, c: f"std.lstripChars({J(s)}, {J(c)})", lambda s, c: f"CLstrip {cq_str(s)} {cq_str(c)}"),
    "rstrip": (lambda s, c: f"std.rstripChars({J(s)}, {J(c)})", lambda s, c: f"CRstrip {cq_str(s)} {cq_str(c)}"),
    "strip": (lambda s, c: f"std.stripChars({J(s)}, {J(c)})", lambda s, c: f"CStrip {cq_str(s)} {cq_str(c)}"),
    # the same with the character set given as an array of one-character strings
    "stripa": (lambda s, c: f"std.stripChars({J(s)}, [{', '.join(J(x) for x in c)}])",
               lambda s, c: f"CStrip {cq_str(s)} {cq_str(c)}"),
    "trim": (lambda s: f"std.trim({J(s)})", lambda s: f"CTrim {cq_str(s)}"),
    "upper": (lambda s: f"std.asciiUpper({J(s)})", lambda s: f"CUpper {cq_str(s)}"),
    "lower": (lambda s: f"std.asciiLower({J(s)})", lambda s: f"CLower {cq_str(s)}"),
    "eqic": (lambda a, b: f"std.equalsIgnoreCase({J(a)}, {J(b)})", lambda a, b: f"CEqIc {cq_str(a)} {cq_str(b)}"),
    "codepoint": (lambda s: f"std.codepoint({J(s)})", lambda s: f"CCodepoint {cq_str(s)}"),
    "char": (lambda n: f"std.char({n})", lambda n: f"CChar ({n})%Z"),
    "escbash": (lambda s: f"std.escapeStringBash({J(s)})", lambda s: f"CEscBash {cq_str(s)}"),
    "escdollars": (lambda s: f"std.escapeStringDollars({J(s)})", lambda s: f"CEscDollars {cq_str(s)}"),
    "escxml": (lambda s: f"std.escapeStringXML({J(s)})", lambda s: f"CEscXml {cq_str(s)}"),
    "parseoctal": (lambda s: f"std.parseOctal({J(s)})", lambda s: f"CParseNat 8%N {cq_str(s)}"),
    "parsehex": (lambda s: f"std.parseHex({J(s)})", lambda s: f"CParseNat 16%N {cq_str(s)}"),
    "parseint": (lambda s: f"std.parseInt({J(s)})", lambda s: f"CParseInt {cq_str(s)}"),
    "encode": (lambda s: f"std.encodeUTF8({J(s)})", lambda s: f"CEncode {cq_str(s)}"),
    "decode": (lambda bs, lossy: f"std.decodeUTF8({jarr(bs)})" if lossy is None else
               f"std.decodeUTF8({jarr(bs)}, {'true' if lossy else 'false'})",
               lambda bs, lossy: f"CDecode {cq_bytes(bs)} {'false' if lossy is False else 'true'}"),
    "b64": (lambda s: f"std.base64({J(s)})", lambda s: f"CB64 {cq_str(s)}"),
    "b64bytes": (lambda bs: f"std.base64({jarr(bs)})", lambda bs: f"CB64Bytes {cq_bytes(bs)}"),
    "b64dec": (lambda s: f"std.base64Decode({J(s)})", lambda s: f"CB64Dec {cq_str(s)}"),
    "b64decbytes": (lambda s: f"std.base64DecodeBytes({J(s)})", lambda s: f"CB64DecBytes {cq_str(s)}"),
    # python-oracle only
    "escjson": (lambda s: f"std.escapeStringJson({J(s)})", lambda s: f"C2EscJson {cq_str(s)}"),
    "escpython": (lambda s: f"std.escapeStringPython({J(s)})", lambda s: f"C2EscJson {cq_str(s)}"),
    "resolvepath": (lambda f, r: f"std.resolvePath({J(f)}, {J(r)})", lambda f, r: f"C2Resolve {cq_str(f)} {cq_str(r)}"),
    "md5": (lambda s: f"std.md5({J(s)})", None),
    "sha1": (lambda s: f"std.sha1({J(s)})", None),
    "sha256": (lambda s: f"std.sha256({J(s)})", None),
    "sha512": (lambda s: f"std.sha512({J(s)})", None),
    "sha3": (lambda s: f"std.sha3({J(s)})", None),
    "parsejson": (lambda t: f"std.parseJson({J(t)})", None),
    "parseyaml": (lambda t: f"std.parseYaml({J(t)})", None),
    # round trips through the code only (spec: identity)
    "rt_utf8": (lambda s: f"std.decodeUTF8(std.encodeUTF8({J(s)}))", None),
    "rt_b64": (lambda s: f"std.base64Decode(std.base64({J(s)}))", None),
    "rt_b64bytes": (lambda bs: f"std.base64DecodeBytes(std.base64({jarr(bs)}))", None),
}

# second part: the same calls judged through ModelMore.v ([spec_call2] is [spec_call] on these, [impl_call2] is the
# byte-level impl-model driven by Gen/GenStr.v); kinds listed here are rendered as [call2] constructors
KINDS2 = {
    "upper": lambda s: f"C2Upper {cq_str(s)}", "lower": lambda s: f"C2Lower {cq_str(s)}",
    "eqic": lambda a, b: f"C2EqIc {cq_str(a)} {cq_str(b)}", "isempty": lambda s: f"C2IsEmpty {cq_str(s)}",
    "length": lambda s: f"C2Length {cq_str(s)}", "chars": lambda s: f"C2Chars {cq_str(s)}",
    "lstrip": lambda s, c: f"C2Lstrip {cq_str(s)} {cq_str(c)}", "rstrip": lambda s, c: f"C2Rstrip {cq_str(s)} {cq_str(c)}",
    "strip": lambda s, c: f"C2Strip {cq_str(s)} {cq_str(c)}", "stripa": lambda s, c: f"C2Strip {cq_str(s)} {cq_str(c)}",
    "trim": lambda s: f"C2Trim {cq_str(s)}",
    "replace": lambda s, f, t: f"C2Replace {cq_str(s)} {cq_str(f)} {cq_str(t)}",
    "escbash": lambda s: f"C2EscBash {cq_str(s)}", "escdollars": lambda s: f"C2EscDollars {cq_str(s)}",
    "escxml": lambda s: f"C2EscXml {cq_str(s)}",
    "escjson": lambda s: f"C2EscJson {cq_str(s)}", "escpython": lambda s: f"C2EscJson {cq_str(s)}",
    "parseint": lambda s: f"C2ParseInt {cq_str(s)}", "parseoctal": lambda s: f"C2ParseOctal {cq_str(s)}",
    "parsehex": lambda s: f"C2ParseHex {cq_str(s)}",
    "resolvepath": lambda f, r: f"C2Resolve {cq_str(f)} {cq_str(r)}",
}

HASHES = {"md5": hashlib.md5, "sha1": hashlib.sha1, "sha256": hashlib.sha256, "sha512": hashlib.sha512,
          "sha3": hashlib.sha3_512}


def case_js(c):
    return KINDS[c[0]][0](*c[1:])


def case_coq(c):
    if c[0] in KINDS2:
        return KINDS2[c[0]](*c[1:])
    f = KINDS[c[0]][1]
    return None if f is None else f(*c[1:])


def case_coq_pair(c):
    """the Gallina pair (SPEC answer, IMPL-MODEL answer) of a case"""
    q = case_coq(c)
    if q is None:
        return None
    if c[0] in KINDS2:
        return f"(spec_call2 ({q}), impl_call2 ({q}))"
    return f"(spec_call ({q}), impl_call ({q}))"


# ------------------------------------------------------------------ python oracles
def to_plain(v):
    """decanon'ed harness value -> plain python (objects as dicts)"""
    if isinstance(v, dict) and "__obj__" in v:
        return {k: to_plain(x) for k, x in v["__obj__"]}
    if isinstance(v, list):
        return [to_plain(x) for x in v]
    return v


def json_floats(v):
    if isinstance(v, bool) or v is None or isinstance(v, str):
        return v
    if isinstance(v, (int, float)):
        return float(v)
    if isinstance(v, list):
        return [json_floats(x) for x in v]
    return {k: json_floats(x) for k, x in v.items()}


def py_oracle(c):
    """expected python value (or ERR) for python-oracle kinds; ('CHECK', fn) for semantic checks"""
    k = c[0]
    if k in HASHES:
        return HASHES[k](c[1].encode("utf-8")).hexdigest()
    if k in ("rt_utf8", "rt_b64"):
        return c[1]
    if k == "rt_b64bytes":
        return [float(b) for b in c[1]]
    if k in ("parsejson", "parseyaml"):
        try:
            def no_const(x):
                raise ValueError(x)
            return json_floats(json.loads(c[1], parse_constant=no_const))
        except ValueError:
            return ERR
    if k in ("escjson", "escpython"):
        s = c[1]

        def chk(out):
            if not isinstance(out, str) or len(out) < 2 or out[0] != '"' or out[-1] != '"':
                return "not a quoted string"
            if any(ord(ch) < 0x20 for ch in out):
                return "raw control character in the output"
            try:
                back = json.loads(out)
            except ValueError as e:
                return f"output is not a JSON string: {e}"
            if back != s:
                return f"JSON reader gives back {back!r}"
            return None
        return ("CHECK", chk)
    raise KeyError(k)


JSON_SHORT = {'"': '\\"', "\\": "\\\\", "\b": "\\b", "\f": "\\f", "\n": "\\n", "\r": "\\r", "\t": "\\t"}


def ref_json_escape(s, raw_del_c1=False):
    """std.jsonnet's escapeStringJson, written independently of the Coq SPEC; raw_del_c1 = what jrsonnet does
    (the known finding): U+007F..U+009F are copied instead of being written as \\u00XX"""
    out = ['"']
    for ch in s:
        cp = ord(ch)
        if ch in JSON_SHORT:
            out.append(JSON_SHORT[ch])
        elif cp < 32 or (127 <= cp <= 159 and not raw_del_c1):
            out.append("\\u%04x" % cp)
        else:
            out.append(ch)
    return "".join(out) + '"'


XML_ENT = {"<": "&lt;", ">": "&gt;", "&": "&amp;", '"': "&quot;", "'": "&apos;"}
TRIM_WS = " \t\n\x0c\r\u0085\u00a0"


def ascii_lower(s):
    return "".join(chr(ord(x) + 32) if "A" <= x <= "Z" else x for x in s)


def py_cross(c):
    """independent second opinion on the Coq SPEC for a few kinds (None = no opinion)"""
    k = c[0]
    if k in ("escjson", "escpython"):
        return ref_json_escape(c[1])
    if k == "escxml":
        return "".join(XML_ENT.get(ch, ch) for ch in c[1])
    if k == "escbash":
        return "'" + c[1].replace("'", "'\"'\"'") + "'"
    if k == "escdollars":
        return c[1].replace("$", "$$")
    if k == "resolvepath":
        i = c[1].rfind("/")
        return c[2] if i < 0 else c[1][:i + 1] + c[2]
    if k == "isempty":
        return c[1] == ""
    if k == "eqic":
        return ascii_lower(c[1]) == ascii_lower(c[2])
    if k == "chars":
        return list(c[1])
    if k in ("lstrip", "rstrip", "strip", "stripa"):
        if not c[2]:
            return c[1]
        return {"lstrip": c[1].lstrip, "rstrip": c[1].rstrip, "strip": c[1].strip, "stripa": c[1].strip}[k](c[2])
    if k == "trim":
        return c[1].strip(TRIM_WS)
    if k == "decode":
        bs = bytes(c[1])
        if c[2] is False:
            try:
                return bs.decode("utf-8")
            except UnicodeDecodeError:
                return ERR
        return bs.decode("utf-8", errors="replace")
    if k == "encode":
        return [float(b) for b in c[1].encode("utf-8")]
    if k == "b64":
        return base64.b64encode(c[1].encode("utf-8")).decode("ascii")
    if k == "b64bytes":
        return base64.b64encode(bytes(c[1])).decode("ascii")
    if k == "length":
        return float(len(c[1]))
    if k == "upper":
        return "".join(chr(ord(x) - 32) if "a" <= x <= "z" else x for x in c[1])
    if k == "lower":
        return "".join(chr(ord(x) + 32) if "A" <= x <= "Z" else x for x in c[1])
    if k == "find":
        p, s = c[1], c[2]
        if not p or not s or len(p) > len(s):
            return []
        return [float(i) for i in range(len(s) - len(p) + 1) if s[i:i + len(p)] == p]
    if k == "split" and c[2]:
        return c[1].split(c[2])
    if k == "splitlimit" and c[2]:
        return c[1].split(c[2], -1 if c[3] is None else c[3])
    if k == "splitlimitr" and c[2]:
        return c[1].rsplit(c[2], c[3]) if c[3] is not None else c[1].split(c[2])
    if k == "replace" and c[2]:
        return c[1].replace(c[2], c[3])
    if k == "substr":
        return c[1][c[2]:c[2] + c[3]]
    if k == "starts":
        return c[1].startswith(c[2])
    if k == "ends":
        return c[1].endswith(c[2])
    return None


# ------------------------------------------------------------------ Coq results -> python
def res_py(t):
    if t == "RErr":
        return ERR
    if t == "RInf":
        return ("INF",)
    if isinstance(t, core.App):
        a = t.args[0]
        if t.name == "RStr":
            return "".join(chr(x) for x in a)
        if t.name == "RStrs":
            return ["".join(chr(x) for x in s) for s in a]
        if t.name in ("RNats", "RBytes"):
            return [float(x) for x in a]
        if t.name == "RInt":
            return ("INT", int(a))
        if t.name == "RBool":
            return bool(a)
    raise ValueError(f"bad model result {t!r}")


def as_value(r):
    """model result -> the value the code must return"""
    if isinstance(r, tuple) and r and r[0] == "INT":
        return float(r[1])
    return r


# ------------------------------------------------------------------ generators
class Gen:
    def __init__(self, rng):
        self.rng = rng

    def s(self, alpha, lo, hi):
        return "".join(self.rng.choice(alpha) for _ in range(self.rng.randint(lo, hi)))

    def rep(self, alpha, hi):
        """strings with repeats / overlaps: few distinct characters"""
        a = [self.rng.choice(alpha) for _ in range(self.rng.randint(1, 2))]
        return "".join(self.rng.choice(a) for _ in range(self.rng.randint(0, hi)))

    def sub_of(self, s, alpha):
        """a pattern that probably occurs in s"""
        if s and self.rng.chance(0.7):
            i = self.rng.below(len(s))
            return s[i:i + self.rng.randint(1, 3)]
        return self.s(alpha, 0, 3)


def all_strings(alpha, n):
    out = [""]
    layer = [""]
    for _ in range(n):
        layer = [x + a for x in layer for a in alpha]
        out += layer
    return out


INVALID_UTF8 = [
    [0x80], [0xBF], [0xC0, 0x80], [0xC1, 0xBF], [0xC2], [0xC2, 0x41], [0xDF, 0xBF], [0xE0, 0x80, 0x80], [0xE0, 0x9F, 0xBF],
    [0xE0, 0xA0, 0x80], [0xE4, 0xB8], [0xE4], [0xED, 0x9F, 0xBF], [0xED, 0xA0, 0x80], [0xED, 0xBF, 0xBF], [0xEE, 0x80, 0x80],
    [0xEF, 0xBF, 0xBD], [0xF0, 0x80, 0x80, 0x80], [0xF0, 0x8F, 0xBF, 0xBF], [0xF0, 0x90, 0x80, 0x80], [0xF0, 0x9F, 0x98],
    [0xF0, 0x9F], [0xF0], [0xF4, 0x8F, 0xBF, 0xBF], [0xF4, 0x90, 0x80, 0x80], [0xF5, 0x80, 0x80, 0x80], [0xF8], [0xFE], [0xFF],
    [0xE2, 0x82, 0xAC, 0x80], [0xC3, 0xA9, 0xA9], [0xF0, 0x9F, 0x98, 0x80, 0x80],
]
HOSTILE_BYTES = [0x00, 0x41, 0x7F, 0x80, 0x8F, 0x90, 0x9F, 0xA0, 0xBF, 0xC0, 0xC2, 0xDF, 0xE0, 0xED, 0xEF, 0xF0, 0xF4, 0xF5, 0xFF]

NUMERIC = [
    "0", "7", "8", "9", "10", "007", "00", "9007199254740991", "9007199254740992", "9007199254740993", "9007199254740994",
    "9007199254740995", "-9007199254740991", "-9007199254740993", "18014398509481985", "123456789012345678901234567890",
    "-", "--1", "-0", "+1", " 1", "1 ", "1_0", "1.0", "1e3", "0x10", "١", "１", "1́", "", "-a", "a", "A", "1a",
    "9" * 308, "9" * 309, "1" + "0" * 400, "-" + "9" * 400,
    # hex / octal
    "ff", "FF", "fF", "aBcDeF", "g", "G", "@", "`", "/", ":", ";", "<", "=", ">", "?", "1:", ":1", "f?", "[", "{",
    "1fffffffffffff", "20000000000000", "20000000000001", "20000000000002", "20000000000003", "3fffffffffffff",
    "377777777777777777", "400000000000000000", "400000000000000001", "400000000000000003", "777", "778", "78",
    "f" * 256, "f" * 257, "7" * 342, "7" * 400,
]

B64_TEXTS = [
    "", "YQ==", "YWI=", "YWJj", "YWJjZA==", "YR==", "YWJ=", "YQ=", "YQ", "Y", "YWJjZ", "=", "==", "====", "Y===", "YQ==YQ==",
    "YQ==\n", " YQ==", "Y Q==", "YQ\n==", "YW-j", "YW_j", "YW+j", "YW/j", "/w==", "//8=", "////", "+/+/", "éQ==", "YQ=a", "Y=Q=",
    "7aCA", "wIA=", "8J+YgA==", "8J+Y", "AAAA", "AA==", "AAA=", "gA==", "w6k=", "5LiW",
]

JSON_BAD = ["", " ", "{", "[1,]", "{'a':1}", "01", "nul", '"\x01"', "1 2", "[1 2]", '{"a":1,}', '{"a" 1}', "+1", ".5", "1.",
            '"\\x"', "[", "tRue", '"a', "NaN"]
JSON_EXTRA = ['"\\u00e9\\ud83d\\ude00"', '"\\/\\b\\f"', " [ 1 , 2 ] ", '{"a":{"b":[]}}', "1e3", "-0", "1E+2", "0.5", "[[[[]]]]",
              '{"":""}', '"\\u0000"', "12345678", "9007199254740991"]


def gen_json(g, d):
    r = g.rng.below(10 if d > 0 else 6)
    if r == 0:
        return None
    if r == 1:
        return g.rng.chance(0.5)
    if r == 2:
        return g.rng.choice([0, 1, -1, 7, 255, 65536, 4294967296, 9007199254740991, -9007199254740991])
    if r == 3:
        return g.rng.choice([0.5, -1.25, 1000.0, 0.125, 3.75])
    if r < 6:
        return g.s(ALPHA2, 0, 5)
    if r < 8:
        return [gen_json(g, d - 1) for _ in range(g.rng.below(4))]
    return {g.s(ALPHA2, 0, 3) + str(i): gen_json(g, d - 1) for i in range(g.rng.below(4))}


def more_cases(run, g, add, n_rand, thorough):
    """second part (ModelMore.v): dense around what an off-by-one / wrong-branch edit of the builtins would move"""
    R = g.rng
    # known finding first, so that it is seen to reproduce
    for s in ["\x7f", "a\u0085", "\x9f\x7f", "\x7e\xa0"]:
        add(("escjson", s))
        add(("escpython", s))
    # ---- escapers: every string of length <= 2 over the characters the escapers look at, random longer ones
    esc = all_strings(ESC_ALPHA, 2) + [g.s(ESC_ALPHA, 3, 9) for _ in range(n_rand * 2)] + \
        [g.s(HOSTILE, 1, 6) for _ in range(n_rand)] + [a + b for a in "'$<&\"" for b in HOSTILE[:8]]
    for s in esc:
        for k in ("escbash", "escdollars", "escxml", "escjson"):
            if len(s) <= 1 or R.chance((0.7 if k == "escjson" else 0.5) if not thorough else 1):
                add((k, s))
        if R.chance(0.15):
            add(("escpython", s))
    # ---- case maps / equalsIgnoreCase: every character next to a case boundary alone and in pairs (0x20 apart!)
    for a in CASE_EDGE + HOSTILE:
        for k in ("upper", "lower", "length", "chars", "isempty", "codepoint", "trim"):
            add((k, a))
        add(("upper", a + "\u00e9" + a))
        add(("lower", "\U0001F600" + a))
    for a in CASE_EDGE:
        for b in CASE_EDGE:
            if a <= b or thorough or R.chance(0.25):
                add(("eqic", a, b))
            if R.chance(0.15):
                add(("eqic", "x" + a, "X" + b))
                add(("eqic", a + "\u00e9", b + "\u00c9"))
    for _ in range(n_rand * 2):
        s = g.s(HOSTILE, 0, 7)
        t = "".join(R.choice([x, x.upper(), x.lower(), x.swapcase()]) if R.chance(0.6) else x for x in s)
        add(("eqic", s, t[:len(s)]))
        add(("eqic", s, s + R.choice(["", "a", "\u0301"])))
        for k in ("upper", "lower", "length", "chars"):
            add((k, s))
    for s in ["", "\x00", " ", "\u0301", "\u200d", "\U0010FFFF"]:
        add(("isempty", s))
        add(("length", s))
        add(("chars", s))
    # ---- strip family: the two guards, sets with repeats, characters that are prefixes of each other in UTF-8
    sets = ["", "a", "aa", "ab", "\u00e9", "\u00e9\u00e8", "\U0001F600\U0001F601", " \t", "\x00", "a\u0301"]
    bodies = ["", "a", "b", "aba", "\u00e9a\u00e8", "\u00e8", "\U0001F601x\U0001F600", "a\u0301a", "\x00a\x00", "  a b\t"]
    for s in bodies:
        for cs in sets:
            for k in ("lstrip", "rstrip", "strip"):
                add((k, s, cs))
            if cs and R.chance(0.4):
                add(("stripa", s, cs))
    ws = [" ", "\t", "\n", "\x0c", "\r", "\u0085", "\u00a0", "\x0b", "\x1c", "\u2028", "\u3000", "\ufeff", "\u1680", "\x00"]
    for a in ws:
        for b in ws[:6]:
            add(("trim", a + "x" + b))
            add(("trim", a + b))
    # ---- parseInt sign handling
    for s in ["-", "", "--1", "-+1", "+1", "-0", "0-", "1-", "\u22121", "-\u0661", "- 1", "-1 ", "-9007199254740991",
              "-9007199254740992", "-9007199254740993", "-00012", "-a", "a-", "-/", "-:", "0", "-1", "12", "-12", "1-2"]:
        add(("parseint", s))
    for s in ["-1", "-", "+7", "7", "17", "18", "08", "0o7", "0x1f", "1f", "-1f", "fg", "Ff", "10", "7_"]:
        add(("parseoctal", s))
        add(("parsehex", s))
    # ---- resolvePath: last '/', none, first, doubled, multi-byte neighbours
    pa = ["a", "/", "\u00e9", "\U0001F600", "\\", "."]
    for f in all_strings(pa, 3 if not thorough else 4):
        if len(f) <= 2 or R.chance(0.35):
            add(("resolvepath", f, R.choice(["", "x", "/y", "\u00e9", "a/b", ".."])))
    for f in ["dir/sub/file.jsonnet", "/", "//", "a//", "\u00e9/\u00e9", "a\u2215b", "a/\U0001F600", "noslash", ""]:
        for r in ["", "r", "/r"]:
            add(("resolvepath", f, r))
    # ---- strReplace through the byte-level model: overlapping, multi-byte, empty replacement
    for s, f, to in [("aaa", "aa", "b"), ("\u00e9\u00e9\u00e9", "\u00e9\u00e9", "\u00e9"), ("a'b'c", "'", "'\"'\"'"), ("$$", "$", "$$"),
                     ("abc", "abc", ""), ("abc", "abcd", "x"), ("\U0001F600a", "\U0001F600", "a"), ("a\x00b", "\x00", "")]:
        add(("replace", s, f, to))


def enumerate_cases(run, scale=1):
    thorough = run.tier == "thorough"
    g = Gen(run.rng.fork("gen"))
    R = g.rng
    cases = []
    add = cases.append
    n_rand = (30 if not thorough else 1500) * scale

    # ---- the fixed corpus: known findings and past defects first
    for s in [":", "?", "1:", ";", "<", "=", ">", "f:", "@"]:
        add(("parsehex", s))   # fixed 37ccdb5: ':'..'?' were read as the digits 10..15
    for s, c in [("abc", ""), ("", ""), ("éa", "")]:
        add(("split", s, c))
        add(("splitlimit", s, c, 1))
        add(("splitlimitr", s, c, 1))

    # ---- unary string functions: all strings of length <= 2 (3 in thorough) + random up to 12
    base = all_strings(ALPHA, 3 if thorough else 2)
    rand12 = [g.s(ALPHA, 3, 12) for _ in range(n_rand)]
    rand2 = [g.s(ALPHA2, 1, 8) for _ in range(n_rand)] + [a for a in ALPHA2] + [a + "é" for a in ALPHA2[11:]]
    if not thorough:
        base3 = [g.s(ALPHA, 3, 3) for _ in range(25)]
    else:
        base3 = []
    for s in base + base3 + rand12:
        for k in ("length", "chars", "encode", "b64"):
            add((k, s))
    per_char = (all_strings(ALPHA, 1) + rand12[:15] + rand2) if not thorough else (base[:134] + rand12[:40] + rand2)
    for s in per_char:
        for k in ("upper", "lower", "escbash", "escdollars", "escxml", "escjson", "trim", "isempty", "rt_utf8", "rt_b64"):
            add((k, s))
        if R.chance(0.3):
            add(("escpython", s))
        add(("codepoint", s))
    # ---- hashes: every string of length <= 1, block-boundary lengths, random
    hs = all_strings(ALPHA, 1) + rand12[:25] + rand2[:25]
    for n in (55, 56, 57, 63, 64, 65, 71, 72, 73, 111, 112, 113, 119, 127, 128, 129, 135, 136, 137, 143, 144, 145, 1000):
        hs.append("a" * n)
        hs.append(("é" * n)[: n // 2] + "b" * (n % 2))
        hs.append(g.s(ALPHA, n // 3, n // 3))
    for s in hs:
        for k in HASHES:
            add((k, s))
    # ---- substr: every from / len in 0..len+2
    subs = all_strings(SMALL, 2) + [g.s(ALPHA, 3, 6) for _ in range(6 * scale)] + [g.s(ALPHA, 7, 12) for _ in range(2 * scale)]
    for s in subs:
        for f in range(len(s) + 3):
            for n in range(len(s) + 3):
                if len(s) <= 2 or R.chance(0.3):
                    add(("substr", s, f, n))
    # ---- findSubstr / startsWith / endsWith / equalsIgnoreCase: exhaustive small, overlapping, random
    small3 = all_strings(SMALL, 3)
    pats = all_strings(SMALL, 2)
    for s in small3:
        for p in pats:
            if len(s) <= 2 or R.chance(0.3 if not thorough else 1):
                add(("find", p, s))
            if R.chance(0.12):
                add(("starts", s, p))
                add(("ends", s, p))
    for _ in range(n_rand * 3):
        s = g.rep(R.choice([ALPHA, SMALL, ["a", "b"], ["é", "ß", "世"]]), 12) if R.chance(0.6) else g.s(ALPHA, 0, 12)
        p = g.sub_of(s, ALPHA)
        add(("find", p, s))
        add(("starts", s, p))
        add(("ends", s, p))
        add(("starts", s, s[:R.below(len(s) + 1)]))
        add(("ends", s, s[R.below(len(s) + 1):]))
        t = "".join(R.choice([x, x.upper(), x.lower()]) for x in s)
        add(("eqic", s, t))
        add(("eqic", g.s(ALPHA2, 0, 3), g.s(ALPHA2, 0, 3)))
    for s, p in [("aaaa", "aa"), ("aaaa", "aaaaa"), ("", "a"), ("a", ""), ("", ""), ("ééé", "éé"),
                 ("aé", "é"), ("\U0001F600a", "a"), ("ab", "ab"), ("世", "é"), ("ée", "e")]:
        add(("find", p, s))
        add(("starts", s, p))
        add(("ends", s, p))
    # ---- split family / strReplace
    seps = [x for x in all_strings(SMALL, 2) if x]
    for s in small3:
        for c in seps:
            if R.chance(0.2 if not thorough else 1):
                add(("split", s, c))
                n = R.choice([None, 0, 1, 2, 3, len(s) + 2])
                add(("splitlimit", s, c, n))
                add(("splitlimitr", s, c, n))
                add(("replace", s, c, R.choice(["", "b", c + c, "世"])))
    for _ in range(n_rand * 2):
        s = g.rep(R.choice([ALPHA, SMALL, ["a", ","], ["é", "\U0001F600"]]), 12)
        c = g.sub_of(s, ALPHA) or "a"
        add(("split", s, c))
        for n in (None, 0, 1, 2, R.randint(3, len(s) + 3)):
            if R.chance(0.5):
                add(("splitlimit", s, c, n))
                add(("splitlimitr", s, c, n))
        add(("replace", s, c, g.s(ALPHA, 0, 2)))
    add(("replace", "abc", "", "x"))
    for s, c in [("aaa", "aa"), ("aaaa", "aa"), ("abab", "ab"), ("a,b,,c,", ","), (",", ","), ("", ","), ("abc", "abcd")]:
        add(("split", s, c))
        for n in (None, 0, 1, 2, 5):
            add(("splitlimit", s, c, n))
            add(("splitlimitr", s, c, n))
        add(("replace", s, c, "x"))
    # ---- strip family
    for _ in range(n_rand * 2):
        cs = g.s(R.choice([ALPHA, SMALL, ["a", " "]]), 0, 3)
        core_ = g.s(ALPHA, 0, 4)
        s = g.s(list(cs) or ["a"], 0, 3) + core_ + g.s(list(cs) or ["a"], 0, 3)
        for k in ("lstrip", "rstrip", "strip"):
            add((k, s, cs))
        if cs:
            add(("stripa", s, cs))
    for s in small3[:40]:
        for cs in ("a", "éa", "\U0001F600"):
            add(("strip", s, cs))
            add(("rstrip", s, cs))
    ws = [" ", "\t", "\n", "\x0c", "\r", "\u0085", "\u00a0", "\x0b", "\u2003", "a", "\u00e9"]
    for _ in range(n_rand):
        add(("trim", g.s(ws, 0, 4) + g.s(ALPHA, 0, 3) + g.s(ws, 0, 4)))
    # ---- codepoint / char
    for n in [0, 1, 65, 127, 128, 255, 2047, 2048, 55295, 55296, 56319, 56320, 57343, 57344, 65533, 65535, 65536, 128512,
              1114111, 1114112, 2000000, 4294967295, -1]:
        add(("char", n))
    for _ in range(20 * scale):
        add(("char", R.choice([R.below(0x800), R.below(0x110000), 0xD000 + R.below(0x1800), 0x10FF00 + R.below(0x300)])))
    # ---- parsers
    for s in NUMERIC:
        add(("parseint", s))
        add(("parseoctal", s))
        add(("parsehex", s))
    for _ in range(n_rand * 2):
        for k, digs in (("parseint", "0123456789"), ("parseoctal", "01234567"), ("parsehex", "0123456789abcdefABCDEF")):
            s = "".join(R.choice(digs) for _ in range(R.choice([1, 2, 5, 15, 16, 17, 18, 20, 25])))
            if k == "parseint" and R.chance(0.3):
                s = "-" + s
            if R.chance(0.25):
                i = R.below(len(s) + 1)
                s = s[:i] + R.choice(["8", "9", "a", "g", "G", ":", "/", "@", "`", "-", " ", "é", "f", "F", "?"]) + s[i:]
            add((k, s))
    # ---- UTF-8 decoder: every invalid class, bare and embedded; random hostile bytes
    for bad in INVALID_UTF8:
        for ctx in ([], [0x61]):
            for tail in ([], [0x62], [0x80]):
                bs = ctx + bad + tail
                add(("decode", bs, None))
                if not tail or thorough:
                    add(("decode", bs, False))
    for _ in range(n_rand * 2):
        bs = [R.choice(HOSTILE_BYTES) if R.chance(0.7) else R.below(256) for _ in range(R.randint(0, 8))]
        add(("decode", bs, R.choice([None, True, False])))
        good = list(g.s(ALPHA, 0, 4).encode("utf-8"))
        add(("decode", good, R.choice([None, False])))
        if good:
            cut = good[:R.below(len(good))] + good[R.below(len(good)):]
            add(("decode", cut, R.choice([None, False])))
    # ---- base64
    for n in range(0, 8):
        for _ in range(3):
            bs = [R.choice([0, 255, 128, R.below(256)]) for _ in range(n)]
            add(("b64bytes", bs))
            add(("rt_b64bytes", bs))
    for t in B64_TEXTS:
        add(("b64dec", t))
        add(("b64decbytes", t))
    for _ in range(n_rand * 2):
        bs = bytes(R.below(256) for _ in range(R.randint(0, 9)))
        t = base64.b64encode(g.s(ALPHA, 0, 5).encode("utf-8") if R.chance(0.5) else bs).decode("ascii")
        if R.chance(0.5) and t:
            i = R.below(len(t))
            t = R.choice([t[:i] + t[i + 1:], t[:i] + R.choice("AB=/-_ \n9z") + t[i + 1:], t + "=", t + "A", t[:-1]])
        add(("b64dec", t))
        add(("b64decbytes", t))
    # ---- parseJson / parseYaml on JSON-compatible input
    for _ in range(n_rand * 2):
        v = gen_json(g, 3)
        t = json.dumps(v, ensure_ascii=False, indent=R.choice([None, None, 1]))
        add(("parsejson", t))
        add(("parseyaml", t))
        if R.chance(0.3):
            add(("parsejson", json.dumps(v, ensure_ascii=True)))
    for t in JSON_EXTRA:
        add(("parsejson", t))
    for t in JSON_BAD:
        add(("parsejson", t))
    more_cases(run, g, add, n_rand, thorough)
    # dedupe, keep order
    seen, out = set(), []
    for c in cases:
        k = repr(c)
        if k not in seen:
            seen.add(k)
            out.append(c)
    return out


# ------------------------------------------------------------------ the check
BATCH = 40
CHUNK = 4


def run_code(run, binary, cases, expect_ok):
    """evaluate every case with the real code: cases expected to succeed are batched into array
    programs; a batch that does not evaluate is re-run one call per request"""
    answers = [None] * len(cases)
    singles = [i for i in range(len(cases)) if not expect_ok[i]]
    okidx = [i for i in range(len(cases)) if expect_ok[i]]
    batches = [okidx[i:i + BATCH] for i in range(0, len(okidx), BATCH)]
    reqs = [{"code": "[\n" + ",\n".join(case_js(cases[i]) for i in b) + "\n]"} for b in batches]
    reqs += [{"code": case_js(cases[i])} for i in singles]
    outs = core.run_harness(binary, "eval", reqs)
    redo = []
    for b, o in zip(batches, outs[:len(batches)]):
        if "ok" in o and isinstance(o["ok"], list) and len(o["ok"]) == len(b):
            for i, v in zip(b, o["ok"]):
                answers[i] = {"ok": v}
        else:
            redo.extend(b)
    for i, o in zip(singles, outs[len(batches):]):
        answers[i] = o
    if redo:
        run.count("rerun-individually", len(redo))
        outs2 = core.run_harness(binary, "eval", [{"code": case_js(cases[i])} for i in redo])
        for i, o in zip(redo, outs2):
            answers[i] = o
    return answers, len(reqs) + len(redo)


def outcome(o):
    """harness answer -> python value | ERR | ('CRASH', text)"""
    if o is None:
        return ("CRASH", "no answer")
    if "ok" in o:
        return to_plain(core.decanon(o["ok"]))
    if "err" in o:
        return ERR
    return ("CRASH", json.dumps(o)[:200])


def show(v):
    s = repr(v)
    return s if len(s) <= 300 else s[:300] + "..."


def xml_legal(s):
    return all(ch in "\t\n" or (0x20 <= ord(ch) <= 0xD7FF) or (0xE000 <= ord(ch) <= 0xFFFD) or ord(ch) >= 0x10000 for ch in s)


def consumer_checks(run, items):
    """independent consumers of the escaped text the CODE returned: POSIX sh quote removal (escapeStringBash), an XML
    parser (escapeStringXML), `$$` -> `$` (escapeStringDollars).  items: (case dict, kind, argument, code output)."""
    import xml.etree.ElementTree as ET
    fails = []

    def bad(case, kind, arg, got, why):
        fails.append({"case": case, "what": "a consumer of the escaped text does not get the argument back",
                      "summary": f"C11 {kind}: {case['jsonnet'][:160]} -> {show(got)[:120]}: {why}",
                      "expected": f"text that {why.split(':')[0]} reads back as the argument", "got": show(got), "why": why})
    bash = [(c, a, g) for c, k, a, g in items if k == "escbash" and isinstance(g, str) and "\x00" not in g and "\x00" not in a]
    if bash and shutil.which("sh"):
        d = tempfile.mkdtemp(dir=core.CACHE)
        try:
            env = {"LC_ALL": "C", "PATH": os.environ.get("PATH", "/bin:/usr/bin")}

            def run_sh(words):
                path = os.path.join(d, "unquote.sh")
                with open(path, "wb") as f:
                    f.write(b"".join(b"printf '%s\\0' " + w.encode("utf-8") + b"\n" for w in words))
                p = subprocess.run(["sh", path], stdout=subprocess.PIPE, stderr=subprocess.PIPE, timeout=120, env=env)
                return p.returncode, p.stdout.split(b"\0")[:-1]
            rc, outs = run_sh([g for _, _, g in bash])
            if rc == 0 and len(outs) == len(bash):
                results = outs
            else:  # some word is not a word: one shell per item
                results = []
                for _, _, g in bash[:400]:
                    rc1, o1 = run_sh([g])
                    results.append(o1[0] if rc1 == 0 and len(o1) == 1 else None)
            for (case, a, g), o in zip(bash, results):
                run.count("consumer:sh")
                if o is None or o != a.encode("utf-8"):
                    bad(case, "escbash", a, g, f"sh quote removal: gives {o!r}")
        finally:
            shutil.rmtree(d, ignore_errors=True)
    for case, k, a, g in items:
        if k == "escxml" and isinstance(g, str) and xml_legal(a):
            run.count("consumer:xml")
            try:
                el = ET.fromstring(("<a b=\"" + g + "\" c='" + g + "'>" + g + "</a>").encode("utf-8"))
                back = el.text or ""
            except ET.ParseError as e:
                bad(case, k, a, g, f"an XML parser: rejects the text as content / attribute value ({e})")
                continue
            if back != a:
                bad(case, k, a, g, f"an XML parser: gives {back!r}")
        if k == "escdollars" and isinstance(g, str):
            run.count("consumer:dollars")
            if g.replace("$$", "") .count("$") or g.replace("$$", "$") != a:
                bad(case, k, a, g, "reading $$ as $: does not give the argument back, or a single $ is left")
    return fails


def correspond(run, binary, cases):
    failures, model_diffs = [], []
    run.log(f"{len(cases)} distinct calls")
    # ---- model side
    exprs, where = [], []
    for i, c in enumerate(cases):
        q = case_coq_pair(c)
        if q is not None:
            exprs.append(q)
            where.append(i)
    # several calls per Eval (a list of pairs): fewer coqc processes, whose start-up dominates
    chunks = [exprs[i:i + CHUNK] for i in range(0, len(exprs), CHUNK)]
    raw = core.coq_eval(IMPORTS, ["[" + "; ".join(ch) + "]" for ch in chunks])
    model = []
    for ch, r in zip(chunks, raw):
        if isinstance(r, list) and len(r) == len(ch):
            model.extend(r)
        else:
            model.extend([r if isinstance(r, tuple) and r and r[0] == "ERROR" else ("ERROR", repr(r)[:300])] * len(ch))
    spec = [None] * len(cases)
    impl = [None] * len(cases)
    bad_model = 0
    for i, m in zip(where, model):
        if isinstance(m, tuple) and m and m[0] == "ERROR":
            bad_model += 1
            if bad_model == 1:
                run.obligation("model.eval", False, str(m[1])[:300])
            continue
        try:
            spec[i], impl[i] = res_py(m[0]), res_py(m[1])
        except Exception as e:  # noqa
            bad_model += 1
            run.obligation("model.eval", False, f"{e}")
    run.log(f"model evaluated ({len(exprs)} calls)")
    # ---- expectation per case
    expect, judged_against = [None] * len(cases), [None] * len(cases)
    cross_bad = []
    for i, c in enumerate(cases):
        if case_coq(c) is None:
            expect[i] = py_oracle(c)
            judged_against[i] = "python"
            continue
        if spec[i] is None:
            continue
        sp = spec[i]
        if isinstance(sp, tuple) and sp[0] == "INT" and abs(sp[1]) >= 2 ** 53 and c[0].startswith("parse"):
            # beyond 2^53 the documented fold is inexact: the code is compared with the impl-model only
            expect[i] = as_value(impl[i])
            judged_against[i] = "impl"
            run.count("parse:beyond-2^53")
        else:
            expect[i] = as_value(sp)
            judged_against[i] = "spec"
            x = py_cross(c)
            if x is not None and x != expect[i]:
                cross_bad.append({"case": repr(c), "coq_spec": show(expect[i]), "python": show(x)})
    run.obligation("spec.cross-check(Coq SPEC = independent Python definition on every generated case)",
                   not cross_bad, json.dumps(cross_bad[:3], ensure_ascii=False))
    # ---- code side
    expect_ok = [not (e is None or e == ERR or e == ("INF",)) for e in expect]
    answers, nreq = run_code(run, binary, cases, expect_ok)
    run.log(f"harness done ({nreq} requests)")
    hits = {K_SPLIT: 0, K_JSON: 0}
    consume = []
    for i, c in enumerate(cases):
        if expect[i] is None:
            continue
        kind = c[0]
        run.count(f"fn:{kind}")
        js = case_js(c)
        trivial = all((a == "" or a == [] or a is None) for a in c[1:])
        run.note_case(js, not trivial)
        got = outcome(answers[i])
        exp = expect[i]
        case = {"jsonnet": js, "kind": kind, "args": [a if not isinstance(a, str) else cps(a) for a in c[1:]]}
        if exp == ("INF",):
            exp = ERR  # a non-finite result must be refused
        if isinstance(exp, tuple) and exp and exp[0] == "CHECK":
            why = exp[1](got) if not (isinstance(got, tuple)) else f"no value: {got}"
            ok = why is None
            exp_show = "a JSON string literal that reads back as the argument"
        else:
            ok = got == exp
            why = None
            exp_show = show(exp)
        run.count("outcome:error" if got == ERR else "outcome:value")
        if kind in ("escbash", "escxml", "escdollars"):
            consume.append((case, kind, c[1], got))
        if kind in ("escjson", "escpython"):
            # on top of the comparison with the reference definition: the output must read back through an independent
            # JSON reader as the argument and hold no raw control character (never excused by the known finding)
            why2 = py_oracle(c)[1](got) if not isinstance(got, tuple) else f"no value: {got}"
            if why2:
                failures.append({"case": case, "what": "escaped text does not read back as the argument",
                                 "summary": f"C11 {kind}: {js[:160]} -> {show(got)[:120]}: {why2}",
                                 "expected": "a JSON string literal that reads back as the argument", "got": show(got),
                                 "why": why2})
                continue
        if ok:
            if judged_against[i] == "spec" and impl[i] is not None and as_value(impl[i]) != exp and \
                    not (as_value(impl[i]) == ("INF",) and exp == ERR):
                model_diffs.append({"case": case, "impl_model": show(as_value(impl[i])), "code": show(got)})
            if len(run.samples) < 10 and not trivial and i % 97 == 0:
                run.samples.append({"jsonnet": js, "result": show(got)})
            continue
        f = {"case": case, "what": f"std function result differs from its definition ({judged_against[i]})",
             "summary": f"C11 {kind}: {js[:160]} -> {show(got)[:120]}, definition gives {exp_show[:120]}",
             "expected": exp_show, "got": show(got)}
        if why:
            f["why"] = why
        if judged_against[i] == "impl":
            # the SPEC does not speak (inexact range): a structural disagreement
            model_diffs.append({"case": case, "impl_model": exp_show, "code": show(got)})
            continue
        # ---- known findings: narrow classifiers
        if kind in ("split", "splitlimit", "splitlimitr") and c[2] == "" and exp == ERR and isinstance(got, list):
            f["known"] = K_SPLIT
            hits[K_SPLIT] += 1
        # DEL / C1 controls left raw by escapeStringJson/Python: exactly the reference output with those (and only
        # those) characters copied instead of \u00XX-escaped
        if kind in ("escjson", "escpython") and any(0x7f <= ord(ch) <= 0x9f for ch in c[1]) and \
                got == ref_json_escape(c[1], raw_del_c1=True):
            f["known"] = K_JSON
            hits[K_JSON] += 1
        failures.append(f)
    failures.extend(consumer_checks(run, consume))
    for kid, n in hits.items():
        run.count(f"known:{kid}", n)
    return failures, model_diffs, hits


def check(run, terrs):
    proofs_ok, detail = core.check_property_file(run, "C11")
    binary, err = core.build_harness(run)
    if not binary:
        run.obligation("harness.build", False, err)
        return core.conclude(run, False, err, [], [])
    failures, model_diffs, hits = correspond(run, binary, enumerate_cases(run))
    known = {k["id"] for k in core.load_known("C11")}
    for kid, n in hits.items():
        if kid in known:
            run.obligation(f"known-finding.{kid}.still-reproduces", n > 0,
                           "the recorded finding no longer reproduces: drop it from known_findings and from the "
                           "restricted theorem")
    kinds = {}
    for f in failures:
        k = ("known:" + f["known"]) if f.get("known") else f["case"]["kind"]
        kinds[k] = kinds.get(k, 0) + 1
    run.log(f"failures by kind: {kinds}; model diffs: {len(model_diffs)}")
    failures.sort(key=lambda f: len(f["case"]["jsonnet"]))
    run.trusted = TRUSTED
    run.assumptions = ASSUMPTIONS
    run.notes.append("hash functions (md5, sha1, sha256, sha512, sha3): no Coq model; compared with Python hashlib "
                     "only (exploration level for that clause)")
    run.notes.append("escapeStringJson/Python: judged semantically (a JSON reader returns the argument, no raw "
                     "control characters); jrsonnet does not escape U+007F..U+009F as std.jsonnet's reference does")
    return core.conclude(run, proofs_ok, detail, failures, model_diffs,
                         search=(lambda: search(run, binary)) if run.tier == "quick" else None,
                         level="proof", rule=RULE)


def search(run, binary):
    run.log("search: wider enumeration")
    f, _, _ = correspond(run, binary, enumerate_cases(run, scale=4))
    return f


def replay(run, data):
    binary, err = core.build_harness(run)
    f = data.get("failure", {})
    code = f.get("case", {}).get("jsonnet")
    if not code:
        print(json.dumps(data, indent=1)[:3000])
        return 1
    outs = core.run_harness(binary, "eval", [{"code": code}])
    print("jsonnet :", code)
    print("expected:", f.get("expected"))
    print("was     :", f.get("got"))
    print("now     :", show(outcome(outs[0])), outs[0] if "ok" not in outs[0] else "")
    return 0


RULE = ("calls std.<fn>(args) for 46 function entry points; strings over {a, b, A, ' ', '\\n', e-acute, sharp-s, "
        "U+4E16, U+1F600, U+0301, U+FFFD} (+ boundary characters for case maps / escapers / trim): all strings of "
        "length <= 2 for the unary functions, all (pattern, string) and (string, separator) pairs over {a, e-acute, "
        "U+1F600} up to length 3 (sampled in quick), random up to length 12 with repeated/overlapping patterns, "
        "from/len/maxsplits 0..len+2, every class of ill-formed UTF-8 bare and embedded, base64 texts with every "
        "padding/trailing-bit/alphabet defect, numeric strings around 2^53, the digit-validity boundaries and "
        "overflow; second part: all strings of length <= 2 over {' \" $ < > & \\ a e-acute \\n DEL NUL U+1F600 ; U+009F} for "
        "the five escapers, every case-boundary character (@ A Z [ ` a z {, Kelvin sign, long s, dotted / dotless i, sharp s) "
        "alone and in pairs for the case maps / equalsIgnoreCase, strip guards (empty string / empty set) and sets whose "
        "UTF-8 encodings share prefixes, 14 white-space candidates around trim's set, parseInt sign placements, resolvePath "
        "over {a / e-acute U+1F600 \\ .} up to length 3, a 59-character hostile alphabet (NUL, DEL, C1, surrogate-range "
        "neighbours, U+FFFF, U+10000, U+10FFFF, combining marks); "
        "distinct = distinct Jsonnet call; non-trivial = some argument non-empty")
TRUSTED = ["Coq 8.16.1 kernel incl. vm_compute (no native_compute)",
           "no axioms (all C11 theorems closed under the global context)",
           "SPEC definitions are my reading of the std documentation / reference std.jsonnet, RFC 3629, RFC 4648 "
           "(cross-checked against independent Python definitions on every generated case)",
           "correspondence: jrharness eval, vlib generators, Coq term printer/parser, Python hashlib/base64/json/codecs",
           "modelled not verified: Rust core::str searchers (split/replace/starts_with as leftmost byte search), "
           "f64 mul_add on integer-valued doubles as one rounding to 53 bits (rnd53), the base64 / digest / "
           "serde_json / serde-saphyr crates (correspondence only)",
           "translator/gens/strfuns.py (copies the tables / constants / method names it matches into Gen/GenStr.v; fails "
           "closed on any builtin body it does not recognise)",
           "second part: sh_unquote / unxml / esc_json_spec are my formalisations of POSIX quote removal, the predefined XML "
           "entities and std.jsonnet's escapeStringJson (cross-checked every run against /bin/sh, xml.etree, Python)"]
ASSUMPTIONS = ["impl-model transliterates strings.rs / encoding.rs / misc.rs; tie = differential run on every check",
               "strings hold Unicode scalar values (Rust str invariant)",
               "hash functions: no theorem, hashlib comparison only"]
