"""C11 — stdlib string, encoding, parsing and hashing functions match their definitions.

Theorems: coq/theories/Common/Utf8.v + coq/theories/C11 (UTF-8 round trip / decoder soundness /
prefix freedom / full self-synchronisation; findSubstr's byte walk = the code-point definition; substr; split byte search = code-point definition + laws; endsWith; strip;
parse_nat classifier + exact accumulation below 2^53; codepoint/char; base64 round trip).
Correspondence: generated calls std.<fn>(args) -> (a) evaluated by the real code through
`jrharness eval` (batched arrays of calls; a failing batch is re-run call by call), (b) the Coq
SPEC ([spec_call]) and IMPL-MODEL ([impl_call]) evaluated with vm_compute, (c) independent
Python oracles (hashlib, base64, bytes.decode(errors="replace"), json).  Compared: value
canonically (strings as code points, numbers as doubles), error vs value coarsely.
Hash functions have NO Coq model: tied to hashlib only (exploration level for that clause).
"""
import base64
import hashlib
import json

from vlib import core

IMPORTS = ("From Coq Require Import List ZArith NArith.\nFrom JrV Require Import Common.Utf8 C11.Model.\n"
           "Import ListNotations.\n")

ALPHA = ["a", "b", "A", " ", "\n", "\u00e9", "\u00df", "\u4e16", "\U0001F600", "\u0301", "\ufffd"]
# boundary characters for the case maps, the escapers, trim and the classifiers
ALPHA2 = ALPHA + ["z", "Z", "@", "[", "`", "{", "'", '"', "$", "<", ">", "&", "\\", "\t", "\x7f", "\x01",
                  "\r", "\x0c", "\x0b", "\u0085", "\u00a0", "\u2003", "\ud7ff", "\ue000", "\U0010FFFF", "\x80",
                  "\u00c9", "\u212a", "\u0130", "\u017f"]
SMALL = ["a", "é", "\U0001F600"]
ERR = ("ERR",)
K_SPLIT = "C11-split-empty-separator-accepted"


def cps(s):
    return [ord(c) for c in s]


def cq_str(s):
    return "[" + ";".join(str(ord(c)) for c in s) + "]%N"


def cq_bytes(bs):
    return "[" + ";".join(str(b) for b in bs) + "]%N"


def cq_lim(n):
    return "None" if n is None else f"(Some {n}%nat)"


J = core.jstr


def jarr(xs):
    return "[" + ", ".join(str(x) for x in xs) + "]"


# ------------------------------------------------------------------ cases
# a case is a tuple (kind, *args); KINDS maps kind -> (jsonnet renderer, coq renderer or None)
def lim_js(n):
    return "-1" if n is None else str(n)


KINDS = {
    "length": (lambda s: f"std.length({J(s)})", lambda s: f"CLength {cq_str(s)}"),
    "substr": (lambda s, f, n: f"std.substr({J(s)}, {f}, {n})", lambda s, f, n: f"CSubstr {cq_str(s)} {f}%nat {n}%nat"),
    "chars": (lambda s: f"std.stringChars({J(s)})", lambda s: f"CChars {cq_str(s)}"),
    "isempty": (lambda s: f"std.isEmpty({J(s)})", lambda s: f"CIsEmpty {cq_str(s)}"),
    "find": (lambda p, s: f"std.findSubstr({J(p)}, {J(s)})", lambda p, s: f"CFind {cq_str(p)} {cq_str(s)}"),
    "split": (lambda s, c: f"std.split({J(s)}, {J(c)})", lambda s, c: f"CSplit {cq_str(s)} {cq_str(c)} None"),
    "splitlimit": (lambda s, c, n: f"std.splitLimit({J(s)}, {J(c)}, {lim_js(n)})",
                   lambda s, c, n: f"CSplit {cq_str(s)} {cq_str(c)} {cq_lim(n)}"),
    "splitlimitr": (lambda s, c, n: f"std.splitLimitR({J(s)}, {J(c)}, {lim_js(n)})",
                    lambda s, c, n: f"CSplitR {cq_str(s)} {cq_str(c)} {cq_lim(n)}"),
    "replace": (lambda s, f, t: f"std.strReplace({J(s)}, {J(f)}, {J(t)})",
                lambda s, f, t: f"CReplace {cq_str(s)} {cq_str(f)} {cq_str(t)}"),
    "starts": (lambda a, b: f"std.startsWith({J(a)}, {J(b)})", lambda a, b: f"CStarts {cq_str(a)} {cq_str(b)}"),
    "ends": (lambda a, b: f"std.endsWith({J(a)}, {J(b)})", lambda a, b: f"CEnds {cq_str(a)} {cq_str(b)}"),
    "lstrip": (lambda s, c: f"std.lstripChars({J(s)}, {J(c)})", lambda s, c: f"CLstrip {cq_str(s)} {cq_str(c)}"),
    "rstrip": (lambda s, c: f"std.rstripChars({J(s)}, {J(c)})", lambda s, c: f"CRstrip {cq_str(s)} {cq_str(c)}"),
    "strip": (lambda s, c: f"std.stripChars({J(s)}, {J(c)})", lambda s, c: f"CStrip {cq_str(s)} {cq_str(c)}"),
    # the same with the character set given as an array of one-character strings
    "stripa": (lambda s, c: f"std.stripChars({J(s)}, [{', '.join(J(x) for x in c)}])",
               lambda s, c: f"CStrip {cq_str(s)} {cq_str(c)}"),
    "trim": (lambda s: f"std.trim({J(s)})", lambda s: f"CTrim {cq_str(s)}"),
    "upper": (lambda s: f"std.asciiUpper({J(s)})", lambda s: f"CUpper {cq_str(s)}"),
    "lower": (lambda s: f"std.asciiLower({J(s)})", lambda s: f"CLower {cq_str(s)}"),
    "eqic": (lambda a, b: f"std.equalsIgnoreCase({J(a)}, {J(b)})", lambda a, b: f"CEqIc {cq_str(a)} {cq_str(b)}"),
    "codepoint": (lambda s: f"std.codepoint({J(s)})", lambda s: f"CCodepoint {cq_str(s)}"),
    "char": (lambda n: f"std.char({n})", lambda n: f"CChar ({n})%Z"),
    "escbash": (lambda s: f"std.escapeStringBash({J(s)})", lambda s: f"CEscBash {cq_str(s)}"),
    "escdollars": (lambda s: f"std.escapeStringDollars({J(s)})", lambda s: f"CEscDollars {cq_str(s)}"),
    "escxml": (lambda s: f"std.escapeStringXML({J(s)})", lambda s: f"CEscXml {cq_str(s)}"),
    "parseoctal": (lambda s: f"std.parseOctal({J(s)})", lambda s: f"CParseNat 8%N {cq_str(s)}"),
    "parsehex": (lambda s: f"std.parseHex({J(s)})", lambda s: f"CParseNat 16%N {cq_str(s)}"),
    "parseint": (lambda s: f"std.parseInt({J(s)})", lambda s: f"CParseInt {cq_str(s)}"),
    "encode": (lambda s: f"std.encodeUTF8({J(s)})", lambda s: f"CEncode {cq_str(s)}"),
    "decode": (lambda bs, lossy: f"std.decodeUTF8({jarr(bs)})" if lossy is None else
               f"std.decodeUTF8({jarr(bs)}, {'true' if lossy else 'false'})",
               lambda bs, lossy: f"CDecode {cq_bytes(bs)} {'false' if lossy is False else 'true'}"),
    "b64": (lambda s: f"std.base64({J(s)})", lambda s: f"CB64 {cq_str(s)}"),
    "b64bytes": (lambda bs: f"std.base64({jarr(bs)})", lambda bs: f"CB64Bytes {cq_bytes(bs)}"),
    "b64dec": (lambda s: f"std.base64Decode({J(s)})", lambda s: f"CB64Dec {cq_str(s)}"),
    "b64decbytes": (lambda s: f"std.base64DecodeBytes({J(s)})", lambda s: f"CB64DecBytes {cq_str(s)}"),
    # python-oracle only
    "escjson": (lambda s: f"std.escapeStringJson({J(s)})", None),
    "escpython": (lambda s: f"std.escapeStringPython({J(s)})", None),
    "md5": (lambda s: f"std.md5({J(s)})", None),
    "sha1": (lambda s: f"std.sha1({J(s)})", None),
    "sha256": (lambda s: f"std.sha256({J(s)})", None),
    "sha512": (lambda s: f"std.sha512({J(s)})", None),
    "sha3": (lambda s: f"std.sha3({J(s)})", None),
    "parsejson": (lambda t: f"std.parseJson({J(t)})", None),
    "parseyaml": (lambda t: f"std.parseYaml({J(t)})", None),
    # round trips through the code only (spec: identity)
    "rt_utf8": (lambda s: f"std.decodeUTF8(std.encodeUTF8({J(s)}))", None),
    "rt_b64": (lambda s: f"std.base64Decode(std.base64({J(s)}))", None),
    "rt_b64bytes": (lambda bs: f"std.base64DecodeBytes(std.base64({jarr(bs)}))", None),
}

HASHES = {"md5": hashlib.md5, "sha1": hashlib.sha1, "sha256": hashlib.sha256, "sha512": hashlib.sha512,
          "sha3": hashlib.sha3_512}


def case_js(c):
    return KINDS[c[0]][0](*c[1:])


def case_coq(c):
    f = KINDS[c[0]][1]
    return None if f is None else f(*c[1:])


# ------------------------------------------------------------------ python oracles
def to_plain(v):
    """decanon'ed harness value -> plain python (objects as dicts)"""
    if isinstance(v, dict) and "__obj__" in v:
        return {k: to_plain(x) for k, x in v["__obj__"]}
    if isinstance(v, list):
        return [to_plain(x) for x in v]
    return v


def json_floats(v):
    if isinstance(v, bool) or v is None or isinstance(v, str):
        return v
    if isinstance(v, (int, float)):
        return float(v)
    if isinstance(v, list):
        return [json_floats(x) for x in v]
    return {k: json_floats(x) for k, x in v.items()}


def py_oracle(c):
    """expected python value (or ERR) for python-oracle kinds; ('CHECK', fn) for semantic checks"""
    k = c[0]
    if k in HASHES:
        return HASHES[k](c[1].encode("utf-8")).hexdigest()
    if k in ("rt_utf8", "rt_b64"):
        return c[1]
    if k == "rt_b64bytes":
        return [float(b) for b in c[1]]
    if k in ("parsejson", "parseyaml"):
        try:
            def no_const(x):
                raise ValueError(x)
            return json_floats(json.loads(c[1], parse_constant=no_const))
        except ValueError:
            return ERR
    if k in ("escjson", "escpython"):
        s = c[1]

        def chk(out):
            if not isinstance(out, str) or len(out) < 2 or out[0] != '"' or out[-1] != '"':
                return "not a quoted string"
            if any(ord(ch) < 0x20 for ch in out):
                return "raw control character in the output"
            try:
                back = json.loads(out)
            except ValueError as e:
                return f"output is not a JSON string: {e}"
            if back != s:
                return f"JSON reader gives back {back!r}"
            return None
        return ("CHECK", chk)
    raise KeyError(k)


def py_cross(c):
    """independent second opinion on the Coq SPEC for a few kinds (None = no opinion)"""
    k = c[0]
    if k == "decode":
        bs = bytes(c[1])
        if c[2] is False:
            try:
                return bs.decode("utf-8")
            except UnicodeDecodeError:
                return ERR
        return bs.decode("utf-8", errors="replace")
    if k == "encode":
        return [float(b) for b in c[1].encode("utf-8")]
    if k == "b64":
        return base64.b64encode(c[1].encode("utf-8")).decode("ascii")
    if k == "b64bytes":
        return base64.b64encode(bytes(c[1])).decode("ascii")
    if k == "length":
        return float(len(c[1]))
    if k == "upper":
        return "".join(chr(ord(x) - 32) if "a" <= x <= "z" else x for x in c[1])
    if k == "lower":
        return "".join(chr(ord(x) + 32) if "A" <= x <= "Z" else x for x in c[1])
    if k == "find":
        p, s = c[1], c[2]
        if not p or not s or len(p) > len(s):
            return []
        return [float(i) for i in range(len(s) - len(p) + 1) if s[i:i + len(p)] == p]
    if k == "split" and c[2]:
        return c[1].split(c[2])
    if k == "splitlimit" and c[2]:
        return c[1].split(c[2], -1 if c[3] is None else c[3])
    if k == "splitlimitr" and c[2]:
        return c[1].rsplit(c[2], c[3]) if c[3] is not None else c[1].split(c[2])
    if k == "replace" and c[2]:
        return c[1].replace(c[2], c[3])
    if k == "substr":
        return c[1][c[2]:c[2] + c[3]]
    if k == "starts":
        return c[1].startswith(c[2])
    if k == "ends":
        return c[1].endswith(c[2])
    return None


# ------------------------------------------------------------------ Coq results -> python
def res_py(t):
    if t == "RErr":
        return ERR
    if t == "RInf":
        return ("INF",)
    if isinstance(t, core.App):
        a = t.args[0]
        if t.name == "RStr":
            return "".join(chr(x) for x in a)
        if t.name == "RStrs":
            return ["".join(chr(x) for x in s) for s in a]
        if t.name in ("RNats", "RBytes"):
            return [float(x) for x in a]
        if t.name == "RInt":
            return ("INT", int(a))
        if t.name == "RBool":
            return bool(a)
    raise ValueError(f"bad model result {t!r}")


def as_value(r):
    """model result -> the value the code must return"""
    if isinstance(r, tuple) and r and r[0] == "INT":
        return float(r[1])
    return r


# ------------------------------------------------------------------ generators
class Gen:
    def __init__(self, rng):
        self.rng = rng

    def s(self, alpha, lo, hi):
        return "".join(self.rng.choice(alpha) for _ in range(self.rng.randint(lo, hi)))

    def rep(self, alpha, hi):
        """strings with repeats / overlaps: few distinct characters"""
        a = [self.rng.choice(alpha) for _ in range(self.rng.randint(1, 2))]
        return "".join(self.rng.choice(a) for _ in range(self.rng.randint(0, hi)))

    def sub_of(self, s, alpha):
        """a pattern that probably occurs in s"""
        if s and self.rng.chance(0.7):
            i = self.rng.below(len(s))
            return s[i:i + self.rng.randint(1, 3)]
        return self.s(alpha, 0, 3)


def all_strings(alpha, n):
    out = [""]
    layer = [""]
    for _ in range(n):
        layer = [x + a for x in layer for a in alpha]
        out += layer
    return out


INVALID_UTF8 = [
    [0x80], [0xBF], [0xC0, 0x80], [0xC1, 0xBF], [0xC2], [0xC2, 0x41], [0xDF, 0xBF], [0xE0, 0x80, 0x80], [0xE0, 0x9F, 0xBF],
    [0xE0, 0xA0, 0x80], [0xE4, 0xB8], [0xE4], [0xED, 0x9F, 0xBF], [0xED, 0xA0, 0x80], [0xED, 0xBF, 0xBF], [0xEE, 0x80, 0x80],
    [0xEF, 0xBF, 0xBD], [0xF0, 0x80, 0x80, 0x80], [0xF0, 0x8F, 0xBF, 0xBF], [0xF0, 0x90, 0x80, 0x80], [0xF0, 0x9F, 0x98],
    [0xF0, 0x9F], [0xF0], [0xF4, 0x8F, 0xBF, 0xBF], [0xF4, 0x90, 0x80, 0x80], [0xF5, 0x80, 0x80, 0x80], [0xF8], [0xFE], [0xFF],
    [0xE2, 0x82, 0xAC, 0x80], [0xC3, 0xA9, 0xA9], [0xF0, 0x9F, 0x98, 0x80, 0x80],
]
HOSTILE_BYTES = [0x00, 0x41, 0x7F, 0x80, 0x8F, 0x90, 0x9F, 0xA0, 0xBF, 0xC0, 0xC2, 0xDF, 0xE0, 0xED, 0xEF, 0xF0, 0xF4, 0xF5, 0xFF]

NUMERIC = [
    "0", "7", "8", "9", "10", "007", "00", "9007199254740991", "9007199254740992", "9007199254740993", "9007199254740994",
    "9007199254740995", "-9007199254740991", "-9007199254740993", "18014398509481985", "123456789012345678901234567890",
    "-", "--1", "-0", "+1", " 1", "1 ", "1_0", "1.0", "1e3", "0x10", "١", "１", "1́", "", "-a", "a", "A", "1a",
    "9" * 308, "9" * 309, "1" + "0" * 400, "-" + "9" * 400,
    # hex / octal
    "ff", "FF", "fF", "aBcDeF", "g", "G", "@", "`", "/", ":", ";", "<", "=", ">", "?", "1:", ":1", "f?", "[", "{",
    "1fffffffffffff", "20000000000000", "20000000000001", "20000000000002", "20000000000003", "3fffffffffffff",
    "377777777777777777", "400000000000000000", "400000000000000001", "400000000000000003", "777", "778", "78",
    "f" * 256, "f" * 257, "7" * 342, "7" * 400,
]

B64_TEXTS = [
    "", "YQ==", "YWI=", "YWJj", "YWJjZA==", "YR==", "YWJ=", "YQ=", "YQ", "Y", "YWJjZ", "=", "==", "====", "Y===", "YQ==YQ==",
    "YQ==\n", " YQ==", "Y Q==", "YQ\n==", "YW-j", "YW_j", "YW+j", "YW/j", "/w==", "//8=", "////", "+/+/", "éQ==", "YQ=a", "Y=Q=",
    "7aCA", "wIA=", "8J+YgA==", "8J+Y", "AAAA", "AA==", "AAA=", "gA==", "w6k=", "5LiW",
]

JSON_BAD = ["", " ", "{", "[1,]", "{'a':1}", "01", "nul", '"\x01"', "1 2", "[1 2]", '{"a":1,}', '{"a" 1}', "+1", ".5", "1.",
            '"\\x"', "[", "tRue", '"a', "NaN"]
JSON_EXTRA = ['"\\u00e9\\ud83d\\ude00"', '"\\/\\b\\f"', " [ 1 , 2 ] ", '{"a":{"b":[]}}', "1e3", "-0", "1E+2", "0.5", "[[[[]]]]",
              '{"":""}', '"\\u0000"', "12345678", "9007199254740991"]


def gen_json(g, d):
    r = g.rng.below(10 if d > 0 else 6)
    if r == 0:
        return None
    if r == 1:
        return g.rng.chance(0.5)
    if r == 2:
        return g.rng.choice([0, 1, -1, 7, 255, 65536, 4294967296, 9007199254740991, -9007199254740991])
    if r == 3:
        return g.rng.choice([0.5, -1.25, 1000.0, 0.125, 3.75])
    if r < 6:
        return g.s(ALPHA2, 0, 5)
    if r < 8:
        return [gen_json(g, d - 1) for _ in range(g.rng.below(4))]
    return {g.s(ALPHA2, 0, 3) + str(i): gen_json(g, d - 1) for i in range(g.rng.below(4))}


def enumerate_cases(run, scale=1):
    thorough = run.tier == "thorough"
    g = Gen(run.rng.fork("gen"))
    R = g.rng
    cases = []
    add = cases.append
    n_rand = (30 if not thorough else 1500) * scale

    # ---- the fixed corpus: known findings and past defects first
    for s in [":", "?", "1:", ";", "<", "=", ">", "f:", "@"]:
        add(("parsehex", s))   # fixed 37ccdb5: ':'..'?' were read as the digits 10..15
    for s, c in [("abc", ""), ("", ""), ("éa", "")]:
        add(("split", s, c))
        add(("splitlimit", s, c, 1))
        add(("splitlimitr", s, c, 1))

    # ---- unary string functions: all strings of length <= 2 (3 in thorough) + random up to 12
    base = all_strings(ALPHA, 3 if thorough else 2)
    rand12 = [g.s(ALPHA, 3, 12) for _ in range(n_rand)]
    rand2 = [g.s(ALPHA2, 1, 8) for _ in range(n_rand)] + [a for a in ALPHA2] + [a + "é" for a in ALPHA2[11:]]
    if not thorough:
        base3 = [g.s(ALPHA, 3, 3) for _ in range(25)]
    else:
        base3 = []
    for s in base + base3 + rand12:
        for k in ("length", "chars", "encode", "b64"):
            add((k, s))
    per_char = (all_strings(ALPHA, 1) + rand12[:15] + rand2) if not thorough else (base[:134] + rand12[:40] + rand2)
    for s in per_char:
        for k in ("upper", "lower", "escbash", "escdollars", "escxml", "escjson", "trim", "isempty", "rt_utf8", "rt_b64"):
            add((k, s))
        if R.chance(0.3):
            add(("escpython", s))
        add(("codepoint", s))
    # ---- hashes: every string of length <= 1, block-boundary lengths, random
    hs = all_strings(ALPHA, 1) + rand12[:25] + rand2[:25]
    for n in (55, 56, 57, 63, 64, 65, 71, 72, 73, 111, 112, 113, 119, 127, 128, 129, 135, 136, 137, 143, 144, 145, 1000):
        hs.append("a" * n)
        hs.append(("é" * n)[: n // 2] + "b" * (n % 2))
        hs.append(g.s(ALPHA, n // 3, n // 3))
    for s in hs:
        for k in HASHES:
            add((k, s))
    # ---- substr: every from / len in 0..len+2
    subs = all_strings(SMALL, 2) + [g.s(ALPHA, 3, 6) for _ in range(6 * scale)] + [g.s(ALPHA, 7, 12) for _ in range(2 * scale)]
    for s in subs:
        for f in range(len(s) + 3):
            for n in range(len(s) + 3):
                if len(s) <= 2 or R.chance(0.3):
                    add(("substr", s, f, n))
    # ---- findSubstr / startsWith / endsWith / equalsIgnoreCase: exhaustive small, overlapping, random
    small3 = all_strings(SMALL, 3)
    pats = all_strings(SMALL, 2)
    for s in small3:
        for p in pats:
            if len(s) <= 2 or R.chance(0.3 if not thorough else 1):
                add(("find", p, s))
            if R.chance(0.12):
                add(("starts", s, p))
                add(("ends", s, p))
    for _ in range(n_rand * 3):
        s = g.rep(R.choice([ALPHA, SMALL, ["a", "b"], ["é", "ß", "世"]]), 12) if R.chance(0.6) else g.s(ALPHA, 0, 12)
        p = g.sub_of(s, ALPHA)
        add(("find", p, s))
        add(("starts", s, p))
        add(("ends", s, p))
        add(("starts", s, s[:R.below(len(s) + 1)]))
        add(("ends", s, s[R.below(len(s) + 1):]))
        t = "".join(R.choice([x, x.upper(), x.lower()]) for x in s)
        add(("eqic", s, t))
        add(("eqic", g.s(ALPHA2, 0, 3), g.s(ALPHA2, 0, 3)))
    for s, p in [("aaaa", "aa"), ("aaaa", "aaaaa"), ("", "a"), ("a", ""), ("", ""), ("ééé", "éé"),
                 ("aé", "é"), ("\U0001F600a", "a"), ("ab", "ab"), ("世", "é"), ("ée", "e")]:
        add(("find", p, s))
        add(("starts", s, p))
        add(("ends", s, p))
    # ---- split family / strReplace
    seps = [x for x in all_strings(SMALL, 2) if x]
    for s in small3:
        for c in seps:
            if R.chance(0.2 if not thorough else 1):
                add(("split", s, c))
                n = R.choice([None, 0, 1, 2, 3, len(s) + 2])
                add(("splitlimit", s, c, n))
                add(("splitlimitr", s, c, n))
                add(("replace", s, c, R.choice(["", "b", c + c, "世"])))
    for _ in range(n_rand * 2):
        s = g.rep(R.choice([ALPHA, SMALL, ["a", ","], ["é", "\U0001F600"]]), 12)
        c = g.sub_of(s, ALPHA) or "a"
        add(("split", s, c))
        for n in (None, 0, 1, 2, R.randint(3, len(s) + 3)):
            if R.chance(0.5):
                add(("splitlimit", s, c, n))
                add(("splitlimitr", s, c, n))
        add(("replace", s, c, g.s(ALPHA, 0, 2)))
    add(("replace", "abc", "", "x"))
    for s, c in [("aaa", "aa"), ("aaaa", "aa"), ("abab", "ab"), ("a,b,,c,", ","), (",", ","), ("", ","), ("abc", "abcd")]:
        add(("split", s, c))
        for n in (None, 0, 1, 2, 5):
            add(("splitlimit", s, c, n))
            add(("splitlimitr", s, c, n))
        add(("replace", s, c, "x"))
    # ---- strip family
    for _ in range(n_rand * 2):
        cs = g.s(R.choice([ALPHA, SMALL, ["a", " "]]), 0, 3)
        core_ = g.s(ALPHA, 0, 4)
        s = g.s(list(cs) or ["a"], 0, 3) + core_ + g.s(list(cs) or ["a"], 0, 3)
        for k in ("lstrip", "rstrip", "strip"):
            add((k, s, cs))
        if cs:
            add(("stripa", s, cs))
    for s in small3[:40]:
        for cs in ("a", "éa", "\U0001F600"):
            add(("strip", s, cs))
            add(("rstrip", s, cs))
    ws = [" ", "\t", "\n", "\x0c", "\r", "\u0085", "\u00a0", "\x0b", "\u2003", "a", "\u00e9"]
    for _ in range(n_rand):
        add(("trim", g.s(ws, 0, 4) + g.s(ALPHA, 0, 3) + g.s(ws, 0, 4)))
    # ---- codepoint / char
    for n in [0, 1, 65, 127, 128, 255, 2047, 2048, 55295, 55296, 56319, 56320, 57343, 57344, 65533, 65535, 65536, 128512,
              1114111, 1114112, 2000000, 4294967295, -1]:
        add(("char", n))
    for _ in range(20 * scale):
        add(("char", R.choice([R.below(0x800), R.below(0x110000), 0xD000 + R.below(0x1800), 0x10FF00 + R.below(0x300)])))
    # ---- parsers
    for s in NUMERIC:
        add(("parseint", s))
        add(("parseoctal", s))
        add(("parsehex", s))
    for _ in range(n_rand * 2):
        for k, digs in (("parseint", "0123456789"), ("parseoctal", "01234567"), ("parsehex", "0123456789abcdefABCDEF")):
            s = "".join(R.choice(digs) for _ in range(R.choice([1, 2, 5, 15, 16, 17, 18, 20, 25])))
            if k == "parseint" and R.chance(0.3):
                s = "-" + s
            if R.chance(0.25):
                i = R.below(len(s) + 1)
                s = s[:i] + R.choice(["8", "9", "a", "g", "G", ":", "/", "@", "`", "-", " ", "é", "f", "F", "?"]) + s[i:]
            add((k, s))
    # ---- UTF-8 decoder: every invalid class, bare and embedded; random hostile bytes
    for bad in INVALID_UTF8:
        for ctx in ([], [0x61]):
            for tail in ([], [0x62], [0x80]):
                bs = ctx + bad + tail
                add(("decode", bs, None))
                if not tail or thorough:
                    add(("decode", bs, False))
    for _ in range(n_rand * 2):
        bs = [R.choice(HOSTILE_BYTES) if R.chance(0.7) else R.below(256) for _ in range(R.randint(0, 8))]
        add(("decode", bs, R.choice([None, True, False])))
        good = list(g.s(ALPHA, 0, 4).encode("utf-8"))
        add(("decode", good, R.choice([None, False])))
        if good:
            cut = good[:R.below(len(good))] + good[R.below(len(good)):]
            add(("decode", cut, R.choice([None, False])))
    # ---- base64
    for n in range(0, 8):
        for _ in range(3):
            bs = [R.choice([0, 255, 128, R.below(256)]) for _ in range(n)]
            add(("b64bytes", bs))
            add(("rt_b64bytes", bs))
    for t in B64_TEXTS:
        add(("b64dec", t))
        add(("b64decbytes", t))
    for _ in range(n_rand * 2):
        bs = bytes(R.below(256) for _ in range(R.randint(0, 9)))
        t = base64.b64encode(g.s(ALPHA, 0, 5).encode("utf-8") if R.chance(0.5) else bs).decode("ascii")
        if R.chance(0.5) and t:
            i = R.below(len(t))
            t = R.choice([t[:i] + t[i + 1:], t[:i] + R.choice("AB=/-_ \n9z") + t[i + 1:], t + "=", t + "A", t[:-1]])
        add(("b64dec", t))
        add(("b64decbytes", t))
    # ---- parseJson / parseYaml on JSON-compatible input
    for _ in range(n_rand * 2):
        v = gen_json(g, 3)
        t = json.dumps(v, ensure_ascii=False, indent=R.choice([None, None, 1]))
        add(("parsejson", t))
        add(("parseyaml", t))
        if R.chance(0.3):
            add(("parsejson", json.dumps(v, ensure_ascii=True)))
    for t in JSON_EXTRA:
        add(("parsejson", t))
    for t in JSON_BAD:
        add(("parsejson", t))
    # dedupe, keep order
    seen, out = set(), []
    for c in cases:
        k = repr(c)
        if k not in seen:
            seen.add(k)
            out.append(c)
    return out


# ------------------------------------------------------------------ the check
BATCH = 40
CHUNK = 4


def run_code(run, binary, cases, expect_ok):
    """evaluate every case with the real code: cases expected to succeed are batched into array
    programs; a batch that does not evaluate is re-run one call per request"""
    answers = [None] * len(cases)
    singles = [i for i in range(len(cases)) if not expect_ok[i]]
    okidx = [i for i in range(len(cases)) if expect_ok[i]]
    batches = [okidx[i:i + BATCH] for i in range(0, len(okidx), BATCH)]
    reqs = [{"code": "[\n" + ",\n".join(case_js(cases[i]) for i in b) + "\n]"} for b in batches]
    reqs += [{"code": case_js(cases[i])} for i in singles]
    outs = core.run_harness(binary, "eval", reqs)
    redo = []
    for b, o in zip(batches, outs[:len(batches)]):
        if "ok" in o and isinstance(o["ok"], list) and len(o["ok"]) == len(b):
            for i, v in zip(b, o["ok"]):
                answers[i] = {"ok": v}
        else:
            redo.extend(b)
    for i, o in zip(singles, outs[len(batches):]):
        answers[i] = o
    if redo:
        run.count("rerun-individually", len(redo))
        outs2 = core.run_harness(binary, "eval", [{"code": case_js(cases[i])} for i in redo])
        for i, o in zip(redo, outs2):
            answers[i] = o
    return answers, len(reqs) + len(redo)


def outcome(o):
    """harness answer -> python value | ERR | ('CRASH', text)"""
    if o is None:
        return ("CRASH", "no answer")
    if "ok" in o:
        return to_plain(core.decanon(o["ok"]))
    if "err" in o:
        return ERR
    return ("CRASH", json.dumps(o)[:200])


def show(v):
    s = repr(v)
    return s if len(s) <= 300 else s[:300] + "..."


def correspond(run, binary, cases):
    failures, model_diffs = [], []
    run.log(f"{len(cases)} distinct calls")
    # ---- model side
    exprs, where = [], []
    for i, c in enumerate(cases):
        q = case_coq(c)
        if q is not None:
            exprs.append(f"(spec_call ({q}), impl_call ({q}))")
            where.append(i)
    # several calls per Eval (a list of pairs): fewer coqc processes, whose start-up dominates
    chunks = [exprs[i:i + CHUNK] for i in range(0, len(exprs), CHUNK)]
    raw = core.coq_eval(IMPORTS, ["[" + "; ".join(ch) + "]" for ch in chunks])
    model = []
    for ch, r in zip(chunks, raw):
        if isinstance(r, list) and len(r) == len(ch):
            model.extend(r)
        else:
            model.extend([r if isinstance(r, tuple) and r and r[0] == "ERROR" else ("ERROR", repr(r)[:300])] * len(ch))
    spec = [None] * len(cases)
    impl = [None] * len(cases)
    bad_model = 0
    for i, m in zip(where, model):
        if isinstance(m, tuple) and m and m[0] == "ERROR":
            bad_model += 1
            if bad_model == 1:
                run.obligation("model.eval", False, str(m[1])[:300])
            continue
        try:
            spec[i], impl[i] = res_py(m[0]), res_py(m[1])
        except Exception as e:  # noqa
            bad_model += 1
            run.obligation("model.eval", False, f"{e}")
    run.log(f"model evaluated ({len(exprs)} calls)")
    # ---- expectation per case
    expect, judged_against = [None] * len(cases), [None] * len(cases)
    cross_bad = []
    for i, c in enumerate(cases):
        if case_coq(c) is None:
            expect[i] = py_oracle(c)
            judged_against[i] = "python"
            continue
        if spec[i] is None:
            continue
        sp = spec[i]
        if isinstance(sp, tuple) and sp[0] == "INT" and abs(sp[1]) >= 2 ** 53 and c[0].startswith("parse"):
            # beyond 2^53 the documented fold is inexact: the code is compared with the impl-model only
            expect[i] = as_value(impl[i])
            judged_against[i] = "impl"
            run.count("parse:beyond-2^53")
        else:
            expect[i] = as_value(sp)
            judged_against[i] = "spec"
            x = py_cross(c)
            if x is not None and x != expect[i]:
                cross_bad.append({"case": repr(c), "coq_spec": show(expect[i]), "python": show(x)})
    run.obligation("spec.cross-check(Coq SPEC = independent Python definition on every generated case)",
                   not cross_bad, json.dumps(cross_bad[:3], ensure_ascii=False))
    # ---- code side
    expect_ok = [not (e is None or e == ERR or e == ("INF",)) for e in expect]
    answers, nreq = run_code(run, binary, cases, expect_ok)
    run.log(f"harness done ({nreq} requests)")
    hits = {K_SPLIT: 0}
    for i, c in enumerate(cases):
        if expect[i] is None:
            continue
        kind = c[0]
        run.count(f"fn:{kind}")
        js = case_js(c)
        trivial = all((a == "" or a == [] or a is None) for a in c[1:])
        run.note_case(js, not trivial)
        got = outcome(answers[i])
        exp = expect[i]
        case = {"jsonnet": js, "kind": kind, "args": [a if not isinstance(a, str) else cps(a) for a in c[1:]]}
        if exp == ("INF",):
            exp = ERR  # a non-finite result must be refused
        if isinstance(exp, tuple) and exp and exp[0] == "CHECK":
            why = exp[1](got) if not (isinstance(got, tuple)) else f"no value: {got}"
            ok = why is None
            exp_show = "a JSON string literal that reads back as the argument"
        else:
            ok = got == exp
            why = None
            exp_show = show(exp)
        run.count("outcome:error" if got == ERR else "outcome:value")
        if ok:
            if judged_against[i] == "spec" and impl[i] is not None and as_value(impl[i]) != exp and \
                    not (as_value(impl[i]) == ("INF",) and exp == ERR):
                model_diffs.append({"case": case, "impl_model": show(as_value(impl[i])), "code": show(got)})
            if len(run.samples) < 10 and not trivial and i % 97 == 0:
                run.samples.append({"jsonnet": js, "result": show(got)})
            continue
        f = {"case": case, "what": f"std function result differs from its definition ({judged_against[i]})",
             "summary": f"C11 {kind}: {js[:160]} -> {show(got)[:120]}, definition gives {exp_show[:120]}",
             "expected": exp_show, "got": show(got)}
        if why:
            f["why"] = why
        if judged_against[i] == "impl":
            # the SPEC does not speak (inexact range): a structural disagreement
            model_diffs.append({"case": case, "impl_model": exp_show, "code": show(got)})
            continue
        # ---- known findings: narrow classifiers
        if kind in ("split", "splitlimit", "splitlimitr") and c[2] == "" and exp == ERR and isinstance(got, list):
            f["known"] = K_SPLIT
            hits[K_SPLIT] += 1
        failures.append(f)
    for kid, n in hits.items():
        run.count(f"known:{kid}", n)
    return failures, model_diffs, hits


def check(run, terrs):
    proofs_ok, detail = core.check_property_file(run, "C11")
    binary, err = core.build_harness(run)
    if not binary:
        run.obligation("harness.build", False, err)
        return core.conclude(run, False, err, [], [])
    failures, model_diffs, hits = correspond(run, binary, enumerate_cases(run))
    known = {k["id"] for k in core.load_known("C11")}
    for kid, n in hits.items():
        if kid in known:
            run.obligation(f"known-finding.{kid}.still-reproduces", n > 0,
                           "the recorded finding no longer reproduces: drop it from known_findings and from the "
                           "restricted theorem")
    kinds = {}
    for f in failures:
        k = ("known:" + f["known"]) if f.get("known") else f["case"]["kind"]
        kinds[k] = kinds.get(k, 0) + 1
    run.log(f"failures by kind: {kinds}; model diffs: {len(model_diffs)}")
    failures.sort(key=lambda f: len(f["case"]["jsonnet"]))
    run.trusted = TRUSTED
    run.assumptions = ASSUMPTIONS
    run.notes.append("hash functions (md5, sha1, sha256, sha512, sha3): no Coq model; compared with Python hashlib "
                     "only (exploration level for that clause)")
    run.notes.append("escapeStringJson/Python: judged semantically (a JSON reader returns the argument, no raw "
                     "control characters); jrsonnet does not escape U+007F..U+009F as std.jsonnet's reference does")
    return core.conclude(run, proofs_ok, detail, failures, model_diffs,
                         search=(lambda: search(run, binary)) if run.tier == "quick" else None,
                         level="proof", rule=RULE)


def search(run, binary):
    run.log("search: wider enumeration")
    f, _, _ = correspond(run, binary, enumerate_cases(run, scale=4))
    return f


def replay(run, data):
    binary, err = core.build_harness(run)
    f = data.get("failure", {})
    code = f.get("case", {}).get("jsonnet")
    if not code:
        print(json.dumps(data, indent=1)[:3000])
        return 1
    outs = core.run_harness(binary, "eval", [{"code": code}])
    print("jsonnet :", code)
    print("expected:", f.get("expected"))
    print("was     :", f.get("got"))
    print("now     :", show(outcome(outs[0])), outs[0] if "ok" not in outs[0] else "")
    return 0


RULE = ("calls std.<fn>(args) for 45 function entry points; strings over {a, b, A, ' ', '\\n', e-acute, sharp-s, "
        "U+4E16, U+1F600, U+0301, U+FFFD} (+ boundary characters for case maps / escapers / trim): all strings of "
        "length <= 2 for the unary functions, all (pattern, string) and (string, separator) pairs over {a, e-acute, "
        "U+1F600} up to length 3 (sampled in quick), random up to length 12 with repeated/overlapping patterns, "
        "from/len/maxsplits 0..len+2, every class of ill-formed UTF-8 bare and embedded, base64 texts with every "
        "padding/trailing-bit/alphabet defect, numeric strings around 2^53, the digit-validity boundaries and "
        "overflow; distinct = distinct Jsonnet call; non-trivial = some argument non-empty")
TRUSTED = ["Coq 8.16.1 kernel incl. vm_compute (no native_compute)",
           "no axioms (all C11 theorems closed under the global context)",
           "SPEC definitions are my reading of the std documentation / reference std.jsonnet, RFC 3629, RFC 4648 "
           "(cross-checked against independent Python definitions on every generated case)",
           "correspondence: jrharness eval, vlib generators, Coq term printer/parser, Python hashlib/base64/json/codecs",
           "modelled not verified: Rust core::str searchers (split/replace/starts_with as leftmost byte search), "
           "f64 mul_add on integer-valued doubles as one rounding to 53 bits (rnd53), the base64 / digest / "
           "serde_json / serde-saphyr crates (correspondence only)"]
ASSUMPTIONS = ["impl-model transliterates strings.rs / encoding.rs / misc.rs; tie = differential run on every check",
               "strings hold Unicode scalar values (Rust str invariant)",
               "hash functions: no theorem, hashlib comparison only"]
