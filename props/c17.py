"""C17 — source text is never lost and reported positions are accurate.

Theorems: coq/theories/C17 (offset_to_location transliterated; = SPEC for every file and every
offset query outside two known classes; print_code_location; token-loop tiling; sink leaves).
Correspondence, four parts, all on the real code through jrharness:
  A  `loc`   : Source::map_source_locations vs the Coq impl-model (all five fields) and vs the
               Coq SPEC (line / column / line start over the UTF-8 bytes) on exhaustive small
               files over {a, LF, e-acute} and random files over an alphabet with 1-4 byte
               characters, CR LF, 1-4 offsets per query (boundaries, duplicates, end of file);
  B  `lex`/`rowan`/`spans`: tokens tile the input on character boundaries; the rowan tree
               prints back the input and its leaves are exactly the lexemes; every Span of
               the ir-/peg-parser lies on character boundaries inside the text and (ir) on
               token boundaries; on token sequences and hostile byte fuzz;
  C  `eval`  : programs with an error / undefined variable / failing assert / missing field /
               syntax error / std.trace planted at a known line and column, with non-ASCII
               text, comments, blank lines, CR LF before, on and after that line; the printed
               line must be the planted line, the column the planted column.
The impl-model of record is [Cur] (offset_to_location since /repo 6f9363a, JsFormat since 2fd7ca2):
the code must agree with it everywhere.  A failing case inside a known class (multi-line span,
rowan parser panic) is a KNOWN-FINDING only if the code gives exactly the answer the faithful Coq
model predicts.
"""
import itertools
import json
import os
import re
import subprocess

from vlib import core

IMPORTS = ("From Coq Require Import List NArith Bool.\nFrom JrV Require Import C17.Model.\n"
           "Import ListNotations.\nOpen Scope N_scope.\n")

K_ML = "C17-print-multiline-span"
K_RP = "C17-rowan-parser-panics-on-invalid-input"


def par_eval(exprs, ways=8, imports=None):
    """core.coq_eval shards by 200 expressions; C17's expressions are few and heavy, so split
    them over `ways` coqc processes ourselves (same semantics, results in order)."""
    from concurrent.futures import ThreadPoolExecutor
    imports = imports or IMPORTS
    if len(exprs) <= 40:
        return core.coq_eval(imports, exprs)
    ways = max(1, min(ways, core.NPROC, len(exprs) // 20))
    chunks = [exprs[i::ways] for i in range(ways)]
    with ThreadPoolExecutor(max_workers=ways) as ex:
        parts = list(ex.map(lambda ch: core.coq_eval(imports, ch), chunks))
    out = [None] * len(exprs)
    for w, part in enumerate(parts):
        for j, r in enumerate(part):
            out[w + j * ways] = r
    return out


def cq_nlist(xs):
    return "[" + "; ".join(str(int(x)) for x in xs) + "]"


def cps(text):
    return [ord(c) for c in text]


def boundaries(text):
    out, p = [0], 0
    for c in text:
        p += len(c.encode("utf-8"))
        out.append(p)
    return out


def spec_pos(text, off):
    """(line, col) of byte offset `off` (a character boundary) — the SPEC, by definition."""
    pre = text.encode("utf-8")[:off].decode("utf-8")
    line = pre.count("\n") + 1
    col = len(pre) - (pre.rfind("\n") + 1) + 1
    return line, col


# ------------------------------------------------------------------ part A: loc
def loc_cases(run):
    rng = run.rng.fork("loc")
    thorough = run.tier == "thorough"
    cases = []
    # exhaustive small scope
    alpha = ["a", "\n", "é"]
    maxlen = 5 if thorough else 4
    for n in range(0, maxlen + 1):
        for tup in itertools.product(alpha, repeat=n):
            text = "".join(tup)
            bs = boundaries(text)
            for o in bs:
                cases.append((text, [o]))
            if n <= (4 if thorough else 3):
                for a in bs:
                    for b in bs:
                        cases.append((text, [a, b]))
    # random
    pool = ["a", "b", "z", " ", "\t", "\n", "\n", "\r\n", "é", "é", "€", "😀", "x", "1", "\n"]
    nrand = 12000 if thorough else 600
    for k in range(nrand):
        mode = k % 4  # 0 ascii, 1 ascii prefix then anything, 2 anything, 3 anything with dups
        n = rng.randint(0, 40)
        if mode == 0:
            text = "".join(rng.choice(["a", "b", " ", "\n", "\r\n", "x", "\n"]) for _ in range(n))
        elif mode == 1:
            m = rng.randint(0, n)
            text = "".join(rng.choice(["a", " ", "\n", "\r\n", "q"]) for _ in range(m)) + \
                   "".join(rng.choice(pool) for _ in range(n - m))
        else:
            text = "".join(rng.choice(pool) for _ in range(n))
        bs = boundaries(text)
        if mode == 1:
            # offsets inside the ASCII prefix (plus, sometimes, exactly its end)
            first_na = next((i for i, c in enumerate(text) if ord(c) > 127), len(text))
            bs = [b for b in bs if b <= first_na] or [0]
        cnt = rng.randint(1, 4)
        offs = [rng.choice(bs) for _ in range(cnt)]
        if mode == 3 and cnt >= 2:
            offs[rng.below(cnt)] = offs[0] if rng.chance(0.7) else rng.choice(bs)
        if rng.chance(0.15):
            offs[rng.below(cnt)] = bs[-1]
        cases.append((text, offs))
    # the design-round observation and the Rust unit test
    cases.append(("local x = \"ééééé\";\nerror \"x\"", [25, 30]))
    cases.append(("hello world\n" + "_" * 55, [0, 14]))
    seen, out = set(), []
    for c in cases:
        k = (c[0], tuple(c[1]))
        if k not in seen:
            seen.add(k)
            out.append(c)
    return out


def part_loc(run, binary, cases):
    failures, diffs = [], []
    exprs = []
    for text, offs in cases:
        f, o = cq_nlist(cps(text)), cq_nlist(offs)
        exprs.append(f"(map full (offset_to_location Cur {f} {o}), "
                     f"map (fun o => (o, spec_line (encode {f}) o, spec_col (encode {f}) o + 1, "
                     f"spec_line_start (encode {f}) o)) {o})")
    model = par_eval(exprs)
    outs = core.run_harness(binary, "loc", [{"text": t, "offsets": o} for t, o in cases])
    for (text, offs), m, o in zip(cases, model, outs):
        if isinstance(m, tuple) and m and m[0] == "ERROR":
            run.obligation("model.eval(loc)", False, str(m[1])[:300])
            continue
        cur, spec = m
        cur = [tuple(x) for x in cur]
        spec = [tuple(x) for x in spec]
        got = [tuple(x) for x in o["locs"]] if isinstance(o, dict) and "locs" in o else None
        canon = json.dumps([text, offs], ensure_ascii=False)
        ascii_only = all(ord(c) < 128 for c in text)
        maxo = max(offs)
        nonascii_before = any(ord(c) > 127 for c in text.encode("utf-8")[:maxo].decode("utf-8", "ignore"))
        run.note_case("loc:" + canon, len(text) > 1)
        run.count("loc:" + ("duplicates" if len(set(offs)) < len(offs) else "nonascii-before" if nonascii_before else
                            "ascii" if ascii_only else "nonascii-after"))
        case = {"part": "loc", "text": text, "offsets": offs}
        if got is None:
            failures.append({"case": case, "summary": f"C17 offset_to_location did not answer: {canon[:120]}",
                             "expected": spec, "got": o})
            continue
        core_got = [g[:4] for g in got]
        if core_got != spec:
            failures.append({"case": case, "summary": f"C17 offset_to_location({canon[:150]}) -> (offset,line,col+1,"
                                                      f"line_start) {core_got} expected {spec}",
                             "expected": spec, "got": core_got})
        elif got != cur:
            diffs.append({"case": case, "model": cur, "code": got})
        if len(run.samples) < 3 and nonascii_before and len(offs) > 1:
            run.samples.append({"part": "loc", "text": text, "offsets": offs, "code": got, "spec": spec})
    return failures, diffs


# ------------------------------------------------------------------ part B: lexer / tree / spans
TOKS = ["local", "x", "y1", "_z", "=", ";", "1", "2.5", "1e3", "0", "+", "-", "*", "/", "%", "==", "!=", "<", "<=",
        ">>", "&&", "||", "|", "!", "~", "(", ")", "[", "]", "{", "}", ",", ".", ":", "::", ":::", "+:", "$", "self",
        "super", "if", "then", "else", "function", "error", "assert", "import", "importstr", "in", "for", "null",
        "true", "false", "tailstrict", "\"s\"", "'é'", "\"a\\\"b\"", "@\"v\"\"w\"", "@'é'", "\"😀\"", "std", "...", "?",
        "??"]
TRIVIA = [" ", "  ", "\n", "\r\n", "\t", "// c\n", "# é\n", "/* m */", "/* é\n😀 */", "//\r\n", " ", " ", "\n"]
BLOCKS = ["|||\n  text\n|||", "|||\n  é line\n  more\n|||", "|||-\n\tx\n\n\ty\n|||", "|||\n  a\n |||", "|||\nx\n|||",
          "||| x\n  a\n|||", "|||\n  unterminated", "|||", "|||\n", "|||\n  a\n", "|||\r\n  a\r\n|||", "|||\n  a\n  |||",
          "|||\n\n\n  a\n|||", "|||\n  a\n|||é", "|||\n  a\n|||😀x", "|||\n  a\n|||€|||"]
HOSTILE = ["\"", "'", "|||", "||", "|", "/*", "*/", "/", "*", "@", "\\", "é", "😀", "€", "\r\n", "\r", "\n", "1", ".", "e",
           "E", "+", "-", "_", "0", "9", "a", " ", "\t", "#", "//", " ", " ", "{", "}", "(", "$", "`", "^", ":"]
VALID = ["local a = 1; a + error \"é\" + [1, 2][0]", "{ a: 1, b+: { c: 'é' }, [\"k\"]:: 3, assert true : 'm' }",
         "local f(x, y=2) = x + y; f(1, y=3) tailstrict", "[x for x in [1, 2, 3] if x > 1]",
         "{ [k]: 1 for k in ['a'] }", "if true then 1 else 2", "function(a) a.b.c[1:2:3]", "local a = |||\n  é\n|||; a",
         "assert 1 == 1 : 'é'; import 'x.libsonnet'", "-1 + !true - ~3 * 4 % 5", "a in b && c || d == e",
         "{ local x = 1, y: x, z(q): q }", "super.f + self.g + $.h", "/* é */ 1 // 😀\n", "\"é\" + 'x' + @\"y\"", "x\r\n+\r\ny"]


def lex_inputs(run):
    rng = run.rng.fork("lex")
    thorough = run.tier == "thorough"
    ins = list(VALID) + list(BLOCKS) + ["", " ", "\n", "é", "\"é", "/*", "/*/", "1.", "1e", "1e+", "@x", "@", "'"]
    for b in BLOCKS:
        ins.append("local a = " + b + "; a")
        ins.append(b + " + " + b)
    n1 = 6000 if thorough else 450
    for _ in range(n1):  # token sequences
        parts = []
        for _ in range(rng.randint(1, 12)):
            r = rng.below(20)
            parts.append(rng.choice(BLOCKS) if r == 0 else rng.choice(TOKS))
            if rng.chance(0.7):
                parts.append(rng.choice(TRIVIA))
        ins.append("".join(parts))
    for _ in range(n1):  # hostile fuzz
        ins.append("".join(rng.choice(HOSTILE) for _ in range(rng.randint(1, 14))))
    for _ in range(n1 // 2):  # valid program with one mutation
        s = rng.choice(VALID)
        i = rng.below(len(s) + 1)
        s = s[:i] + rng.choice(HOSTILE) + s[i + (1 if rng.chance(0.5) else 0):]
        ins.append(s)
    seen, out = set(), []
    for s in ins:
        if s not in seen and "\u0001" not in s:
            seen.add(s)
            out.append(s)
    return out


def part_lex(run, binary, inputs):
    failures = []
    reqs = [{"text": t} for t in inputs]
    allr = core.run_harness(binary, "textall", reqs)
    lex = [a.get("lex", a) if isinstance(a, dict) else a for a in allr]
    row = [a.get("rowan", a) if isinstance(a, dict) else a for a in allr]
    sp_ir = [a.get("ir", a) if isinstance(a, dict) else a for a in allr]
    sp_peg = [a.get("peg", a) if isinstance(a, dict) else a for a in allr]
    coq_check = []
    for t, lx, rw, si, sg in zip(inputs, lex, row, sp_ir, sp_peg):
        raw = t.encode("utf-8")
        bset = set(boundaries(t))
        case = {"part": "lex", "text": t}
        run.note_case("lex:" + t, len(t) > 2)
        run.count("lex:" + ("ascii" if len(raw) == len(t) else "nonascii"))

        def fail(what, expected, got):
            failures.append({"case": case, "summary": f"C17 {what}: {json.dumps(t, ensure_ascii=False)[:160]}",
                             "what": what, "expected": expected, "got": got})

        # --- tokens tile the input
        toks = lx.get("toks") if isinstance(lx, dict) else None
        if toks is None:
            fail("lexer did not return tokens", "a token list", lx)
        else:
            p, ok = 0, True
            for k, s, e in toks:
                if s != p or not s < e or e > len(raw) or e not in bset:
                    ok = False
                    break
                p = e
            if ok and p != len(raw):
                ok = False
            if not ok:
                fail("tokens do not tile the input on character boundaries", f"contiguous ranges covering 0..{len(raw)}",
                     toks[:40])
            if len(coq_check) < 150:
                coq_check.append((t, toks, ok))
            run.count("lex:tokens", len(toks))
            if any(k.startswith("ERROR") or k == "LEXING_ERROR" for k, _, _ in toks):
                run.count("lex:with-error-token")
        # --- rowan tree is lossless
        if not isinstance(rw, dict) or "same" not in rw:
            fail("rowan parser gave no tree", "a tree for every input", rw)
            if isinstance(rw, dict) and "jrsonnet-rowan-parser/src/parser.rs:" in str(rw.get("panic", "")):
                # the PARSER (not the lexer, not the sink) asserts on malformed input
                failures[-1]["known"] = K_RP
                run.count("rowan:parser-panic")
        else:
            if not rw["same"]:
                fail("syntax tree text differs from the input", t, rw.get("tree"))
            elif not (rw["leaves_match"] and rw["ranges_ok"] and rw["nleaves"] == rw["nlex"]):
                fail("tree leaves are not exactly the lexemes in order", "leaves == lexemes, contiguous ranges", rw)
            elif not rw["err_ranges_ok"]:
                fail("syntax error range outside the text or off a character boundary", "ranges inside the text", rw)
            run.count("rowan:" + ("clean" if rw.get("errors") == 0 else "with-errors"))
        # --- spans
        tokstart = set(s for k, s, e in (toks or []) if not is_trivia(k))
        tokend = set(e for k, s, e in (toks or []) if not is_trivia(k))
        for name, sp in (("ir", si), ("peg", sg)):
            if not isinstance(sp, dict) or ("ok" not in sp and "err" not in sp):
                fail(f"{name}-parser neither parsed nor rejected", "Expr or syntax error", sp)
                continue
            if "err" in sp:
                run.count(f"spans:{name}:reject")
                if name == "ir" and (sp["err"] > len(raw) or sp["err"] not in bset):
                    fail("syntax error offset outside the text or off a character boundary", f"<= {len(raw)}", sp)
                continue
            run.count(f"spans:{name}:accept")
            for a, b in sp["ok"]:
                if not (a <= b <= len(raw)) or a not in bset or b not in bset:
                    fail(f"{name}-parser span [{a},{b}) is not on character boundaries inside the text",
                         f"0 <= a <= b <= {len(raw)} on boundaries", [a, b])
                    break
                if name == "ir" and toks is not None and not (a in tokstart and b in tokend and a < b):
                    fail(f"ir-parser span [{a},{b}) does not start and end on token boundaries",
                         "starts at a token start, ends at a token end, non-empty", [a, b])
                    break
    # the SPEC predicate as defined in Coq, on real token lists
    if coq_check:
        exprs = []
        for t, toks, _ in coq_check:
            tl = "[" + "; ".join(f"(0%nat, {s}, {e})" for _, s, e in toks) + "]"
            exprs.append(f"(tiles_fromb 0 {tl} {len(t.encode('utf-8'))})")
        res = core.coq_eval(IMPORTS, exprs)
        for (t, toks, ok), r in zip(coq_check, res):
            if r is not ok and r != ok:
                run.obligation("tiles predicate (Coq) == tiling check (python)", False, f"{t!r}: coq {r} python {ok}")
                break
    return failures


def is_trivia(kind):
    return kind in ("WHITESPACE", "SINGLE_LINE_SLASH_COMMENT", "SINGLE_LINE_HASH_COMMENT", "MULTI_LINE_COMMENT")


# ------------------------------------------------------------------ part C: planted positions
PRE_LINES = ["", "// plain comment", "// é comment", "# 😀", "local v{n} = \"abc\";", "local v{n} = \"ééééé\";",
             "local v{n} = '€';", "/* é", "   😀 */", "local v{n} = 1; // é", "  ", "local v{n} = |||\n  é text\n|||;",
             "local v{n} = [1, 2,\n 3];"]
SAME_LINE_PRE = ["", "", "local q = 1; ", "local q = \"é\"; ", "/* é */ ", "/* c */ ", "local q = '😀' + \"€\"; "]
SAME_LINE_POST = ["", "", " // é", " /* 😀 */", " // c", "  "]
POST_LINES = ["", "// é after", "// a", "/* 😀\n */", ""]

# construct -> (source, offset of the labelled part inside it, its byte length, kind)
CONSTRUCTS = [
    ("error \"boom\"", 0, 5, "runtime"),
    ("zzq", 0, 3, "runtime"),
    ("assert 1 == 2 : \"m\"; 0", 7, 6, "runtime"),
    ("{a: 1}.bq", 7, 2, "runtime"),
    ("[1, 2][1 + 4]", None, None, "none"),  # no frame expected: only checks nothing bogus is printed
    ("1 + )", 4, None, "syntax"),
    ("local r = ; 1", 10, None, "syntax"),
    ("1 +", 3, None, "syntax-eof"),
    ("std.trace(\"T{n}\", 1)", 9, None, "trace"),  # the call location is the argument list
    ("error \"é\" + 1", 0, 5, "runtime"),
    ("std.trace(\"T{n}\",\n  1)", 9, None, "trace"),  # a call over two lines: the line of the call is the first
    ("assert (1 ==\n 2) : \"m\"; 0", 7, 9, "runtime-multiline"),
]


def pos_cases(run):
    rng = run.rng.fork("pos")
    thorough = run.tier == "thorough"
    cases = []
    n = 0
    total = 6000 if thorough else 330
    for k in range(total):
        cons, loff, llen, kind = CONSTRUCTS[k % len(CONSTRUCTS)]
        if kind == "none":
            continue
        n += 1
        style = (k // len(CONSTRUCTS)) % 4  # 0: all ASCII, 1: non-ASCII only after, 2/3: anything
        nl = rng.choice(["\n", "\n", "\r\n"])

        def asciionly(xs):
            return [x for x in xs if all(ord(c) < 128 for c in x)]

        pre_pool = asciionly(PRE_LINES) if style in (0, 1) else PRE_LINES
        slp_pool = asciionly(SAME_LINE_PRE) if style in (0, 1) else SAME_LINE_PRE
        post_pool = asciionly(SAME_LINE_POST) if style == 0 else SAME_LINE_POST
        after_pool = asciionly(POST_LINES) if style == 0 else POST_LINES
        lines = [rng.choice(pre_pool).replace("{n}", str(i)) for i in range(rng.randint(0, 4))]
        # a block comment opened must be closed: keep "/* é" and "   😀 */" together
        fixed_lines = []
        for ln in lines:
            if ln == "/* é":
                fixed_lines += ["/* é", "   😀 */"]
            elif ln == "   😀 */":
                fixed_lines += ["/* é", "   😀 */"]
            else:
                fixed_lines.append(ln)
        head = "".join(ln.replace("\n", nl) + nl for ln in fixed_lines)
        indent = rng.choice(["", "  ", "\t", "    "])
        slp = rng.choice(slp_pool)
        src = cons.replace("{n}", str(n))
        if kind == "syntax-eof":
            tail = ""
        else:
            tail = rng.choice(post_pool)
            if kind.startswith("syntax") and tail.strip() == "":
                tail = tail  # fine
            after = [rng.choice(after_pool) for _ in range(rng.randint(0, 2))]
            tail += "".join(nl + a.replace("\n", nl) for a in after)
        text = head + indent + slp + src + tail
        start = len((head + indent + slp).encode("utf-8")) + (loff or 0)
        if kind == "syntax-eof":
            start = len(text.encode("utf-8"))
        end = start + llen if llen else None
        if kind == "runtime-multiline" and nl == "\r\n":
            text = text  # the construct's own newline stays LF; length unchanged
        cases.append({"text": text, "start": start, "end": end, "kind": kind, "label": f"T{n}", "style": style})
    return cases


FRAME = re.compile(r"<cmdline>:(\d+):(\d+)(?:-(?:(\d+):)?(\d+))?")


def part_pos(run, binary, cases):
    failures, diffs = [], []
    ev = [c for c in cases if c["kind"] != "trace"]
    tr = [c for c in cases if c["kind"] == "trace"]
    outs = core.run_harness(binary, "eval", [{"code": c["text"], "errtext": True, "out": "none"} for c in ev])
    # model predictions (what the faithful model says the trace shows)
    exprs = []
    for c in ev:
        f = cq_nlist(cps(c["text"]))
        if c["kind"].startswith("syntax"):
            exprs.append(f"(syntax_error_print Cur {f} {c['start']})")
        else:
            q = f"[{c['start']}; {c['end']}]"
            exprs.append(f"(let l := offset_to_location Cur {f} {q} in print_loc (nth 0 l zero_loc) (nth 1 l zero_loc))")
    js = [c for c in ev if c["kind"] == "runtime"]
    jexprs = [f"(let l := offset_to_location Cur {cq_nlist(cps(c['text']))} [{c['start']}; {c['end']}] in "
              f"print_js (nth 0 l zero_loc))" for c in js]
    texprs = [f"(map c_line (offset_to_location Cur {cq_nlist(cps(c['text']))} [{c['start']}]))" for c in tr]
    allm = par_eval(exprs + jexprs + texprs)   # one round of coqc processes for the three model runs
    model, jmodel, tmodel = allm[:len(exprs)], allm[len(exprs):len(exprs) + len(jexprs)], allm[len(exprs) + len(jexprs):]

    def norm_model(p):
        # (line, col, None | Some (None|Some l2, c2)) as printed numbers
        line, col, rest = p
        if rest == "None":
            return (line, col, None, None)
        inner = rest.args[0]
        l2, c2 = inner
        return (line, col, None if l2 == "None" else l2.args[0], c2)

    for c, o, m in zip(ev, outs, model):
        text = c["text"]
        exp = spec_pos(text, c["start"])
        pre_end = text.encode("utf-8")[:(c["end"] or c["start"])].decode("utf-8", "ignore")
        nonascii_before = any(ord(ch) > 127 for ch in pre_end)
        if c["kind"] == "syntax-eof":
            nonascii_before = any(ord(ch) > 127 for ch in text)
        run.note_case("pos:" + text, True)
        run.count(f"pos:{c['kind']}:" + ("nonascii-before" if nonascii_before else
                                         "ascii" if all(ord(ch) < 128 for ch in text) else "nonascii-elsewhere"))
        if "\r\n" in text:
            run.count("pos:crlf")
        case = {"part": "pos", "text": text, "kind": c["kind"], "planted": {"line": exp[0], "col": exp[1]}}
        if isinstance(m, tuple) and m and m[0] == "ERROR":
            run.obligation("model.eval(pos)", False, str(m[1])[:300])
            continue
        pred = norm_model(m)
        et = o.get("errtext") if isinstance(o, dict) else None
        want_kind = "ImportSyntaxError" if c["kind"].startswith("syntax") else None
        if et is None or (want_kind and o.get("err") != want_kind) or (not want_kind and o.get("err") == "ImportSyntaxError"):
            failures.append({"case": case, "summary": f"C17 planted {c['kind']} did not produce the expected error: "
                                                      f"{json.dumps(text, ensure_ascii=False)[:140]}",
                             "expected": want_kind or "a runtime error with a trace", "got": o})
            continue
        frames = et.split("\n")[1:] if c["kind"].startswith("runtime") else et.split("\n")
        mm = None
        for ln in frames:
            mm = FRAME.search(ln)
            if mm:
                break
        if not mm:
            failures.append({"case": case, "summary": "C17 no location printed for the planted construct",
                             "expected": exp, "got": et})
            continue
        got = (int(mm.group(1)), int(mm.group(2)), int(mm.group(3)) if mm.group(3) else None,
               int(mm.group(4)) if mm.group(4) else None)
        if got[:2] != exp:
            f = {"case": case, "summary": f"C17 {c['kind']} planted at {exp[0]}:{exp[1]} reported at {mm.group(0)[10:]}: "
                                          f"{json.dumps(text, ensure_ascii=False)[:120]}",
                 "expected": list(exp), "got": list(got)}
            if got == pred and c["kind"] == "runtime-multiline":
                f["known"] = K_ML
            failures.append(f)
        elif got != pred:
            diffs.append({"case": case, "model": list(pred), "code": list(got)})
        if len(run.samples) < 8 and nonascii_before and got[:2] == exp:
            run.samples.append({"part": "pos", "text": text, "planted": exp, "printed": mm.group(0)})
    # the same runtime cases through JsFormat: "at desc (path:line:column)"
    if js:
        jouts = core.run_harness(binary, "errjs", [{"code": c["text"]} for c in js])
        for c, o, m in zip(js, jouts, jmodel):
            text = c["text"]
            exp = spec_pos(text, c["start"])
            pre_end = text.encode("utf-8")[:c["end"]].decode("utf-8", "ignore")
            nonascii_before = any(ord(ch) > 127 for ch in pre_end)
            run.note_case("js:" + text, True)
            run.count("pos:jsformat:" + ("nonascii-before" if nonascii_before else "other"))
            case = {"part": "js", "text": text, "kind": c["kind"], "planted": {"line": exp[0], "col": exp[1]}}
            if isinstance(m, tuple) and m and m[0] == "ERROR":
                run.obligation("model.eval(js)", False, str(m[1])[:300])
                continue
            pred = tuple(m)
            mm = re.search(r"<cmdline>:(\d+):(\d+)\)", (o.get("js") or "").split("\n", 1)[-1]) if isinstance(o, dict) else None
            if not mm:
                failures.append({"case": case, "summary": "C17 JsFormat printed no location for the planted construct",
                                 "expected": list(exp), "got": o})
                continue
            got = (int(mm.group(1)), int(mm.group(2)))
            if got != exp:
                f = {"case": case, "summary": f"C17 JsFormat: construct at {exp[0]}:{exp[1]} reported at {got[0]}:{got[1]}: "
                                              f"{json.dumps(text, ensure_ascii=False)[:120]}",
                     "expected": list(exp), "got": list(got)}
                failures.append(f)
            elif got != pred:
                diffs.append({"case": case, "model": list(pred), "code": list(got)})
    # std.trace through the real StdTracePrinter (stderr of one harness process)
    if tr:
        data = "".join(json.dumps({"code": c["text"], "out": "none"}, ensure_ascii=False) + "\n" for c in tr)
        p = subprocess.run([binary, "eval"], input=data, stdout=subprocess.PIPE, stderr=subprocess.PIPE, text=True,
                           timeout=600)
        seen = {}
        for ln in p.stderr.split("\n"):
            mm = re.match(r"TRACE: virtual:<cmdline>:(\d+) (T\d+)$", ln)
            if mm:
                seen[mm.group(2)] = int(mm.group(1))
        for c, m in zip(tr, tmodel):
            text = c["text"]
            exp = spec_pos(text, c["start"])
            pre = text.encode("utf-8")[:c["start"]].decode("utf-8")
            nonascii_before = any(ord(ch) > 127 for ch in pre)
            run.note_case("pos:" + text, True)
            run.count("pos:trace:" + ("nonascii-before" if nonascii_before else "other"))
            case = {"part": "pos", "text": text, "kind": "trace", "planted": {"line": exp[0]}}
            got = seen.get(c["label"])
            pred = m[0]
            if got != exp[0]:
                f = {"case": case, "summary": f"C17 std.trace on line {exp[0]} printed line {got}: "
                                              f"{json.dumps(text, ensure_ascii=False)[:120]}",
                     "expected": exp[0], "got": got}
                failures.append(f)
            elif got != pred:
                diffs.append({"case": case, "model": pred, "code": got})
    return failures, diffs



# ------------------------------------------------------------------ source tie (Gen/GenLoc.v)
IMPORTS_SRC = IMPORTS + "From JrV Require Import Gen.GenLoc C17.ModelSource.\n"
SRC_PREFIXES = ("C17.C17_model_is_translated_source", "C17.C17_source_")


def tie_cases():
    """dense, deterministic queries for the source tie: multi-byte characters, CR LF, offsets at line starts,
    line ends, end of file, duplicates, out of order (<= 4 offsets: the harness' const-generic arities)"""
    segs = ["", "a", "é", "😀", "€b", "a\r", "\r", "ab", "é😀"]
    texts = []
    for a in segs:
        texts += [a, a + "\n", "\n" + a]
        for b in segs[:6]:
            texts += [a + "\n" + b, a + "\n" + b + "\n", a + "\n\n" + b, a + "\r\n" + b + "\n" + a]
    seen, cases = set(), []
    for t in texts:
        if t in seen:
            continue
        seen.add(t)
        bs = boundaries(t)
        qs = [[o] for o in bs]
        qs += [[bs[i], bs[i + 1]] for i in range(len(bs) - 1)]
        qs += [[bs[i + 1], bs[i]] for i in range(len(bs) - 1)]
        qs += [[o, o] for o in bs]
        qs += [[bs[-1], bs[0], bs[-1], bs[len(bs) // 2]], [bs[len(bs) // 2]] * 3 + [bs[-1]]]
        for q in qs:
            cases.append((t, q))
    return cases


def part_tie(run, binary, cases):
    """the TRANSLATED mapper (Gen/GenLoc.v, run by vm_compute) against the real code, all five fields:
    checks that the translator copied what the code does.  Returns (diff descriptions, deviating cases) where a
    deviating case is one on which the translated function and the hand model disagree."""
    exprs = []
    for text, offs in cases:
        f, o = cq_nlist(cps(text)), cq_nlist(offs)
        exprs.append(f"(map (fun c => full (to_cloc c)) (gen_offset_to_location {f} {o}), "
                     f"map full (offset_to_location Cur {f} {o}))")
    res = par_eval(exprs, imports=IMPORTS_SRC)
    outs = core.run_harness(binary, "loc", [{"text": t, "offsets": o} for t, o in cases])
    diffs, deviating, evaluated = [], [], 0
    for (text, offs), m, o in zip(cases, res, outs):
        if isinstance(m, tuple) and m and m[0] == "ERROR":
            continue
        evaluated += 1
        gen, hand = [tuple(x) for x in m[0]], [tuple(x) for x in m[1]]
        got = [tuple(x) for x in o["locs"]] if isinstance(o, dict) and "locs" in o else None
        if gen != hand:
            deviating.append((text, offs))
        if got is not None and got != gen:
            diffs.append(f"{json.dumps([text, offs], ensure_ascii=False)}: translated {gen} code {got}")
        run.count("tie:" + ("agree" if got == gen else "differ"))
    return diffs, deviating, evaluated


def source_tie_search(run, binary):
    """a source-tie obligation broke (translation error, or translated != model, or a SPEC corollary): look for a
    concrete input on which the real code violates the SPEC, first where the translated function deviates."""
    cases = tie_cases()
    try:
        _, deviating, evaluated = part_tie(run, binary, cases)
    except Exception as e:  # GenLoc.v may not compile any more
        run.log(f"search: the translated mapper could not be evaluated ({str(e)[:120]})")
        deviating, evaluated = [], 0
    run.log(f"search: source tie: {len(cases)} dense queries; translated mapper evaluated on {evaluated}, "
            f"deviates from the hand model on {len(deviating)}")
    dev = set((t, tuple(o)) for t, o in deviating)
    ordered = deviating + [c for c in cases if (c[0], tuple(c[1])) not in dev]
    f, _ = part_loc(run, binary, ordered)
    if f:
        return f
    # the printers: planted constructs at thorough scope
    old = run.tier
    run.tier = "thorough"
    try:
        pc = pos_cases(run)
    finally:
        run.tier = old
    f3, _ = part_pos(run, binary, pc)
    return f3


# ------------------------------------------------------------------ the check
def corpus_cases():
    d = os.path.join(core.VERIF, "corpus", "C17")
    out = {"loc": [], "lex": [], "pos": []}
    if os.path.isdir(d):
        for fn in sorted(os.listdir(d)):
            if fn.endswith(".case"):
                c = json.load(open(os.path.join(d, fn), encoding="utf-8"))
                out[c["part"]].append(c)
    return out


def run_all(run, binary, thorough_scope=False):
    old = run.tier
    if thorough_scope:
        run.tier = "thorough"
    try:
        corp = corpus_cases()
        lc = [(c["text"], c["offsets"]) for c in corp["loc"]] + loc_cases(run)
        li = [c["text"] for c in corp["lex"]] + lex_inputs(run)
        pc = corp["pos"] + pos_cases(run)
    finally:
        run.tier = old
    run.log(f"loc: {len(lc)} queries; lex/rowan/spans: {len(li)} inputs; positions: {len(pc)} programs")
    f1, d1 = part_loc(run, binary, lc)
    run.log(f"loc done ({len(f1)} spec failures incl. known, {len(d1)} model diffs)")
    f2 = part_lex(run, binary, li)
    run.log(f"lex/rowan/spans done ({len(f2)} failures)")
    f3, d3 = part_pos(run, binary, pc)
    run.log(f"positions done ({len(f3)} failures incl. known, {len(d3)} model diffs)")
    return f1 + f2 + f3, d1 + d3


def check(run, terrs):
    proofs_ok, detail = core.check_property_file(run, "C17")
    binary, err = core.build_harness(run)
    if not binary:
        run.obligation("harness.build", False, err)
        return core.conclude(run, False, err, [], [])
    failures, model_diffs = run_all(run, binary)
    # source tie: the translated mapper, executed, against the real code (is the translation a copy?)
    src_broken = [n for n, ok, _ in run.obligations
                  if not ok and (n.startswith(SRC_PREFIXES) or n == "translator.GenLoc")]
    if not terrs:
        tc = tie_cases()
        tc = tc if run.tier == "thorough" else tc[::7]
        try:
            tdiffs, deviating, evaluated = part_tie(run, binary, tc)
        except Exception as e:
            tdiffs, deviating, evaluated = [f"evaluation failed: {str(e)[:200]}"], [], 0
        run.log(f"source tie: translated mapper run on {evaluated}/{len(tc)} queries: {len(tdiffs)} differences from "
                f"the code, {len(deviating)} deviations from the hand model")
        run.obligation("C17.source.translated mapper executes like the code (all five fields)",
                       not tdiffs and evaluated == len(tc), "; ".join(tdiffs[:3]))
        if deviating and not src_broken:
            run.obligation("C17.source.translated mapper == hand model on the dense queries", False,
                           json.dumps(deviating[:3], ensure_ascii=False))
        proofs_ok = proofs_ok and not tdiffs and evaluated == len(tc)
        if tdiffs and not detail:
            detail = "translated mapper differs from the code: " + tdiffs[0]
    run.trusted = TRUSTED
    run.assumptions = ASSUMPTIONS

    def search():
        broken = [n for n, ok, _ in run.obligations
                  if not ok and (n.startswith(SRC_PREFIXES) or n.startswith("C17.source.") or n == "translator.GenLoc")]
        if broken:
            run.log(f"search: source-tie obligation(s) broke ({', '.join(broken)[:200]}): targeted position probes")
            f = source_tie_search(run, binary)
            if f:
                return f
        return run_all(run, binary, thorough_scope=True)[0]

    return core.conclude(
        run, proofs_ok, detail, failures, model_diffs,
        search=search if (run.tier == "quick" or src_broken or terrs) else None,
        level="proof", rule=RULE)


def replay(run, data):
    binary, err = core.build_harness(run)
    if not binary:
        print(err)
        return 1
    f = data.get("failure", {})
    c = f.get("case", {})
    part = c.get("part")
    print("case    :", json.dumps(c, ensure_ascii=False))
    print("expected:", f.get("expected"))
    print("was     :", f.get("got"))
    if part == "loc":
        print("now     :", core.run_harness(binary, "loc", [{"text": c["text"], "offsets": c["offsets"]}])[0])
    elif part == "lex":
        for sub in ("lex", "rowan", "spans"):
            print(f"now {sub:5}:", core.run_harness(binary, sub, [{"text": c["text"]}])[0])
    elif part == "pos":
        print("now     :", core.run_harness(binary, "eval", [{"code": c["text"], "errtext": True, "out": "none"}])[0])
    elif part == "js":
        print("now     :", core.run_harness(binary, "errjs", [{"code": c["text"]}])[0])
    else:
        print(json.dumps(data, indent=1)[:3000])
        return 1
    return 0


RULE = ("A: offset queries (1-4 byte offsets on character boundaries, duplicates and end-of-file included) on every "
        "file of length <= 4 over {a, LF, U+00E9} and random files <= 40 characters over 1/2/3/4-byte characters, CR LF, "
        "tabs; B: token sequences over 64 token spellings + 13 trivia + 13 text-block shapes, hostile character fuzz, "
        "mutated valid programs; C: 10 planted constructs x random preamble/same-line prefix/suffix/following lines "
        "drawn from ASCII and non-ASCII pools, LF and CR LF. distinct = distinct input text (+ query); non-trivial = "
        "more than one character (A), more than two (B), every program (C)")
TRUSTED = ["Coq 8.16.1 kernel incl. vm_compute (no native_compute)",
           "no axioms (all C17 theorems closed under the global context)",
           "translator/gens/locmap.py: statement-by-statement translation of location.rs offset_to_location, trace/mod.rs "
           "print_code_location, JsFormat line/column arguments and the ImportSyntaxError branch of write_trace into "
           "Gen/GenLoc.v (proved equal to the hand model for all inputs; prelude = models of the Rust library calls; casts "
           "are the identity, usize `-` is N.sub); the translated mapper is also run against the code",
           "hand transliteration of event.rs Sink (leaves only) and the lex.rs loop; tie = differential run",
           "jrharness lex/rowan/spans/loc/eval, the Debug rendering of Expr used to collect spans, vlib generators, "
           "Coq term printer/parser",
           "modelled not verified: logos' generated automaton and the text-block scanner (contract [matcher_ok] is "
           "checked on every generated input, not proved); the rowan parser's event stream (invariant [wf_events] + "
           "token count is checked through its consequence leaves == lexemes); forward-parent/wrapper chains are "
           "resolved before the sink model"]
ASSUMPTIONS = ["files are shorter than 4 GiB (`pos as u32` not modelled)",
               "offsets handed to the mapper are character boundaries <= len (checked for every Span by part B)",
               "column = code points since the line start (no grapheme clustering, tabs count 1), CR is an ordinary character"]
