"""C20 — formatting is idempotent and never crashes.

Theorems: coq/theories/C20 (the comment printer's expect()s are unreachable; children()'s asserts
cannot fire on well-formed lists; // and # comments are fixed points; block comments are NOT —
refuted with witnesses).  Deciding part: (a) the C19 programs x {tabs,2,4}: format(format(x)) =
format(x), no panic; (b) token-string fuzz and every 1-/2-token string through format() under
catch_unwind incl. building and rendering the diagnostic: the outcome is an output or a
diagnostic, never a panic, and an input the syntax-tree parser flags is never formatted;
(c) jrsonnet-fmt --test accepts what jrsonnet-fmt printed (sample, real executable).
"""
import json
import os
import subprocess
import tempfile
import shutil

from vlib import core
from props import fmtcommon as F


def run_fmt(binary, srcs):
    return core.run_harness(binary, "fmt", [{"src": s} for s in srcs], timeout=600)


def judge(run, binary, cases, outs):
    # second-pass texts need their token / comment lists for the classifiers
    need = []
    for o in outs:
        if not o or "fmt" not in o:
            continue
        for f in o["fmt"].values():
            a = f.get("again") if isinstance(f, dict) else None
            if a and a.get("same") is False:
                need.append(a["text"])
    need = sorted(set(need))
    relex = {}
    if need:
        ro = core.run_harness(binary, "fmt", [{"src": s, "indents": [], "tree": False} for s in need])
        relex = {s: r.get("lex") for s, r in zip(need, ro) if r}
    failures = []
    repro = {}
    for case, o in zip(cases, outs):
        if o is None or "fmt" not in o:
            failures.append({"case": {"src": case["src"]}, "what": "harness process died or gave no answer",
                             "got": o, "expected": "answer",
                             "summary": f"C20 harness died (abort/stack overflow?): {case['src'][:120]!r}"})
            continue
        fs = F.c20_failures(case, o, relex)
        failures += fs
        run.note_case(case["src"], len(case["src"].split()) >= 2)
        run.count("stream:" + case["stream"])
        for ind, f in o["fmt"].items():
            k = "formatted" if "ok" in f else "declined" if "diag" in f else "panic"
            run.count("outcome:" + k)
            if "ok" in f:
                a = f["again"]
                run.count("second-pass:" + ("same" if a.get("same") else "changed" if "same" in a else
                                            "declined" if "diag" in a else "panic"))
        run.count("input:" + ("valid" if "ok" in o.get("tree", {}) else "invalid"))
        if case.get("canonical", "").startswith("C20"):
            repro[case["canonical"]] = any(f.get("known") == case["canonical"] for f in fs)
    return failures, repro


def cli_test_mode(run, failures):
    """jrsonnet-fmt --test must accept what jrsonnet-fmt printed (real executable)."""
    exe = os.path.join(core.REPO_TARGET, "debug", "jrsonnet-fmt")
    # always through cargo: the executable must be the one of the current working tree
    bins, err = core.build_repo_bins(run, packages=("jrsonnet-fmt",))
    if not bins:
        run.obligation("jrsonnet-fmt.build", False, err)
        return
    rng = run.rng.fork("cli")
    tmp = tempfile.mkdtemp(prefix="c20-cli-", dir=core.CACHE)
    try:
        n = 12 if run.tier == "quick" else 80
        for i in range(n):
            g = F.ProgGen(rng.fork(f"p{i}"), max_depth=3)
            # without comments: every instability of commented programs is judged (and classified)
            # at the API level; here the output must be accepted as is
            src, _ = F.render(g.program(), rng.fork(f"r{i}"), style=F.STYLES[i % 4])
            flag = [["--hard-tabs"], ["--indent", "2"], ["--indent", "4"]][i % 3]
            p = os.path.join(tmp, f"in{i}.jsonnet")
            with open(p, "w", encoding="utf-8") as fh:
                fh.write(src)
            r1 = subprocess.run([exe] + flag + [p], capture_output=True, text=True, timeout=120)
            if r1.returncode != 0:
                run.count("cli:declined-or-failed")
                if "panicked" in r1.stderr:
                    failures.append({"case": {"src": src, "flags": flag}, "what": "jrsonnet-fmt panicked",
                                     "got": r1.stderr[-300:], "expected": "output or diagnostic",
                                     "summary": f"C20 jrsonnet-fmt panicked: {src[:120]!r}"})
                continue
            q = os.path.join(tmp, f"out{i}.jsonnet")
            with open(q, "w", encoding="utf-8") as fh:
                fh.write(r1.stdout)
            r2 = subprocess.run([exe, "--test"] + flag + [q], capture_output=True, text=True, timeout=120)
            run.count("cli:--test-" + ("accepts" if r2.returncode == 0 else "rejects"))
            if r2.returncode != 0:
                fl = {"case": {"src": src, "flags": flag}, "what": "jrsonnet-fmt --test rejects jrsonnet-fmt's output",
                      "got": r2.stderr[-200:], "expected": "exit 0", "first": r1.stdout[:400],
                      "summary": f"C20 --test rejects the tool's own output: {src[:120]!r}"}
                # the same classifiers as the API-level check
                r3 = subprocess.run([exe] + flag + [q], capture_output=True, text=True, timeout=120)
                used = F.whitespace_change_explained(r1.stdout, r3.stdout, ignore_comment_text=True) \
                    if r3.returncode == 0 else None
                if any(F.ml_text_stable("", t) is False for t in
                       F.re.findall(r"/\*.*?\*/", r1.stdout, F.re.S)):
                    fl["known"] = "C20-block-comment-reindent-unstable"
                elif used:
                    fl["known"] = sorted(used)[0]
                fl["second"] = r3.stdout[:400]
                failures.append(fl)
    finally:
        shutil.rmtree(tmp, ignore_errors=True)


def check(run, terrs):
    stale = F.source_tie_obligations(run, terrs)
    proofs_ok, detail = core.check_property_file(run, "C20")
    # the C20 theorems live partly in C19's files
    ok19, log19 = core.coq_make(core.coq_targets_for(["C19"]))
    run.obligation("C19 kernel files compile (shared model)", ok19, "" if ok19 else log19[-600:])
    binary, err = core.build_harness(run)
    if not binary:
        run.obligation("harness.build", False, err)
        return core.conclude(run, False, err, [], [])
    cases = F.build_cases(run, quick_scale=0.6)
    fuzz = [{"src": s, "comments": [], "style": "fuzz", "risky": [], "features": {}, "stream": "fuzz"}
            for s in F.fuzz_cases(run)]
    cases += fuzz
    run.log(f"{len(cases)} inputs ({len(fuzz)} token-string fuzz)")
    outs = run_fmt(binary, [c["src"] for c in cases])
    failures, repro = judge(run, binary, cases, outs)
    for fid, ok in sorted(repro.items()):
        run.obligation(f"known-finding-still-reproduces.{fid}", ok,
                       "" if ok else f"canonical input {F.CANONICAL[fid]!r} no longer shows the finding: "
                                     "remove it from props/c20.meta.json")
    for c, o in zip(cases, outs):
        if c.get("fixed"):
            want = F.FIXED[c["fixed"]][1]
            fm = (o or {}).get("fmt", {})
            if want == "diag":
                got = sorted({("diag" if "diag" in f else "ok" if "ok" in f else "panic") for f in fm.values()})
                ok = got == ["diag"]
            else:  # preserved: formatted, and the second pass changes nothing
                got = sorted({("stable" if f.get("again", {}).get("same") else "unstable") if "ok" in f else
                              "diag" if "diag" in f else "panic" for f in fm.values()})
                ok = got == ["stable"]
            run.obligation(f"fixed-finding-stays-fixed.{c['fixed']}", ok,
                           f"{c['src']!r}: expected {want} for every indent, got {got}: {json.dumps(fm)[:300]}")
    cli_test_mode(run, failures)
    for c, o in zip(cases, outs):
        if len(run.samples) >= 8:
            break
        if c["stream"] == "fuzz" and o and "fmt" in o and len(c["src"]) > 6:
            f = o["fmt"]["2"]
            run.samples.append({"input": c["src"][:120], "outcome": "formatted" if "ok" in f else
                                "diagnostic" if "diag" in f else "panic"})
    run.trusted = TRUSTED
    run.assumptions = ASSUMPTIONS
    return core.conclude(run, proofs_ok and ok19, detail, failures, [],
                         search=lambda: F.source_tie_search(run, binary, stale, "C20"),
                         level="proof", rule=RULE, explanation=EXPLANATION)


def replay(run, data):
    binary, err = core.build_harness(run)
    f = data.get("failure", {})
    c = f.get("case", {})
    src = c.get("src")
    if src is None:
        print(json.dumps(data, indent=1)[:3000])
        return 1
    o = run_fmt(binary, [src])[0]
    print("input   :", repr(src))
    print("indent  :", c.get("indent"))
    print("what    :", f.get("what"))
    print("was     :", json.dumps(f.get("got"))[:600])
    print("now     :", json.dumps((o or {}).get("fmt", {}).get(str(c.get("indent", 2))))[:1500])
    return 0


RULE = ("(a) the C19 program streams x indent {tabs,2,4}: second pass equals first; (b) token strings: random "
        "sequences of 1..7 tokens over a 68-token alphabet (operators, brackets, keywords, strings, text block, "
        "comments, malformed literals) with 4 separators, plus 1- and 2-token strings over the 52 structural "
        "tokens; (c) jrsonnet-fmt then jrsonnet-fmt --test on generated files; distinct = distinct text, "
        "non-trivial = at least two whitespace-separated tokens")
EXPLANATION = ("partial proof + exploration: theorems cover panic-freedom and fixed points of the two "
               "hand-written kernels; dprint-core, the rowan parser's error recovery and hi-doc are only tested")
TRUSTED = ["Coq 8.16.1 kernel incl. vm_compute (no native_compute)",
           "no axioms (all C20 theorems closed under the global context)",
           "jrharness fmt (format + diagnostic building/rendering under catch_unwind), vlib generators",
           "modelled not verified: dprint-core, rowan parser error recovery (marker.rs), hi-doc rendering"]
ASSUMPTIONS = ["children.rs translated statement by statement into Gen/GenFmt.v on every run and proved equal to the "
               "model (C20_model_is_translated_source_children); comments.rs transliterated by hand, tied by C19's "
               "side-by-side run",
               "the harness is a debug build (overflow checks and dprint-core's debug assertions on), like "
               "`cargo build` of jrsonnet-fmt; release builds skip dprint's tab/newline assertions"]
