"""C09 — numbers are IEEE-754 doubles with checked range and coherent comparison.

Theorems: coq/theories/C09 (Flocq binary64 model of the numeric kernel of val.rs /
evaluate/operator.rs / stdlib sort.rs sets.rs math.rs).
Correspondence (every run):
  A. `jrharness numop`: ALL ordered pairs of a boundary-dense set D of doubles under every
     unary and binary numeric operator through evaluate_unary_op / evaluate_binary_op_normal,
     results as bit patterns, against the impl-model and the SPEC run inside coqc.
  B. `jrharness eval` (whole pipeline: lexer, parser, evaluator, manifest): decimal literals,
     operator rows, erroring operators, composed triples, std.sort/uniq/set/setMember/minArray/
     maxArray/min/max, and the std math functions against the Coq spec (abs sign floor ceil
     round sqrt mantissa exponent) or, as exploration, the platform libm through ctypes.
"""
import ctypes
import ctypes.util
import json
import math
import re
from concurrent.futures import ThreadPoolExecutor

from vlib import core

IMPORTS = ("From Coq Require Import List ZArith.\nFrom Flocq Require Import IEEE754.Bits.\n"
           "From JrV Require Import C09.Model.\nImport ListNotations.\nOpen Scope Z_scope.\n")
OPS = ["+", "-", "*", "/", "%", "<", "<=", ">", ">=", "==", "!=", "&", "|", "^", "<<", ">>"]
NUMERIC_OPS = [0, 1, 2, 3, 4, 11, 12, 13, 14, 15]
ERR = -3
EPS = 2.0 ** -52
MAXSAFE = 2.0 ** 53 - 1

K_SHL = "C09-shl-negative-base-overflow"
K_FREXP = "C09-frexp-via-log2"



bits = core.float_to_bits
unbits = core.bits_to_float


def succ(x):
    return math.nextafter(x, math.inf)


def pred(x):
    return math.nextafter(x, -math.inf)


# ------------------------------------------------------------------ the boundary-dense set D
def boundary_set(rng, thorough):
    tiny = 5e-324
    minnorm = 2.2250738585072014e-308
    p53, p63 = 2.0 ** 53, 2.0 ** 63
    mx = 1.7976931348623157e308
    rmax = 1.3407807929942596e154   # sqrt(max): multiplication overflow boundary
    d = [0.0, -0.0, tiny, -tiny, pred(minnorm), minnorm,
         pred(1.0), 1.0, succ(1.0),
         EPS, pred(EPS), succ(EPS), EPS / 2, 1e-20, 2e-20, -1e-20,
         p53 - 2, p53 - 1, p53, p53 + 2, -(p53 - 1), -p53, 2.0 ** 52 + 0.5,
         pred(p63), p63, succ(p63), -p63, pred(-p63), 2.0 ** 62, 2.0 ** 64,
         mx, -mx, 1e308, 2.0 ** 1023, rmax, succ(rmax), 1e-300, 1e300]
    d += [float(i) for i in (2, 3, 5, 7, 31, 32, 52, 53, 62, 63, 64, 65)]
    d += [-1.0, -2.0, -7.0, -63.0, -64.0, 1e10, 2.0 ** 31, 2.0 ** 32]
    # left-shift guard boundary: base = 2^(63-exp) and its neighbours, both signs
    for e in ((1, 2, 10, 11, 12, 31, 32, 52, 53, 61, 62) if thorough else (11, 31, 62)):
        b = 2.0 ** (63 - e)
        if b <= p53:
            d += [b, b - 1, -b, -b - 1] if b - 1 != b else [b, -b]
    d += [0.5, 1.5, 2.5, -0.5, -1.5, 0.1, 1 / 3, 0.49999999999999994, 3.5, -0.9]
    if thorough:
        d += [2.0 ** -1023, -succ(1.0), 2.5e-16, 1e-17, pred(mx), 2.0 ** 970, -1e300, 1e-160, 1e160,
              4.0, 8.0, 10.0, 33.0, 127.0, 255.0, 1000.0, -3.0, -(2.0 ** 31), 0.2, 0.3, 63.5,
              1.9999999999999998, 3.141592653589793,
              2 * tiny, 3 * tiny, succ(minnorm), -minnorm, succ(succ(1.0)), -pred(1.0), -EPS, 1e-16, 3e-16,
              -(p53 + 2), 2.0 ** 52, succ(-p63), -(2.0 ** 62), -1e308, pred(2.0 ** 1023), 2.0 ** 1022,
              2.0 ** 512, 1e-308, 4e-324 + 1e-310]
        d += [float(i) for i in (6, 9, 11, 12, 54, 61, 128, 256)]
        d += [-4.0, -65.0, -1e10, -2.5, 2.675, 1e-5, 64.5, 0.9, 4.35, 100.25, 2.718281828459045]
    extra = 60 if thorough else 8
    for _ in range(extra):
        r = rng.below(6)
        if r == 0:      # random finite bit pattern
            while True:
                b = rng.next() & 0xFFFFFFFFFFFFFFFF
                if (b >> 52) & 0x7FF != 0x7FF:
                    d.append(unbits(b))
                    break
        elif r == 1:    # integer in the safe range
            d.append(float(rng.randint(-(2 ** 53), 2 ** 53)))
        elif r == 2:    # small fraction
            d.append(rng.randint(-4000, 4000) / 16.0)
        elif r == 3:    # near an existing element (1-3 ulps)
            x = rng.choice(d)
            for _k in range(rng.randint(1, 3)):
                x = succ(x) if rng.chance(0.5) else pred(x)
            if math.isfinite(x):
                d.append(x)
        elif r == 4:    # within a few epsilon of a small number
            d.append(rng.choice([0.0, 1e-18, 0.25, 1.0, -1.0]) + rng.randint(-6, 6) * EPS / 2)
        else:           # power of two
            d.append(math.ldexp(1.0, rng.randint(-1074, 1023)) * rng.choice([1, -1]))
    out, seen = [], set()
    for x in d:
        b = bits(x)
        if b not in seen and math.isfinite(x):
            seen.add(b)
            out.append(b)
    return out


# ------------------------------------------------------------------ helpers
def lit(b):
    """Jsonnet literal denoting exactly the double with bit pattern b"""
    x = unbits(b)
    s = repr(abs(x))
    if s.endswith(".0"):
        s = s[:-2]
    return f"(-{s})" if math.copysign(1.0, x) < 0 else s


def classify(x):
    ax = abs(x)
    if ax == 0:
        return "zero"
    if ax < 2.2250738585072014e-308:
        return "subnormal"
    if ax != int(ax) if ax < 2 ** 53 else False:
        return "fraction"
    if ax <= MAXSAFE:
        return "safe-int"
    if ax < 2.0 ** 64:
        return "int-2^53..2^64"
    return "huge"


def enc_code(v):
    """numop outcome -> model encoding (int) or a string for panic / non-finite / type"""
    if v is True:
        return -1
    if v is False:
        return -2
    if isinstance(v, str):
        if v.isdigit():
            return int(v)
        if v.startswith("E:"):
            return ERR
    return v


def enc_canon(o):
    """eval answer for a scalar result -> encoding"""
    if "ok" in o:
        v = o["ok"]
        if v is True:
            return -1
        if v is False:
            return -2
        if isinstance(v, dict) and "#" in v:
            return int(v["#"])
        return "T:" + json.dumps(v)[:60]
    if "err" in o:
        return ERR
    return "P:" + str(o.get("panic", o))[:160]


def canon_list(v):
    out = []
    for x in v:
        if isinstance(x, dict) and "#" in x:
            out.append(int(x["#"]))
        elif x is True:
            out.append(-1)
        elif x is False:
            out.append(-2)
        else:
            out.append("T:" + json.dumps(x)[:40])
    return out


def show(e):
    if isinstance(e, int):
        if e >= 0:
            return repr(unbits(e))
        return {-1: "true", -2: "false", -3: "error"}.get(e, str(e))
    return str(e)


def ulp_distance(b1, b2):
    def key(b):
        return b if b < (1 << 63) else -(b - (1 << 63))
    return abs(key(b1) - key(b2))


def nonfinite(e):
    return isinstance(e, int) and e >= 0 and (e >> 52) & 0x7FF == 0x7FF


def zcanon(e):
    """-0 and +0 identified (for results where IEEE/Rust leave the sign of zero open)"""
    return 0 if e == 1 << 63 else e


def ints(term):
    return term


def coq_eval_par(exprs, preamble="", groups=None):
    """core.coq_eval, but always spread over the cores (it shards only above 200 cases)"""
    n = groups or core.NPROC
    n = max(1, min(n, len(exprs)))
    idx = [list(range(i, len(exprs), n)) for i in range(n)]
    res = [None] * len(exprs)
    with ThreadPoolExecutor(max_workers=n) as ex:
        futs = [(ix, ex.submit(core.coq_eval, IMPORTS, [exprs[i] for i in ix], None, 900, preamble)) for ix in idx]
        for ix, f in futs:
            for i, r in zip(ix, f.result()):
                res[i] = r
    return res


def is_err(r):
    return isinstance(r, tuple) and len(r) == 2 and r[0] == "ERROR"


def zl(xs):
    return "[" + "; ".join(str(x) for x in xs) + "]"


# ------------------------------------------------------------------ part A: all pairs through numop
def part_a(run, binary, D, model, failures, model_diffs):
    chunk = max(1, (len(D) + core.NPROC - 1) // core.NPROC)
    reqs = [{"d": [str(b) for b in D], "a": list(range(i, min(len(D), i + chunk)))}
            for i in range(0, len(D), chunk)]
    outs = core.run_harness(binary, "numop", reqs, shards=len(reqs))
    code = []
    for o in outs:
        if not isinstance(o, dict) or "ok" not in o:
            run.obligation("harness.numop", False, json.dumps(o)[:300])
            return {}
        code.extend(o["ok"])
    run.log("A: harness done")
    table = {}   # (ai, k, bi) -> impl encoding, for part B
    nfail = 0

    def fail(what, a, op, b, expected, got, known=None):
        nonlocal nfail
        nfail += 1
        expr = f"{op}{lit(a)}" if b is None else f"{lit(a)} {op} {lit(b)}"
        f = {"case": {"kind": "op", "jsonnet": expr, "a_bits": a, "b_bits": b, "op": op},
             "summary": f"C09 {what}: {expr} gives {show(got)}, specification {show(expected)}",
             "what": what, "expected": show(expected), "got": show(got)}
        if known:
            f["known"] = known
        failures.append(f)

    for ai, (a, m, c) in enumerate(zip(D, model, code)):
        if is_err(m):
            run.obligation("model.eval", False, str(m[1])[:300])
            continue
        un_i, un_s, rows = m
        cu = [enc_code(x) for x in c["un"]]
        run.count("class:" + classify(unbits(a)))
        # unary + - : impl == spec
        for k, op in enumerate(["+", "-"]):
            run.note_case(f"{op}{a}", True)
            if cu[k] != un_i[k]:
                fail("unary operator", a, op, None, un_i[k], cu[k])
        run.note_case(f"~{a}", True)
        spec_bnot, kb = un_s
        if cu[2] != spec_bnot:
            fail("bitwise not outside the specification", a, "~", None, spec_bnot, cu[2])
        elif cu[2] != un_i[2]:
            model_diffs.append({"case": f"~{lit(a)}", "model": show(un_i[2]), "code": show(cu[2])})
        for b, row, cb in zip(D, rows, c["bin"]):
            ri, rs, rk = row
            cb = [enc_code(x) for x in cb]
            spec = ri[:5] + rs
            for k in range(16):
                run.note_case(f"{a}{OPS[k]}{b}", True)
                table[(a, k, b)] = ri[k]
                got, exp, imp = cb[k], spec[k], ri[k]
                run.count("outcome:error" if got == ERR else "outcome:value")
                if got == exp:
                    if got != imp:
                        model_diffs.append({"case": f"{lit(a)} {OPS[k]} {lit(b)}", "model": show(imp),
                                            "code": show(got), "note": "code agrees with the spec, the "
                                            "impl-model (a recorded finding) no longer reproduces"})
                    continue
                known = None
                if got == imp and k == 14 and rk[1] == 1:
                    known = K_SHL
                what = ("non-finite number observable" if nonfinite(got) else
                        "panic" if isinstance(got, str) and got.startswith("P:") else
                        f"operator {OPS[k]} disagrees with the specification")
                fail(what, a, OPS[k], b, exp, got, known)
    run.log(f"A: compared, {nfail} spec disagreements (known classes included)")
    return table


# ------------------------------------------------------------------ part B: whole pipeline
CLUSTERS = [[1e-20, 2e-20, 0.0, -1e-20], [1.0, succ(1.0), pred(1.0), succ(succ(1.0))],
            [0.0, -0.0, 5e-324, -5e-324], [EPS, succ(EPS), pred(EPS), 2 * EPS, 0.0],
            [2.0 ** 53, 2.0 ** 53 - 1, 2.0 ** 53 + 2], [0.25, 0.25 + EPS / 2, 0.25 + EPS, 0.25 + 2 * EPS]]


def plan_b(run, D):
    """everything of part B that needs the model: generated before the single Coq batch"""
    rng = run.rng.fork("partB-plan")
    thorough = run.tier == "thorough"
    safe_ints = [b for b in D if abs(unbits(b)) <= MAXSAFE and unbits(b) == int(unbits(b))]
    tri = []
    for _ in range(1500 if thorough else 120):
        k1, k2 = rng.choice(NUMERIC_OPS), rng.choice(NUMERIC_OPS)
        pool = safe_ints if (k1 >= 11 and rng.chance(0.8)) else D
        a, b = rng.choice(pool), rng.choice(pool)
        c = rng.choice(safe_ints if (k2 >= 11 and rng.chance(0.7)) else D)
        tri.append((k1, k2, a, b, c))
    lists = []
    for i in range(400 if thorough else 45):
        n = rng.choice([2, 2, 3, 3, 4, 5, 6, 8, 12])
        if i % 3 == 0:
            cl = rng.choice(CLUSTERS)
            l = [bits(rng.choice(cl)) for _ in range(n)]
        elif i % 3 == 1:
            l = [rng.choice(D) for _ in range(n)]
        else:
            base = [rng.choice(D) for _ in range(max(1, n // 2))]
            l = [rng.choice(base) for _ in range(n)]
        lists.append(l)
    lists += [[bits(1e-20), bits(2e-20)], [bits(2e-20), bits(1e-20)], [bits(0.0), bits(-0.0)], [bits(3.0)], []]
    lists = [(l, list(dict.fromkeys(l + [rng.choice(D) for _ in range(4)]))) for l in lists]
    xs = list(D)
    if not thorough:
        rng.shuffle(xs)
        xs = sorted(xs[:40])
    pairs = [(rng.choice(xs), rng.choice(xs)) for _ in range(300 if thorough else 30)]
    pairs += [(bits(0.0), bits(-0.0)), (bits(-0.0), bits(0.0)), (bits(1e-20), bits(2e-20))]
    return {"tri": tri, "lists": lists, "xs": xs, "pairs": pairs}


def part_b(run, binary, D, table, plan, pm, failures, model_diffs):
    rng = run.rng.fork("partB")
    thorough = run.tier == "thorough"
    reqs, judge = [], []

    def add(code, fn):
        reqs.append({"code": code})
        judge.append((code, fn))

    def fail(what, code, expected, got, known=None, case=None):
        f = {"case": case or {"kind": "jsonnet", "jsonnet": code},
             "summary": f"C09 {what}: {code[:160]} gives {got}, specification {expected}",
             "what": what, "expected": expected, "got": got}
        f["case"].setdefault("jsonnet", code)
        if known:
            f["known"] = known
        failures.append(f)

    # ---- B1 literals + rows of non-erroring operators, through the parser and manifest
    nrows = 120 if thorough else 20
    for _ in range(nrows):
        a = rng.choice(D)
        bs = [rng.choice(D) for _ in range(8)]
        items, exp = [lit(a)], [a]
        for b in bs:
            items.append(lit(b))
            exp.append(b)
            for k in range(16):
                e = table.get((a, k, b))
                if e is None or e == ERR:
                    continue
                # known classes: expectation is what the code does today (judged in part A)
                items.append(f"{lit(a)} {OPS[k]} {lit(b)}")
                exp.append(e)
        code = "[" + ", ".join(items) + "]"

        def j(o, code=code, exp=exp, items=items):
            run.note_case(code, True)
            run.count("B:row")
            if "ok" not in o:
                fail("operator row failed although every member succeeds in the operator sweep", code,
                     "a value", json.dumps(o)[:200])
                return
            got = canon_list(o["ok"])
            for it, g, e in zip(items, got, exp):
                if g != e:
                    fail("evaluation through the parser differs from the operator sweep / literal value",
                         it, show(e), show(g))
                    return
        add(code, j)

    # ---- B2 erroring operators, one per program
    errs = [(a, k, b) for (a, k, b), e in table.items() if e == ERR]
    rng.shuffle(errs)
    per_op = {}
    for a, k, b in errs:
        if per_op.get(k, 0) >= (40 if thorough else 6):
            continue
        per_op[k] = per_op.get(k, 0) + 1
        code = f"{lit(a)} {OPS[k]} {lit(b)}"

        def j(o, code=code):
            run.note_case(code, True)
            run.count("B:error-case")
            e = enc_canon(o)
            if e != ERR:
                fail("an operation without a finite result is not an error", code, "error", show(e))
        add(code, j)

    # ---- B3 composed triples (a op1 b) op2 c
    for (k1, k2, a, b, c), m in zip(plan["tri"], pm["tri"]):
        if is_err(m):
            run.obligation("model.eval", False, str(m[1])[:300])
            continue
        code = f"({lit(a)} {OPS[k1]} {lit(b)}) {OPS[k2]} {lit(c)}"

        def j(o, code=code, m=m):
            run.note_case(code, True)
            run.count("B:triple")
            e = enc_canon(o)
            if e != m:
                # known classes of single operators are judged in part A; here the impl-model is the
                # reference and a difference is traced back by the sweep
                if nonfinite(e) or isinstance(e, str):
                    fail("composed expression", code, show(m), show(e))
                else:
                    model_diffs.append({"case": code, "model": show(m), "code": show(e)})
        add(code, j)

    # ---- B4 sort / uniq / set / setMember / minArray / maxArray
    for (l, qs), m in zip(plan["lists"], pm["lists"]):
        if is_err(m):
            run.obligation("model.eval", False, str(m[1])[:300])
            continue
        sort_i, uniq_i, uniq_s, set_i, set_s, mn, mx, mem = m
        arr = "[" + ", ".join(lit(b) for b in l) + "]"
        sarr = "[" + ", ".join(lit(b) for b in set_s) + "]"
        code = (f"local L = {arr}, S = {sarr}; [std.sort(L), std.uniq(L), std.set(L), "
                f"[std.setMember(x, std.set(L)) for x in L], "
                f"[std.setMember(x, S) for x in [{', '.join(lit(q) for q in qs)}]]"
                + (", [std.minArray(L), std.maxArray(L)]" if l else "") + "]")
        def j(o, code=code, l=l, sort_i=sort_i, uniq_i=uniq_i, uniq_s=uniq_s, set_i=set_i, set_s=set_s,
              mn=mn, mx=mx, mem=mem):
            run.note_case(code, len(l) >= 2)
            run.count(f"B:list-len{min(len(l), 9)}")
            if "ok" not in o:
                fail("sort/uniq/set on numbers failed", code, "values", json.dumps(o)[:200])
                return
            v = o["ok"]
            g_sort, g_uniq, g_set = canon_list(v[0]), canon_list(v[1]), canon_list(v[2])
            g_mem, g_q = canon_list(v[3]), canon_list(v[4])
            # sort is stable (3588344) and uniq keeps the first of a run: bit-exact comparison
            if g_sort != sort_i:
                fail("std.sort is not the stable ascending rearrangement under <", code,
                     [show(x) for x in sort_i], [show(x) for x in g_sort])
            if g_uniq != uniq_s:
                fail("std.uniq does not merge exactly the ==-equal neighbours", code,
                     [show(x) for x in uniq_s], [show(x) for x in g_uniq])
            elif g_uniq != uniq_i:
                model_diffs.append({"case": code, "model": [show(x) for x in uniq_i],
                                    "code": [show(x) for x in g_uniq]})
            if g_set != set_s:
                fail("std.set is not the strictly ascending list of the distinct elements", code,
                     [show(x) for x in set_s], [show(x) for x in g_set])
            elif g_set != set_i:
                model_diffs.append({"case": code, "model": [show(x) for x in set_i],
                                    "code": [show(x) for x in g_set]})
            if any(x != -1 for x in g_mem):
                fail("an element of L is not a std.setMember of std.set(L)", code, "all true",
                     [show(x) for x in g_mem])
            imp, spec = [p[0] for p in mem], [p[1] for p in mem]
            if g_q != spec:
                fail("std.setMember disagrees with == membership in a set", code, [show(x) for x in spec],
                     [show(x) for x in g_q])
            elif g_q != imp:
                model_diffs.append({"case": code, "model": [show(x) for x in imp], "code": [show(x) for x in g_q]})
            if l:
                g_mm = canon_list(v[5])
                if [zcanon(g_mm[0]), zcanon(g_mm[1])] != [zcanon(mn), zcanon(mx)]:
                    fail("std.minArray/std.maxArray disagree with <", code, [show(mn), show(mx)],
                         [show(x) for x in g_mm])
        add(code, j)

    # ---- B5 std math functions
    math_cases(run, rng, plan, pm, add, fail, model_diffs)

    run.log(f"B: {len(reqs)} programs")
    outs = core.run_harness(binary, "eval", reqs)
    run.log("B: harness done")
    for n, ((code, fn), o) in enumerate(zip(judge, outs)):
        fn(o)
        if len(run.samples) < 8 and "ok" in o and n % 211 == 0:
            run.samples.append({"jsonnet": code[:300], "answer": json.dumps(o)[:300]})


# ------------------------------------------------------------------ std math functions
_LIBM = None


def libm():
    global _LIBM
    if _LIBM is None:
        _LIBM = ctypes.CDLL(ctypes.util.find_library("m") or "libm.so.6")
    return _LIBM


def libm_fn(name, nargs):
    f = getattr(libm(), name)
    f.restype = ctypes.c_double
    f.argtypes = [ctypes.c_double] * nargs
    return f


# std name -> (libm name, arity)
LIBM1 = {"sin": "sin", "cos": "cos", "tan": "tan", "asin": "asin", "acos": "acos", "atan": "atan",
         "exp": "exp", "log": "log", "log2": "log2", "log10": "log10"}
LIBM2 = {"pow": "pow", "atan2": "atan2", "hypot": "hypot"}
# results IEEE-754 / C mandate exactly (no rounding freedom)
COQ1 = ["abs", "sign", "floor", "ceil", "round", "sqrt", "mantissa", "exponent"]


def frexp_log2_formula(x):
    """what math.rs computes today"""
    lg = libm_fn("log2", 1)(abs(x))
    m = libm_fn("exp2", 1)(lg - math.floor(lg) - 1.0)
    e = math.floor(lg) + 1.0
    return math.copysign(1.0, x) * m, e


def math_cases(run, rng, plan, pm, add, fail, model_diffs):
    thorough = run.tier == "thorough"
    xs = plan["xs"]
    # -- functions with a Coq spec
    for a, m in zip(xs, pm["math1"]):
        if is_err(m):
            run.obligation("model.eval", False, str(m[1])[:300])
            continue
        x = unbits(a)
        for name, exp in zip(COQ1, m):
            code = f"std.{name}({lit(a)})"

            def j(o, code=code, exp=exp, name=name, x=x):
                run.note_case(code, True)
                run.count(f"B:math:{name}")
                got = enc_canon(o)
                if got == exp:
                    return
                known = None
                if name in ("mantissa", "exponent") and isinstance(got, int) and got >= 0 and x != 0:
                    fm, fe = frexp_log2_formula(x)
                    if unbits(got) == (fm if name == "mantissa" else fe):
                        known = K_FREXP
                if name in ("mantissa", "exponent") and got == ERR and x != 0:
                    fm, fe = frexp_log2_formula(x)
                    if not math.isfinite(fm):
                        known = K_FREXP
                fail(f"std.{name} is not the exactly rounded function", code, show(exp), show(got), known=known)
            add(code, j)
    # -- binary max / min
    for (a, b), m in zip(plan["pairs"], pm["minmax"]):
        if is_err(m):
            run.obligation("model.eval", False, str(m[1])[:300])
            continue
        code = f"[std.max({lit(a)}, {lit(b)}), std.min({lit(a)}, {lit(b)})]"

        def j(o, code=code, m=m):
            run.note_case(code, True)
            run.count("B:math:maxmin")
            if "ok" not in o:
                fail("std.max/std.min failed", code, "values", json.dumps(o)[:200])
                return
            got = [zcanon(x) for x in canon_list(o["ok"])]
            if got != [zcanon(x) for x in m]:
                fail("std.max/std.min disagree with <", code, [show(x) for x in m], [show(x) for x in got])
        add(code, j)
    # -- clamp (std.jsonnet: if x < lo then lo else if x > hi then hi else x)
    small = [bits(v) for v in (0.0, 1.0, 2.0, 5.0, -1.0, 0.5, 1e300, -0.0)]
    for _ in range(60 if thorough else 12):
        x, lo, hi = rng.choice(small), rng.choice(small), rng.choice(small)
        fx, flo, fhi = unbits(x), unbits(lo), unbits(hi)
        exp = lo if fx < flo else hi if fx > fhi else x
        code = f"std.clamp({lit(x)}, {lit(lo)}, {lit(hi)})"

        def j(o, code=code, exp=exp, flo=flo, fhi=fhi):
            run.note_case(code, True)
            run.count("B:math:clamp")
            got = enc_canon(o)
            if zcanon(got) != zcanon(exp):
                fail("std.clamp", code, show(exp), show(got))
        add(code, j)
    # -- libm functions: exploration (bit-for-bit expected on this platform, reported not judged),
    #    except that a non-finite value must never be observable and a finite libm result far from
    #    an error boundary must not be an error
    stats = run.coverage.setdefault("libm_agreement", {})

    def libm_judge(code, name, ref):
        def j(o):
            run.note_case(code, True)
            run.count(f"B:math:{name}")
            got = enc_canon(o)
            st = stats.setdefault(name, {"same_bits": 0, "differ": 0, "both_error": 0, "error_mismatch": 0})
            if nonfinite(got) or isinstance(got, str):
                fail(f"std.{name}: a non-finite number (or a panic) is observable", code,
                     "finite value or error", show(got))
            elif not math.isfinite(ref):
                if got == ERR:
                    st["both_error"] += 1
                else:
                    st["error_mismatch"] += 1
                    fail(f"std.{name}: the platform libm result is not finite but no error was raised",
                         code, "error", show(got))
            elif got == ERR:
                st["error_mismatch"] += 1
                fail(f"std.{name}: error although the platform libm result is finite", code,
                     repr(ref), "error")
            elif got == bits(ref):
                st["same_bits"] += 1
            else:
                st["differ"] += 1
                if len(stats.setdefault("_examples", [])) < 10:
                    stats["_examples"].append({"code": code, "libm": repr(ref), "code_result": show(got)})
                # a few ulps of freedom (libm functions are not correctly rounded); more is a
                # disagreement with the platform library
                # the implementation calls the platform library itself (f64::powf / exp / sin ... lower to the
                # libm symbols this oracle calls through ctypes), so agreement is bit for bit; any difference
                # means the result no longer comes from the platform library
                fail(f"std.{name} disagrees with the platform math library "
                     f"({ulp_distance(got, bits(ref))} ulp)", code, repr(ref), show(got))
        return j

    sample = xs if thorough else xs[::2]
    for name, cname in LIBM1.items():
        f = libm_fn(cname, 1)
        for a in sample:
            code = f"std.{name}({lit(a)})"
            add(code, libm_judge(code, name, f(unbits(a))))
    for name, cname in LIBM2.items():
        f = libm_fn(cname, 2)
        for _ in range(200 if thorough else 24):
            a, b = rng.choice(xs), rng.choice(xs)
            code = f"std.{name}({lit(a)}, {lit(b)})"
            add(code, libm_judge(code, name, f(unbits(a), unbits(b))))
    # std.pow where a repeated-multiplication shortcut would differ from libm pow(): integral exponents with
    # non-dyadic bases, powers beyond 2^53, negative exponents, subnormal and near-overflow results
    fpow = libm_fn("pow", 2)
    pow_cases = [(0.3, 3), (0.1, 5), (1.1, 10), (-0.1, -3), (10, 33), (10, -23), (123456789, 4), (2, -1074),
                 (2, -1030), (10, -310), (0.5, 1074), (3, 40), (7, -20), (1.0000001, 1000), (0.9999999, -1000),
                 (2, 1023), (10, 308), (-3, 35), (-2.5, 7), (1.5, 2), (2, 10), (10, 3), (2, 0.5), (9, -0.5)]
    for b_, e_ in pow_cases:
        code = f"std.pow({b_!r}, {e_!r})"
        add(code, libm_judge(code, "pow", fpow(float(b_), float(e_))))


# ------------------------------------------------------------------ the check
def known_witnesses(run, binary, failures):
    """the recorded witnesses of the known findings must still reproduce on the code (a finding
    that silently disappeared means the model is stale) — and they are what KNOWN-FINDING shows"""
    W = [("[(-2) << 63]", [0], K_SHL),
         ("[std.mantissa(9007199254740991)]", [bits(0.5)], K_FREXP)]
    outs = core.run_harness(binary, "eval", [{"code": c} for c, _, _ in W])
    status = {}
    for (c, exp, kid), o in zip(W, outs):
        ok = "ok" in o and canon_list(o["ok"]) == exp
        status.setdefault(kid, []).append((c, ok, json.dumps(o)[:120]))
    run.coverage["known_witnesses"] = {k: [{"code": c, "reproduces": ok, "answer": a} for c, ok, a in v]
                                       for k, v in status.items()}
    return status


def fixed_regressions(run, binary, failures):
    """the reproducing inputs of the findings fixed in ce0d2fe / 8b733a9 / 72c2ef4, judged against the spec"""
    R = [("[1e-20 == 2e-20, 1e-20 != 2e-20, 1e-20 < 2e-20, 0 == 5e-324]", [-2, -1, -1, -2]),
         ("[std.setMember(2e-20, std.set([1e-20, 2e-20])), std.length(std.uniq([1e-20, 2e-20]))]", [-1, bits(2.0)]),
         ("1 >> 9007199254740992", ERR), ("1 >> 1e300", ERR), ("~1e300", ERR), ("~9007199254740992", ERR),
         ("[std.clamp(1, 5, 2)]", [bits(5.0)])]
    outs = core.run_harness(binary, "eval", [{"code": c} for c, _ in R])
    for (c, exp), o in zip(R, outs):
        run.note_case(c, True)
        run.count("B:fixed-regression")
        got = canon_list(o["ok"]) if isinstance(o.get("ok"), list) else enc_canon(o)
        if got != exp:
            failures.append({"case": {"kind": "jsonnet", "jsonnet": c},
                             "summary": f"C09 regression of a fixed finding: {c} gives {got}, specification {exp}",
                             "what": "regression of a fixed finding", "expected": str(exp), "got": str(got)})


def check(run, terrs):
    proofs_ok, detail = core.check_property_file(run, "C09")
    binary, err = core.build_harness(run)
    if not binary:
        run.obligation("harness.build", False, err)
        return core.conclude(run, False, err, [], [])
    failures, model_diffs = [], []
    D = boundary_set(run.rng.fork("D"), run.tier == "thorough")
    run.log(f"|D| = {len(D)}")
    run.coverage["boundary_set_size"] = len(D)
    plan = plan_b(run, D)
    # one Coq batch for everything the model has to say
    exprs = [f"run_row {a} D" for a in D]
    exprs += [f"run_triple {k1} {k2} {a} {b} {c}" for k1, k2, a, b, c in plan["tri"]]
    exprs += [f"run_list {zl(l)} {zl(qs)}" for l, qs in plan["lists"]]
    exprs += [f"run_math1 {a}" for a in plan["xs"]]
    exprs += [f"run_minmax {a} {b}" for a, b in plan["pairs"]]
    res = coq_eval_par(exprs, preamble=f"Definition D : list Z := {zl(D)}.\n")
    run.log(f"model evaluated: {len(D)}^2 pairs x 19 operators + {len(exprs) - len(D)} other cases")
    pos = [0]

    def take(n):
        r = res[pos[0]:pos[0] + n]
        pos[0] += n
        return r
    rows = take(len(D))
    pm = {"tri": take(len(plan["tri"])), "lists": take(len(plan["lists"])), "math1": take(len(plan["xs"])),
          "minmax": take(len(plan["pairs"]))}
    table = part_a(run, binary, D, rows, failures, model_diffs)
    if table:
        part_b(run, binary, D, table, plan, pm, failures, model_diffs)
    # every finding still listed as known must still reproduce with its recorded witness
    import os
    meta = json.load(open(os.path.join(core.VERIF, "props", "c09.meta.json")))
    still_known = {k["id"] for k in meta.get("known_findings", [])}
    for kid, ws in known_witnesses(run, binary, failures).items():
        if kid in still_known:
            bad = [f"{c} -> {a}" for c, ok, a in ws if not ok]
            run.obligation(f"known-finding {kid} still reproduces", not bad, "; ".join(bad))
    fixed_regressions(run, binary, failures)
    run.trusted = TRUSTED
    run.assumptions = ASSUMPTIONS
    if len(run.samples) < 3:
        run.samples.append({"pairs": len(D) ** 2, "operators": OPS})
    return core.conclude(run, proofs_ok, detail, failures, model_diffs[:50], search=None,
                         level="proof", rule=RULE)


def replay(run, data):
    binary, err = core.build_harness(run)
    if not binary:
        print(err)
        return 1
    f = data.get("failure", {})
    case = f.get("case", {})
    code = case.get("jsonnet")
    if not code:
        print(json.dumps(data, indent=1)[:3000])
        return 1
    outs = core.run_harness(binary, "eval", [{"code": code}])
    print("jsonnet :", code)
    print("expected:", f.get("expected"))
    print("was     :", f.get("got"))
    print("now     :", json.dumps(outs[0]), "=", show(enc_canon(outs[0])) if not isinstance(outs[0].get("ok"), list)
          else [show(x) for x in canon_list(outs[0]["ok"])])
    return 0


RULE = ("all ordered pairs of a boundary-dense set D of finite doubles (zeros, subnormals, 1-ulp neighbours of "
        "1, 2^-52, 2^53, 2^63, max; sqrt(max); left-shift guard boundaries 2^(63-e) and neighbours of both signs; "
        "small integers, fractions, tiny/huge magnitudes; + seeded random doubles) under the 3 unary and 16 "
        "binary numeric operators (numop), plus whole-pipeline programs: literal rows, erroring operators, "
        "composed triples, sort/uniq/set/setMember/minArray/maxArray on lists from D with near-equal clusters, "
        "std math functions; distinct = distinct operator application or program; all counted cases non-trivial "
        "except lists shorter than 2")
TRUSTED = ["Coq 8.16.1 kernel incl. vm_compute; Flocq 4.1.0 (IEEE754.Binary, Bits)",
           "stdlib classical-reals axioms through Flocq (sig_forall_dec, sig_not_dec, "
           "functional_extensionality_dep, classic) in the theorems that mention real numbers",
           "translator/gens/numops.py: shape and constants of the shift / equality / division-guard code",
           "correspondence: jrharness numop + eval, vlib generators, Coq term printer/parser",
           "hardware + - * / and Rust's fmod, `as i64`, `as f64` being IEEE/Rust-reference conformant is "
           "sampled by the sweep, not proved",
           "modelled not verified: the standard library's stable merge sort (sort_by_key) abstracted as a stable "
           "insertion sort under the same order; libm functions have no Coq model (explored against the platform "
           "libm through ctypes)"]
ASSUMPTIONS = ["impl-model transliterates val.rs / evaluate/operator.rs / sort.rs / sets.rs / math.rs numeric paths; "
               "tie = translator (GenNum.v) + differential run on every check",
               "operands are finite doubles (NumValue invariant; theorem hypothesis)"]
