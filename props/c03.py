"""C03 — evaluation is call-by-need: nothing unneeded runs, nothing shared runs twice.

Theorems: coq/theories/C03 (the four-state memo cell used by thunks, array element caches and
the object field cache: at most one closure start per cell over every force history).
SPEC for whole programs: Sem's trace log (coq/theories/Sem): which labelled sub-expressions
run, and how often, under call-by-need.
Correspondence: every sub-expression of a generated program is wrapped in a distinct
std.trace label, bombs (errors / self-dependent values) sit in unneeded positions; the real
code's label multiset (collecting TracePrinter) must equal Sem's.
"""
import collections
import json

from vlib import core
from vlib import progen as g
from props.c01 import classify

FUEL = 500


def uses_super_or_plus(e):
    if isinstance(e, tuple):
        if e and e[0] in ("superidx", "insuper"):
            return True
        if e and e[0] == "obj" and any(f[2] for f in e[3]):
            return True
        return any(uses_super_or_plus(x) for x in e[1:])
    if isinstance(e, list):
        return any(uses_super_or_plus(x) for x in e)
    return False


def field_labels(e, inside=False, acc=None):
    """labels lexically inside an object field body (may legitimately be evaluated once per
    access path: obj.f and super.f from different layers)"""
    acc = acc if acc is not None else set()
    if isinstance(e, tuple):
        if e and e[0] == "trace":
            if inside:
                acc.add(e[1])
            field_labels(e[2], inside, acc)
        elif e and e[0] == "obj":
            for _n, b in e[1]:
                field_labels(b, inside, acc)
            for c, m in e[2]:
                field_labels(c, inside, acc)
                if m is not None:
                    field_labels(m, inside, acc)
            for n, _v, _p, b in e[3]:
                field_labels(n, inside, acc)
                field_labels(b, True, acc)
        else:
            for x in e[1:]:
                field_labels(x, inside, acc)
    elif isinstance(e, list):
        for x in e:
            field_labels(x, inside, acc)
    return acc


KNOWN_SAME_VALUE_EQ = "C03-equals-same-value-shortcut"


def var_aliases(e, acc=None):
    """name -> name for bindings of the form `local n = m` (n is another name of m's value)"""
    acc = acc if acc is not None else {}
    if isinstance(e, tuple):
        if e and e[0] in ("local", "obj"):
            for n, b in e[1]:
                if isinstance(b, tuple) and b[:1] == ("var",):
                    acc[n] = b[1]
        for x in e[1:]:
            var_aliases(x, acc)
    elif isinstance(e, list):
        for x in e:
            var_aliases(x, acc)
    return acc


def self_compared_vars(e, alias=None, acc=None):
    """names x such that the program contains `x == x` or `x != x`: the same variable on both sides,
    or two variables one of which is bound directly to the other (`local b = a; a == b`)"""
    alias = alias if alias is not None else var_aliases(e)
    acc = acc if acc is not None else set()

    def root(n):
        seen = set()
        while n in alias and n not in seen:
            seen.add(n)
            n = alias[n]
        return n
    if isinstance(e, tuple):
        if (len(e) == 4 and e[0] == "bin" and e[1] in ("==", "!=") and isinstance(e[2], tuple)
                and isinstance(e[3], tuple) and e[2][:1] == ("var",) and e[3][:1] == ("var",)
                and root(e[2][1]) == root(e[3][1])):
            acc.add(root(e[2][1]))
        for x in e[1:]:
            self_compared_vars(x, alias, acc)
    elif isinstance(e, list):
        for x in e:
            self_compared_vars(x, alias, acc)
    return acc


def all_labels(e, acc):
    if isinstance(e, tuple):
        if e and e[0] == "trace":
            acc.add(e[1])
        for x in e[1:]:
            all_labels(x, acc)
    elif isinstance(e, list):
        for x in e:
            all_labels(x, acc)
    return acc


def binder_labels(e, names, acc=None):
    """labels lexically inside what a binder of one of [names] is bound to (instrumented program):
    local / object-local bindings, parameter defaults, the source of a comprehension `for`"""
    acc = acc if acc is not None else set()
    if isinstance(e, tuple):
        t = e[0] if e else None
        if t == "local" or t == "obj":
            for n, b in e[1]:
                if n in names:
                    all_labels(b, acc)
        elif t == "fun":
            for n, dft in e[1]:
                if n in names and dft is not None:
                    all_labels(dft, acc)
        elif t == "for" and len(e) == 3 and e[1] in names:
            all_labels(e[2], acc)
        for x in e[1:]:
            binder_labels(x, names, acc)
    elif isinstance(e, list):
        for x in e:
            binder_labels(x, names, acc)
    return acc


def known_same_value_eq(p, ip, bad):
    """the evaluator answers `v == v` for one and the same array / object value without looking at its
    elements (val.rs equals: ptr_eq short cut; the definition compares element by element).  Narrow
    class: the program compares a variable with itself, every deviating label lies inside what that
    variable is bound to, and the code evaluated it LESS often than the definition, never more."""
    names = self_compared_vars(p)
    if not names:
        return False
    inside = binder_labels(ip, names)
    return all(lab in inside and c < s for lab, s, c in bad)


def sharing_family():
    """fixed programs whose whole point is sharing: every label must fire exactly once"""
    V = lambda n: ("var", n)  # noqa
    N = lambda z: ("num", z)  # noqa
    S = lambda s: ("str", s)  # noqa
    progs = []
    for k in (2, 3, 5):
        progs.append(("local", [("x", ("bin", "+", N(1), N(2)))], ("arr", [V("x")] * k)))
        progs.append(("local", [("f", ("fun", [("a", None)], ("arr", [V("a")] * k)))],
                      ("app", V("f"), [("bin", "*", N(2), N(3))], [], False)))
        progs.append(("local", [("o", ("obj", [], [], [(S("f"), ":", False, ("bin", "+", N(1), N(1)))]))],
                      ("arr", [("index", V("o"), S("f"))] * k)))
        progs.append(("local", [("a", ("arr", [("bin", "+", N(1), N(1)), N(7)]))],
                      ("arr", [("index", V("a"), N(0))] * k)))
        progs.append(("obj", [("l", ("bin", "+", N(4), N(4)))], [],
                      [(S("a"), ":", False, V("l")), (S("b"), ":", False, V("l")),
                       (S("c"), ":", False, ("bin", "+", ("index", ("self",), S("a")), ("index", ("self",), S("b"))))]))
        progs.append(("local", [("a", ("comp", ("bin", "*", V("x"), N(2)), [("for", "x", ("arr", [N(1), N(2), N(3)]))]))],
                      ("arr", [("index", V("a"), N(1))] * k + [("len", V("a"))])))
        progs.append(("local", [("f", ("fun", [("a", None), ("b", ("bin", "+", V("a"), N(1)))],
                                       ("arr", [V("b")] * k)))],
                      ("app", V("f"), [N(1)], [], False)))
        progs.append(("bin", "+",
                      ("obj", [], [], [(S("a"), ":", False, ("bin", "+", N(1), N(1))),
                                       (S("b"), ":", False, ("index", ("self",), S("a")))]),
                      ("obj", [], [], [(S("c"), ":", False, ("arr", [("index", ("self",), S("a"))] * k))])))
    # native builtins hand elements to their callback unevaluated and keep result elements lazy
    # (regressions of 762ca42 9d0c0a4 9dc676b 66d5623): an element nothing reads must not run
    el = lambda z: ("bin", "+", N(z), N(1))  # noqa
    cat = ("fun", [("a", None), ("b", None)], ("bin", "+", V("a"), ("arr", [V("b")])))
    tac = ("fun", [("b", None), ("a", None)], ("bin", "+", V("a"), ("arr", [V("b")])))
    wrap1 = ("fun", [("c", None)], ("arr", [V("c")]))
    progs.append(("len", ("std", "foldl", [cat, ("arr", [el(1), el(2)]), ("arr", [])], 9001)))
    progs.append(("len", ("std", "foldr", [tac, ("arr", [el(1), el(2)]), ("arr", [])], 9002)))
    progs.append(("index", ("std", "foldl", [cat, ("arr", [el(1), el(2), el(3)]), ("arr", [])], 9003), N(1)))
    progs.append(("index", ("bin", "+", ("std", "flatMap", [wrap1, ("arr", [el(1), el(2)])], 9004), ("arr", [N(0)])), N(0)))
    progs.append(("len", ("std", "flatMap", [wrap1, ("arr", [el(1), el(2)])], 9005)))
    progs.append(("index", ("std", "map", [("fun", [("x", None)], N(7)), ("arr", [el(1)])], 9006), N(0)))
    progs.append(("index", ("std", "map", [wrap1, ("arr", [el(1), el(2)])], 9007), N(1)))
    progs.append(("len", ("std", "mapWithIndex", [("fun", [("i", None), ("x", None)], V("i")), ("arr", [el(1), el(2)])], 9008)))
    progs.append(("std", "mapWithIndex", [("fun", [("i", None), ("x", None)], V("i")), ("arr", [el(1), el(2)])], 9009))
    progs.append(("len", ("std", "filterMap", [("fun", [("x", None)], ("bool", True)), ("fun", [("x", None)], N(1)),
                                               ("arr", [el(1), el(2)])], 9010)))
    # a57b880: std.filter / std.filterMap hand the element thunks to the predicate, no eager pre-pass
    progs.append(("len", ("std", "filter", [("fun", [("x", None)], ("bool", True)), ("arr", [el(1), el(2)])], 9011)))
    progs.append(("index", ("std", "filter", [("fun", [("x", None)], ("bool", True)), ("arr", [el(1), el(2)])], 9012), N(1)))
    progs.append(("index", ("std", "filterMap", [("fun", [("x", None)], ("bool", True)), ("fun", [("x", None)], V("x")),
                                                 ("arr", [el(1), el(2)])], 9013), N(0)))
    # one object literal with an object-level local, bound for two different `this` (the object itself and an
    # extension of it / two extensions / a mixin under two bases) and read ALTERNATELY: the local runs once per
    # object, however the reads interleave (seeded change r6-C03: single-slot CachedUnbound)
    lbase = ("obj", [("l", ("bin", "+", N(4), N(4)))], [],
             [(S("f1"), ":", False, V("l")), (S("f2"), ":", False, ("bin", "+", V("l"), N(1))),
              (S("f3"), ":", False, ("bin", "*", V("l"), N(2)))])
    ext = lambda v, n: ("bin", "+", V(v), ("obj", [], [], [(S("g"), ":", False, N(n))]))  # noqa
    rd = lambda v, f: ("index", V(v), S(f))  # noqa
    for order in ([("b", "f1"), ("d", "f1"), ("b", "f2"), ("d", "f2")],
                  [("d", "f1"), ("b", "f1"), ("d", "f2"), ("b", "f3"), ("d", "f3")],
                  [("b", "f1"), ("b", "f2"), ("d", "f1"), ("b", "f3")]):
        progs.append(("local", [("b", lbase), ("d", ext("b", 1))], ("arr", [rd(v, f) for v, f in order])))
        progs.append(("local", [("t", lbase), ("b", ext("t", 1)), ("d", ext("t", 2))],
                      ("arr", [rd(v, f) for v, f in order])))
        progs.append(("local", [("m", lbase),
                                ("b", ("bin", "+", ("obj", [], [], [(S("z"), ":", False, N(0))]), V("m"))),
                                ("d", ("bin", "+", ("obj", [], [], [(S("z"), ":", False, N(1))]), V("m")))],
                      ("arr", [rd(v, f) for v, f in order])))
    # an object local read by assertions and by fields (and by both layers' assertions): one evaluation
    for nas in (1, 2):
        for nf in (1, 2):
            asserts = [(("bin", ">", V("l"), N(i)), None if i else S("msg")) for i in range(nas)]
            fields = [(S("f%d" % i), ":", False, ("bin", "+", V("l"), N(i))) for i in range(nf)]
            o = ("obj", [("l", ("bin", "+", N(4), N(4)))], asserts, fields)
            progs.append(o)
            progs.append(("index", o, S("f0")))
            progs.append(("bin", "+", o, ("obj", [("m", ("bin", "*", N(2), N(2)))],
                                          [(("bin", "<", V("m"), N(9)), None)], [(S("g"), ":", False, V("m"))])))
    # an element reached through several routes (lazy handle created first, element evaluated through
    # another route, handle forced last - and every other order)
    import itertools
    xs = ("arr", [("bin", "+", N(1), N(1)), ("bin", "*", N(2), N(3))])
    makers = [
        lambda v: ("comp", ("bin", "*", V("x"), N(2)), [("for", "x", V(v))]),
        lambda v: ("bin", "+", V(v), ("arr", [N(3)])),
        lambda v: ("bin", "+", ("arr", [N(0)]), V(v)),
        lambda v: ("slice", V(v), N(0), None, None),
        lambda v: ("comp", V("y"), [("for", "y", ("slice", V(v), None, None, N(1)))]),
    ]
    for mk in makers:
        uses = [("len", V("c")), ("index", V("xs"), N(0)), ("index", V("xs"), N(1)), V("c"), ("index", V("c"), N(1))]
        for perm in itertools.permutations(range(len(uses)), 3):
            progs.append(("local", [("xs", xs), ("c", mk("xs"))], ("arr", [uses[i] for i in perm])))
        progs.append(("local", [("xs", xs), ("c", mk("xs")), ("d", mk("xs"))],
                      ("arr", [("len", V("c")), ("len", V("d")), V("d"), ("index", V("xs"), N(0)), V("c")])))
    # unneeded positions
    bomb = ("error", S("bomb"))
    progs.append(("local", [("u", bomb)], N(1)))
    progs.append(("if", ("bool", True), N(1), bomb))
    progs.append(("index", ("arr", [bomb, N(2)]), N(1)))
    progs.append(("index", ("obj", [], [], [(S("a"), ":", False, N(1)), (S("b"), ":", False, bomb)]), S("a")))
    progs.append(("app", ("fun", [("p", None), ("q", None)], V("p")), [N(1), bomb], [], False))
    progs.append(("app", ("fun", [("p", bomb)], V("p")), [N(3)], [], False))
    progs.append(("len", ("arr", [bomb, bomb])))
    progs.append(("len", ("obj", [], [], [(S("a"), ":", False, bomb)])))
    progs.append(("bin", "||", ("bool", True), bomb))
    progs.append(("bin", "&&", ("bool", False), bomb))
    progs.append(("len", ("comp", bomb, [("for", "x", ("arr", [N(1), N(2)]))])))
    progs.append(("local", [("a", ("arr", [bomb, N(5)]))], ("index", ("slice", V("a"), N(1), None, None), N(0))))
    # witness of the known finding C03-equals-same-value-shortcut (reproduced on the real code on every run)
    progs.append(("local", [("a", ("arr", [("bin", "+", N(1), N(1))]))], ("bin", "==", V("a"), V("a"))))
    # tailstrict forces arguments but changes no existing result
    progs.append(("app", ("fun", [("p", None), ("q", None)], V("p")), [N(1), N(2)], [], True))
    return progs


def labels_in(e, acc=None):
    acc = acc if acc is not None else set()
    if isinstance(e, tuple):
        if e and e[0] == "trace":
            acc.add(e[1])
        for x in e[1:]:
            labels_in(x, acc)
    elif isinstance(e, list):
        for x in e:
            labels_in(x, acc)
    return acc


def known_same_value_equality(ip, bad):
    """the known finding C13-equals-same-object-shortcut seen from C03: `v == v` / `v != v` on ONE array or object
    value answers by pointer identity without evaluating the elements.  Narrow: every wrong label was NOT
    evaluated by the code (count 0) and lies inside a binding of a variable that the program compares with
    itself."""
    if not bad or any(c != 0 or s2 < 1 for (_l, s2, c) in bad):
        return None

    def unwrap(x):
        while isinstance(x, tuple) and x and x[0] == "trace":
            x = x[2]
        return x
    selfcmp, binds = set(), {}

    def walk(e):
        if isinstance(e, tuple):
            if e and e[0] == "bin" and e[1] in ("==", "!="):
                a, b = unwrap(e[2]), unwrap(e[3])
                if a[0] == "var" and a == b:
                    selfcmp.add(a[1])
            if e and e[0] == "local":
                for n, b in e[1]:
                    labels_in(b, binds.setdefault(n, set()))
            for x in e[1:]:
                walk(x)
        elif isinstance(e, list):
            for x in e:
                walk(x)
    walk(ip)
    covered = set()
    for n in selfcmp:
        covered |= binds.get(n, set())
    return "C03-equals-same-value-shortcut" if selfcmp and all(l in covered for (l, _s, _c) in bad) else None


def correspond(run, binary, progs, exact_flags):
    failures = []
    inst = []
    for p in progs:
        ip, nlab = g.instrument(p)
        inst.append((ip, nlab))
    sem = core.coq_eval(g.SEM_IMPORTS, [f"run {FUEL} {g.to_coq(ip)}" for ip, _ in inst], timeout=1500)
    run.log("Sem evaluated")
    outs = core.run_harness(binary, "eval", [{"code": g.to_js(ip), "trace": True} for ip, _ in inst])
    run.log("harness done")
    skipped = 0
    for (p, (ip, nlab), m, o, exact) in zip(progs, inst, sem, outs, exact_flags):
        if isinstance(m, tuple) and m and m[0] == "ERROR":
            run.obligation("Sem.eval", False, str(m[1])[:300])
            continue
        (kind, val), log = g.outcome_py(m)
        if kind == "err" and val in ("KFuel", "KUnsup"):
            skipped += 1
            run.count("skipped:" + val)
            continue
        src = g.to_js(ip)
        run.note_case(src, nlab >= 4)
        run.count("sem:" + (kind if kind == "val" else "err"))
        got = classify(o)
        case = {"request": {"code": src, "trace": True}, "plain": g.to_js(p), "coq": g.to_coq(ip)}
        if not ((kind == "val" and got == ("val", val)) or (kind == "err" and got[0] == "err")):
            failures.append({"case": case, "summary": f"C03 outcome differs (an unneeded expression ran, or a "
                             f"needed one did not): {g.to_js(p)[:150]}",
                             "expected": [kind, val], "got": got})
            continue
        if kind != "val":
            continue  # with an error, which labels fired first depends on evaluation order (not compared)
        code_labels = collections.Counter(int(x[1:]) for x in o.get("traces", []) if x.startswith("L"))
        sem_labels = collections.Counter(log)
        lenient = set() if exact or not uses_super_or_plus(p) else field_labels(ip)
        run.count("labels", nlab)
        run.count("labels_fired", len(sem_labels))
        bad = []
        for lab in set(code_labels) | set(sem_labels):
            c, s = code_labels.get(lab, 0), sem_labels.get(lab, 0)
            if lab in lenient:
                if (c == 0) != (s == 0) or c > 8 * max(s, 1):
                    bad.append((lab, s, c))
            elif c != s:
                bad.append((lab, s, c))
        if bad:
            lab, s, c = bad[0]
            what = ("an expression that call-by-need never evaluates was evaluated" if s == 0 else
                    "a needed expression was not evaluated" if c == 0 else
                    "a shared expression was evaluated a different number of times")
            f = {"case": case, "summary": f"C03 {what}: label L{lab} sem={s} code={c}: {g.to_js(p)[:150]}",
                 "expected": {"label": lab, "count": s}, "got": {"label": lab, "count": c},
                 "all_bad": bad[:10]}
            if known_same_value_eq(p, ip, bad):
                f["known"] = KNOWN_SAME_VALUE_EQ
                run.count("known:" + KNOWN_SAME_VALUE_EQ)
            failures.append(f)
        elif len(run.samples) < 5 and nlab > 12:
            run.samples.append({"jsonnet": src[:600], "labels_fired": sorted(sem_labels.items())[:20]})
    run.coverage["skipped_out_of_fuel_or_unsupported"] = run.coverage.get("skipped_out_of_fuel_or_unsupported", 0) + skipped
    return failures


# ---------------------------------------------------------------- the four memo sites (source tie)
MEMO_MODEL = {
    "enter": "match s with | GWaiting => (EProceed, GPending) | GPending => (EInfRec, GPending) "
             "| GComputed => (EValue, GComputed) | GErrored => (EStoredErr, GErrored) end.",
    "leave": "if ok then (ROk, GComputed) else (RErr, GErrored).",
    "lazy": "match s with | GWaiting => LDeferred | GPending => LDeferred | GComputed => LEvaluated "
            "| GErrored => LErrored end.",
}
MEMO_SITES = {"thunk": ("val.rs MemoizedClosureThunk::get (Thunk::evaluate)", False),
              "exprarr": ("arr/spec.rs ExprArray::get / get_lazy", True),
              "mapped": ("arr/spec.rs MappedArray::get / get_lazy", True),
              "obj": ("obj/mod.rs ObjValue::get_idx (field cache)", False)}


def memo_table_obligations(run):
    """one obligation per site: the step functions the translator wrote into Gen/GenMemo.v are, as text, the
    model cell's (the Coq theorems C03_site_is_model_cell_<site> prove it; this names WHICH step deviates)"""
    import os
    import re
    path = os.path.join(core.COQ, "theories", "Gen", "GenMemo.v")
    txt = open(path, encoding="utf-8").read() if os.path.exists(path) else ""
    deviating = []
    for site, (where, has_lazy) in MEMO_SITES.items():
        diffs = []
        for step in ("enter", "leave") + (("lazy",) if has_lazy else ()):
            m = re.search(rf"Definition gen_{site}_{step}\b[^\n]*:=\n\s*([^\n]*)\n", txt)
            got = m.group(1).strip() if m else "<missing>"
            if got != MEMO_MODEL[step]:
                diffs.append(f"{step}: source says `{got}`, the model cell is `{MEMO_MODEL[step]}`")
        m = re.search(rf"Definition gen_{site}_gate : bool := (\w+)\.", txt)
        gate = m.group(1) if m else "<missing>"
        if gate != ("true" if site == "obj" else "false"):
            diffs.append(f"gate: source says {gate}")
        run.obligation(f"C03.source.{site} ({where}) translates to the model cell", not diffs, "; ".join(diffs))
        if diffs:
            deviating.append(site)
    return deviating


def memo_probe_programs():
    """Programs that reach ONE memo cell of each site through several routes: twice, re-entrantly, and again
    after an error.  The top-level value is an array; the harness (`arrprobe`) reads every position on its own,
    so an error in one position does not end the run.  Call-by-need demands: every position gives the same
    outcome, every std.trace label fires exactly once.
    -> [(site, what, code, expected class, labels that must fire exactly once)]"""
    out = []
    kinds = [("value", lambda l, selfref: f'std.trace("{l}", 1 + 1)', "val"),
             ("error", lambda l, selfref: f'std.trace("{l}", error "boom")', "runtime-error"),
             ("reentrant", lambda l, selfref: f'std.trace("{l}", {selfref})', "infinite-recursion"),
             ("reentrant-in-operand", lambda l, selfref: f'std.trace("{l}", 1 + {selfref})', "infinite-recursion")]
    for kname, body, cls in kinds:
        # --- thunks (local bindings, arguments, defaults)
        b = body("T", "x")
        out.append(("thunk", kname, f"local x = {b}; [x, x, x]", cls, ["T"]))
        out.append(("thunk", kname, f"local x = {b}; [x, [x][0], {{ a: x }}.a, x]", cls, ["T"]))
        out.append(("thunk", kname, f"local x = {b}, y = x; [y, x, y]", cls, ["T"]))
        if not kname.startswith("reentrant"):
            out.append(("thunk", kname, f"local f(p) = [p, p, p]; f({b})", cls, ["T"]))
            out.append(("thunk", kname, f"local f(p=({b})) = [p, p]; f()", cls, ["T"]))
        # --- ExprArray elements
        for selfref in ("a[0]", "[x for x in a][0]"):
            b = body("A", selfref)
            if not kname.startswith("reentrant") and selfref != "a[0]":
                continue
            out.append(("exprarr", kname, f"local a = [{b}]; a + a + a", cls, ["A"]))
            out.append(("exprarr", kname, f"local a = [{b}]; [a[0], a[0], a[0]]", cls, ["A"]))
            out.append(("exprarr", kname + "/lazy handle made before", f"local a = [{b}]; local c = [x for x in a]; [c[0], a[0], c[0]]", cls, ["A"]))
            out.append(("exprarr", kname + "/lazy handle made after", f"local a = [{b}]; local c = [x for x in a]; [a[0], c[0], c[0], a[0]]", cls, ["A"]))
            out.append(("exprarr", kname + "/views", f"local a = [{b}]; std.reverse(a) + a[0:1] + a", cls, ["A"]))
        # --- MappedArray elements
        for mk in ("std.map(function(v) %s, [1])", "std.mapWithIndex(function(i, v) %s, [1])"):
            for selfref in ("m[0]", "[x for x in m][0]"):
                if not kname.startswith("reentrant") and selfref != "m[0]":
                    continue
                m = mk % body("M", selfref)
                out.append(("mapped", kname, f"local m = {m}; m + m + m", cls, ["M"]))
                out.append(("mapped", kname, f"local m = {m}; [m[0], m[0], m[0]]", cls, ["M"]))
                out.append(("mapped", kname + "/lazy handle made before", f"local m = {m}; local c = [x for x in m]; [c[0], m[0], c[0]]", cls, ["M"]))
                out.append(("mapped", kname + "/lazy handle made after", f"local m = {m}; local c = [x for x in m]; [m[0], c[0], c[0], m[0]]", cls, ["M"]))
        if not kname.startswith("reentrant"):
            inner = body("I", "")
            out.append(("mapped", kname + "/inner element", f"local m = std.map(function(v) v, [{inner}]); m + m + m", cls, ["I"]))
        # --- object fields
        for selfref in ("self.f", "o.f"):
            if not kname.startswith("reentrant") and selfref != "self.f":
                continue
            b = body("O", selfref)
            out.append(("obj", kname, f"local o = {{ f: {b} }}; [o.f, o.f, o.f]", cls, ["O"]))
            out.append(("obj", kname + "/through self", f"local o = {{ f: {b}, g: self.f, h: self.f }}; [o.g, o.h, o.f, o.g]", cls, ["O"]))
            out.append(("obj", kname + "/through super", f"local o = {{ f: {b} }} + {{ f: super.f }}; [o.f, o.f, o.f]", cls, ["O"]))
            out.append(("obj", kname + "/hidden", f"local o = {{ f:: {b} }}; [o.f, o['f'], o.f]", cls, ["O"]))
            out.append(("obj", kname + "/passing assertion in front", f'local o = {{ assert std.trace("AS", true), f: {b} }}; [o.f, o.f, o.f]', cls, ["O", "AS"]))
    out.append(("obj", "value/assertion reads the field", 'local o = { assert std.trace("AS", self.f == 2), f: std.trace("O", 1 + 1) }; [o.f, o.f]', "val", ["O", "AS"]))
    out.append(("obj", "missing field asked twice", 'local o = { f: 1 }; [o.g, o.g]', "runtime-error", []))
    out.append(("obj", "field reading itself through an assertion", 'local o = { assert self.f == 1, f: std.trace("O", self.f) }; [o.f, o.f]', "infinite-recursion", None))
    return out


def probe_class(x):
    if x is None:
        return "out-of-range"
    if "v" in x:
        return "val"
    if "err" in x:
        return {"InfiniteRecursionDetected": "infinite-recursion", "StackOverflow": "stack-overflow"}.get(x["err"], "runtime-error")
    return "crash"


def memo_probe(run, binary):
    progs = memo_probe_programs()
    reqs = [{"code": code, "trace": True, "arrprobe": 0} for (_s, _w, code, _c, _l) in progs]
    # observed, not judged: the gate of the object site (a failing assertion) is not one of the four cells
    gate_req = {"code": 'local o = { assert std.trace("AS", false), f: std.trace("O", 1) }; [o.f, o.f, o.f]',
                "trace": True, "arrprobe": 0}
    outs = core.run_harness(binary, "eval", reqs + [gate_req])
    g = outs.pop()
    if "ok" in g and "get" in g["ok"]:
        n_as = collections.Counter(g.get("traces", [])).get("AS", 0)
        run.notes.append(f"object gate (not judged): a failing object assertion followed by 3 field reads through the Rust API "
                         f"answered {[probe_class(x) for x in g['ok']['get']]} and ran the assertion {n_as} time(s), the field "
                         f"body {collections.Counter(g.get('traces', [])).get('O', 0)} time(s)")
    failures = []
    for (site, what, code, cls, labels), req, o in zip(progs, reqs, outs):
        run.note_case("memo-probe:" + code, True)
        run.count("memo_probe:" + site)
        where = MEMO_SITES[site][0]
        case = {"request": req, "site": site, "what": what}
        if "ok" not in o or "get" not in o.get("ok", {}):
            failures.append({"case": case, "summary": f"C03 memo cell ({where}; {what}): the program did not evaluate to an array: {code}",
                             "expected": cls, "got": json.dumps(o)[:300]})
            continue
        gets = o["ok"]["get"]
        got = [probe_class(x) for x in gets]
        counts = collections.Counter(o.get("traces", []))
        bad = None
        if any(g != cls for g in got):
            i = [g != cls for g in got].index(True)
            bad = (f"position {i} (route {i + 1} to the same cell) answered {got[i]}"
                   + (f" ({gets[i].get('err') or gets[i].get('panic')})" if isinstance(gets[i], dict) and "v" not in gets[i] else "")
                   + f", call-by-need demands {cls} at every position")
        elif cls == "val" and any(json.dumps(g, sort_keys=True) != json.dumps(gets[0], sort_keys=True) for g in gets):
            bad = "the routes to one cell gave different values"
        elif labels is not None:
            for lab in labels:
                if counts.get(lab, 0) != 1:
                    bad = f"the shared expression labelled {lab} ran {counts.get(lab, 0)} times, call-by-need demands once"
                    break
            extra = [k for k in counts if k not in labels]
            if not bad and extra:
                bad = f"unexpected label {extra[0]}"
        if bad:
            failures.append({"case": case, "summary": f"C03 memo cell ({where}; {what}): {bad}: {code}",
                             "expected": {"class": cls, "labels_once": labels}, "got": {"classes": got, "labels": dict(counts)}})
        elif len([x for x in run.samples if "memo_site" in x]) < 4 and what.startswith(("error", "reentrant")) \
                and not any(x.get("memo_site") == site for x in run.samples):
            run.samples.append({"memo_site": site, "jsonnet": code, "positions": got, "labels": dict(counts)})
    return failures


def programs(run, n):
    pg = g.ProgGen(run.rng.fork("progs"), p_err=0.02, p_bomb=0.2)
    fam = sharing_family()
    progs = fam + [pg.program() for _ in range(n)]
    # programs dense in calls of native std builtins with Jsonnet callbacks: how often each argument,
    # each element and each callback body runs must equal the count under the reference definition
    # applied to strict arguments (vlib/stdref.py), which Sem evaluates
    pgs = g.ProgGen(run.rng.fork("stdprogs"), p_err=0.02, p_bomb=0.2, stdlib=0.4)
    want, tries = max(n // 6, 40), 0
    while want > 0 and tries < 20 * n:
        tries += 1
        q = pgs.program()
        if "std." in g.to_js(q):
            progs.append(q)
            want -= 1
    flags = [True] * len(fam) + [False] * (len(progs) - len(fam))
    for k, v in list(pg.stats.items()) + [(k, v) for k, v in pgs.stats.items() if k.startswith("std:")]:
        run.count("gen:" + k, v)
    return progs, flags


def check(run, terrs):
    proofs_ok, detail = core.check_property_file(run, "C03")
    binary, err = core.build_harness(run)
    if not binary:
        run.obligation("harness.build", False, err)
        return core.conclude(run, False, err, [], [])
    stale = [m for n, m in terrs if n == "GenMemo"]
    if stale:
        # the translator did not understand the source (the obligation translator.GenMemo already failed);
        # Gen/GenMemo.v is then left over from an earlier run and says nothing about this tree
        run.log("source tie: translator/gens/memo.py rejected the source: " + stale[0][:300])
        deviating = []
    else:
        deviating = memo_table_obligations(run)
    if deviating:
        run.log("source tie: the translated memo protocol deviates from the model cell at: " + ", ".join(deviating))
    # the four memo sites, each cell reached twice / re-entrantly / again after an error (first: a failure here
    # is the concrete input for a broken C03_site_is_model_cell_<site>)
    failures = memo_probe(run, binary)
    run.log(f"memo probe done ({len(failures)} failing)")
    progs, flags = programs(run, 8000 if run.tier == "thorough" else 900)
    failures += correspond(run, binary, progs, flags)
    run.trusted = ["Coq 8.16.1 kernel incl. vm_compute", "Sem's trace log as the call-by-need SPEC (my formalisation)",
                   "jrharness eval with a collecting TracePrinter; generators; Coq term parser",
                   "translator/gens/memo.py (reads the four memo sites' statements; fails closed on anything else) "
                   "and the generic interpreter ModelSource.site_force of the translated step functions"]
    run.assumptions = ["that evaluate() creates exactly the cells Sem creates is tied only by this trace "
                       "correspondence; evaluation ORDER is not compared; labels inside field bodies of objects "
                       "that use super/+: are compared as a set (one evaluation per access path is allowed)",
                       "source tie: the closure a site runs is abstract (any script of further calls on the same store); "
                       "the object site's run_assertions() gate is modelled as an arbitrary pass/fail outcome per call "
                       "(a FAILED assertion is not memoised by the code: it runs again at the next field access)"]

    def search():
        p2, f2 = programs(run, 4000)
        return correspond(run, binary, p2, f2)

    return core.conclude(run, proofs_ok, detail, failures, [], search=search if run.tier == "quick" else None,
                         level="proof", rule=RULE)


def replay(run, data):
    binary, err = core.build_harness(run)
    f = data.get("failure", {})
    req = f.get("case", {}).get("request")
    if not req:
        print(json.dumps(data, indent=1)[:3000])
        return 1
    out = core.run_harness(binary, "eval", [req])
    print("request :", json.dumps(req)[:2000])
    print("expected:", f.get("expected"))
    print("was     :", f.get("got"))
    print("now     :", json.dumps(out[0])[:2000])
    return 0


RULE = ("memo-site probe (each of thunk / ExprArray / MappedArray / object-field cell reached by 2-4 routes: twice, "
        "re-entrantly, after an error, through get_lazy handles made before and after; every route must give the same "
        "outcome class and every label fire once) + the n-fold sharing / unneeded-position family (fixed) + type-directed random programs with 20% bombs in "
        "unneeded positions; every sub-expression wrapped in a distinct std.trace label; compared: outcome, and for "
        "value outcomes the multiset of fired labels against Sem's log; distinct = distinct instrumented source; "
        "non-trivial = at least 4 labels")
