"""C16 — results are deterministic and independent of history.

Theorems (coq/theories/C16): every place that turns a hash-map enumeration (address- or
random-state-dependent) into observable output — field listing, 'did you mean' suggestions,
the choice among several failing top-level arguments — is a function of the key SET only,
for an ARBITRARY enumeration (permutation); any sorting algorithm yields the one sorted
arrangement.  What cannot be modelled (allocator, ASLR) is explored: programs are run in
fresh processes with address-space randomisation on, and inside one worker thread after
random evaluation histories and with random pre-interned string pools; outputs and error
texts must be byte-identical.

Second half (coq/theories/C16/*Tls.v): thread-local interpreter state (stack depth counter and limit,
RUNNING_ASSERTIONS, the STATE slot, FileData.evaluating) is bracketed.  translator/gens/tlstate.py reads the
protocols statement by statement from obj/mod.rs and lib.rs into Gen/GenTls.v (stack.rs: Gen/GenStack.v is
reused); C16_source_protocols_are_brackets proves every exit undoes its entry on the success AND the error
path, C16_tls_restored / C16_history_independent follow for ALL history trees.  A translate error or a failed
obligation there is a C16 obligation; the history families below (failing assertions, stack-limit hits, failing
imports, each followed by probes on the same thread) are then run densely as the targeted search.
"""
import json
import os
import subprocess

from vlib import core
from vlib import progen as g

C16_IMPORTS = "From Coq Require Import List NArith.\nFrom JrV Require Import C16.Model.\nImport ListNotations.\n"
NPROC_RUNS = 6
TLS_IMPORTS = ("From Coq Require Import List Arith Bool.\nFrom JrV Require Import Gen.GenStack Gen.GenTls C16.ModelTls "
               "C16.PropertiesTls.\nImport ListNotations.\n")


def family(run):
    r = run.rng.fork("family")
    progs = []
    words = ["a", "b", "ab", "ba", "abc", "abd", "zz", "z", "é", "aé", "A", "B", "_x", "x1", "x2", "x10", "long_name_1",
             "long_name_2", "k", "kk", "kkk", "m1", "m2", "m3", "m4", "m5", "n", "o", "p", "q"]
    for n in (2, 5, 9, 17, 30):
        ks = words[:n]
        r.shuffle(ks)
        obj = "{" + ", ".join(f"{json.dumps(k)}: {i}" for i, k in enumerate(ks)) + "}"
        hid = "{" + ", ".join(f"{json.dumps(k)}{'::' if i % 3 == 0 else ':'} {i}" for i, k in enumerate(ks)) + "}"
        progs += [obj, f"std.objectFields({obj})", f"std.objectFieldsAll({hid})", f"std.objectValues({obj})",
                  f"std.objectKeysValues({hid})", f"{obj} == {obj}", f"std.toString({obj})",
                  f"std.manifestJsonMinified({hid})", f"[k for k in std.objectFields({obj} + {hid})]",
                  f"std.mergePatch({obj}, {hid})", f"std.prune({obj})", f"std.mapWithKey(function(k, v) k, {obj})",
                  f"std.length({hid})", f"std.set(std.objectFields({obj}))"]
    # suggestions: candidates with equal similarity scores
    for k in (2, 3, 4, 6, 9):
        names = [f"ab{i}" for i in range(1, k + 1)]
        progs.append("local " + ", ".join(f"{n} = {i}" for i, n in enumerate(names)) + "; abX")
        progs.append("{" + ", ".join(f"{n}: {i}" for i, n in enumerate(names)) + "}.abX")
        progs.append("{" + ", ".join(f"{n}:: {i}" for i, n in enumerate(names)) + "}.abX")
        progs.append("local f(" + ", ".join(names) + ") = 0; f(" + ", ".join(f"{n}=1" for n in names) + ", abX=2)")
        progs.append("local " + ", ".join(f"{n} = {i}" for i, n in enumerate(names)) + "; local inner = 1; "
                     + "function(p) abY")
        progs.append("local o = {" + ", ".join(f"{n}: {i}" for i, n in enumerate(names)) + "}; {x: super.abX} + o")
    # objects with several failing / differing fields, through every operation that walks fields: the error
    # reported (or false vs. error) must not depend on enumeration order
    fnames = ["alpha", "beta", "gamma", "delta", "eps", "zeta", "eta", "theta"]
    for n in (2, 3, 5, 8):
        ks = fnames[:n]
        allerr = "{" + ", ".join(f"{k}: error '{k} failed'" for k in ks) + "}"
        someerr = "{" + ", ".join(f"{k}: {i}" if i % 2 == 0 else f"{k}: error '{k} failed'" for i, k in enumerate(ks)) + "}"
        plain = "{" + ", ".join(f"{k}: {i}" for i, k in enumerate(ks)) + "}"
        other = "{" + ", ".join(f"{k}: {i + 10}" for i, k in enumerate(ks)) + "}"
        for a, b in ((allerr, plain), (plain, allerr), (someerr, other), (other, someerr), (someerr, plain), (allerr, allerr)):
            progs += [f"{a} == {b}", f"{a} != {b}", f"std.equals({a}, {b})", f"std.assertEqual({a}, {b})",
                      f"std.member([{b}, {a}], {b})", f"std.count([{a}, {b}], {a})", f"std.find({a}, [{b}, {a}])",
                      f"[{a}] == [{b}]", f"std.primitiveEquals({a}, {b})"]
        progs += [f"std.prune({allerr})", f"std.mapWithKey(function(k, v) v, {allerr})", f"std.objectValues({allerr})",
                  f"std.mergePatch({plain}, {allerr})", f"std.mergePatch({allerr}, {other})", f"std.toString({someerr})",
                  f"std.manifestJsonEx({allerr}, '  ')", f"{plain} + {allerr}", f"std.sort([{plain}, {other}])",
                  f"std.set([{plain}, {other}], function(o) o.alpha)", f"std.objectKeysValues({someerr})",
                  f"{{[k]: {allerr}[k] for k in std.objectFields({plain})}}", f"std.length({allerr})"]
    # several possible errors
    progs += ['{a: error "1", b: error "2", c: error "3"}', '[error "x", error "y"]',
              '{a: 1, assert false : "first", assert false : "second"}', 'std.map(function(x) error x, ["p", "q"])',
              'local a = error "A", b = error "B"; [b, a]', '{[k]: error k for k in ["z", "y", "x"]}',
              '{a: 1} + {a: 2, b: self.c}', 'std.sort([{}, 1])', 'std.assertEqual({b: 1, a: 2}, {a: 2, b: 2})',
              '{a: 1, b: 2, c: 3} + {a+: "x"}', 'std.extVar("missing")', 'std.native("missing")',
              'function(aa, bb) aa', 'function(aa=1) zz']
    return progs


def tla_cases():
    out = []
    for k in (2, 3, 5):
        args = []
        for i in range(k):
            args += ["--tla-str", f"un{i}=v{i}"]
        out.append(("function(a=1) a", args))
        out.append(("function(a) a", args))
        args2 = []
        for i in range(k):
            args2 += ["--tla-code", f"c{i}=error 'e{i}'"]
        out.append(("function(" + ", ".join(f"c{i}" for i in range(k)) + ") [" + ", ".join(f"c{i}" for i in range(k)) + "]", args2))
        args3 = []
        for i in range(k):
            args3 += ["--tla-code-file", f"f{i}=/nonexistent/dir/file{i}.jsonnet"]
        out.append(("function(" + ", ".join(f"f{i}" for i in range(k)) + ") 1", args3))
    return out


def run_cli(exe, code, extra):
    """one fresh process; a run that does not answer within the limit is retried alone with a longer limit (a loaded
    machine stalls processes for tens of seconds); None = no answer at all (skipped and counted, never judged)"""
    for limit in (60, 180, 400):
        try:
            p = subprocess.run([exe, "-e", code] + extra, stdout=subprocess.PIPE, stderr=subprocess.PIPE, timeout=limit,
                               cwd=core.CACHE)
            return (p.returncode, p.stdout.decode("utf-8", "replace"), p.stderr.decode("utf-8", "replace"))
        except subprocess.TimeoutExpired:
            continue
    return None

TLS_GENS = ("GenTls", "GenStack")
TLS_FILES = {"ok.jsonnet": "{a: 1, assert self.a == 1}", "bad_assert.jsonnet": "{a: 1, assert self.a == 2 : 'nope'}",
             "boom.jsonnet": "error 'boom'", "syntax.jsonnet": "{a: ", "cyc1.jsonnet": "import 'cyc2.jsonnet'",
             "cyc2.jsonnet": "import 'cyc1.jsonnet'", "self.jsonnet": "(import 'self.jsonnet') + 1",
             "deep.jsonnet": "local f(n) = 1 + f(n + 1); f(0)",
             "mix.jsonnet": "local o = {x: (import 'bad_assert.jsonnet').a, assert std.length(self.x) > 0}; o.x"}


def tls_history_family(run, dense):
    """(prefixes, probes): programs that END inside a bracket protocol with an error (so that a restore missing on
    the error path leaks), and probes whose outcome depends on the thread-local state they start from"""
    deep = "local f(n) = 1 + f(n + 1); f(0)"
    prefixes = [
        # failing assertions: directly, nested in frames, in a super chain, inside an import, re-entrant
        "{assert false : 'a1', x: 1}.x", "local o = {assert self.y > 1, y: 1}; o.y",
        "local f(n) = if n == 0 then {assert false, v: 1}.v else f(n - 1); f(40)",
        "({assert true, a: 1} + {assert self.a == 2, b: 2}).b", "local o = {assert o.x == 1, x: 2}; o.x",
        "std.manifestJson({a: {assert false : 'inner'}})", "(import 'bad_assert.jsonnet').a", "import 'mix.jsonnet'",
        "local o = {assert (import 'boom.jsonnet'), z: 1}; o.z",
        # stack-limit hits: plain, through object methods, inside an assertion, inside an import
        deep, "local o = {f(n): 1 + self.f(n + 1)}; o.f(0)", "local o = {assert (" + deep + ") > 0, q: 1}; o.q",
        "import 'deep.jsonnet'", "local a = std.makeArray(3, function(i) " + deep + "); a[1]",
        # failing imports: runtime error, syntax error, missing, cycles, self-import
        "import 'boom.jsonnet'", "import 'syntax.jsonnet'", "import 'missing.jsonnet'", "import 'cyc1.jsonnet'",
        "import 'self.jsonnet'", "[import 'ok.jsonnet', import 'boom.jsonnet']", "importstr 'missing.txt'",
        "local f(n) = if n == 0 then import 'boom.jsonnet' else f(n - 1); f(60)",
    ]
    probes = [f"local f(n) = if n == 0 then 0 else 1 + f(n - 1); f({d})" for d in
              (range(180, 204) if dense else (150, 190, 196, 197, 198, 199, 200, 201))]
    probes += ["(import 'ok.jsonnet').a", "import 'cyc1.jsonnet'", "import 'self.jsonnet'", "(import 'bad_assert.jsonnet').a",
               "{assert self.x == 1, x: 1}.x", "local o = {assert o.x == 1, x: 1}; o.x", "{assert false : 'a1', x: 1}.x",
               "local o = {f(n): if n == 0 then 0 else 1 + self.f(n - 1)}; o.f(150)", "import 'mix.jsonnet'",
               "[import 'ok.jsonnet', (import 'ok.jsonnet') + {a: 2}]"]
    return prefixes, probes


def tls_history_probe(run, binary, dense):
    """fresh outcome of every probe vs its outcome after 1..4 failing prefix programs on the same thread"""
    r = run.rng.fork("tlshist-dense" if dense else "tlshist")
    prefixes, probes = tls_history_family(run, dense)
    mk = lambda code: {"code": code, "errtext": True, "out": "default", "files": TLS_FILES}
    fresh = core.run_harness(binary, "eval", [mk(p) for p in probes])
    seqs, meta = [], []
    reps = 6 if dense else 2
    for pi, p in enumerate(probes):
        for k in range(reps):
            n = 1 + (pi + k) % 4
            pre = [r.choice(prefixes) for _ in range(n)]
            if k == 0:
                pre = [prefixes[(pi * 3 + j) % len(prefixes)] for j in range(n)]      # every prefix appears
            seqs.append({"seq": [mk(c) for c in pre] + [mk(p)]})
            meta.append((pi, n, pre))
    outs = core.run_harness(binary, "eval", seqs)
    failures = []
    for (pi, n, pre), o, sq in zip(meta, outs, seqs):
        run.note_case("tlshist:" + probes[pi] + "|" + "|".join(pre), True)
        run.count("tls-history")
        got = o.get("seq", [None] * (n + 1))[n] if "seq" in o else o
        if got != fresh[pi]:
            failures.append({"case": {"request": sq},
                             "summary": "C16 thread-local state leaked by an earlier failing evaluation changes a later "
                                        f"result: {probes[pi][:80]} after {' ; '.join(x[:40] for x in pre)[:160]}",
                             "expected": fresh[pi], "got": got})
    failures += shared_state_probe(run, binary)
    return failures


SHARED_FILES = {
    "bad.libsonnet": "{ assert self.x > 0 : 'x must be positive', x: 0, y: 1, inner: { z: 2 } }",
    "viabad.libsonnet": "local a = import 'bad.libsonnet'; { v: a.y, w: 3 }",
    "good.libsonnet": "{ assert self.x > 0, x: 1, y: 2 }",
    "late.libsonnet": "{ local me = self, assert me.k < 10 : 'k too big', k: 10, j: 1 }",
    "deepassert.libsonnet": "{ local f(n) = 1 + f(n + 1), assert f(0) > 0, q: 7 }",
    "boomfield.libsonnet": "{ a: error 'boom', b: 2 }",
}
SHARED_HISTORIES = [
    ["(import 'bad.libsonnet').y"] * 3,
    ["(import 'bad.libsonnet').y", "(import 'viabad.libsonnet').v", "(import 'viabad.libsonnet').w",
     "(import 'bad.libsonnet').inner.z"],
    ["std.manifestJson(import 'bad.libsonnet')", "(import 'bad.libsonnet').y", "(import 'good.libsonnet').y",
     "import 'bad.libsonnet'"],
    ["(import 'good.libsonnet').y", "(import 'bad.libsonnet') + {x: 5}", "(import 'bad.libsonnet').y",
     "(import 'bad.libsonnet') + {x: 5}"],
    ["(import 'late.libsonnet').j"] * 2 + ["(import 'late.libsonnet') + {k: 1}", "(import 'late.libsonnet').k"],
    ["(import 'deepassert.libsonnet').q"] * 2 + ["local f(n) = if n == 0 then 0 else 1 + f(n - 1); f(150)"],
    ["(import 'boomfield.libsonnet').a", "(import 'boomfield.libsonnet').b", "(import 'boomfield.libsonnet').a"],
    ["std.objectFields(import 'bad.libsonnet')", "std.length(import 'bad.libsonnet')", "(import 'bad.libsonnet').y",
     "'y' in (import 'bad.libsonnet')", "(import 'bad.libsonnet').y"],
]


def shared_state_probe(run, binary):
    """histories on ONE State (import cache and the objects it holds survive): a snippet must answer as it does
    in a fresh State, however many evaluations of the same cached objects failed before it"""
    short = lambda a: ("ok", a.get("ok")) if "ok" in a else (("err", a.get("err")) if "err" in a else ("other", a))
    singles = sorted({c for h in SHARED_HISTORIES for c in h})
    fresh = core.run_harness(binary, "eval", [{"code": c, "out": "default", "files": SHARED_FILES} for c in singles])
    fresh = {c: short(a) for c, a in zip(singles, fresh)}
    reqs = [{"codes": h, "out": "default", "files": SHARED_FILES} for h in SHARED_HISTORIES]
    outs = core.run_harness(binary, "eval", reqs)
    failures = []
    for h, rq, o in zip(SHARED_HISTORIES, reqs, outs):
        run.note_case("shared:" + "|".join(h), True)
        run.count("shared-state-history")
        multi = o.get("multi")
        if not isinstance(multi, list) or len(multi) != len(h):
            failures.append({"case": {"request": rq}, "summary": "C16 shared-state history did not complete: "
                             + str(o)[:200], "expected": [fresh[c] for c in h], "got": o})
            continue
        for i, (c, a) in enumerate(zip(h, multi)):
            if short(a) != fresh[c]:
                failures.append({"case": {"request": rq},
                                 "summary": f"C16 step {i} of a history on one State answers differently than in a fresh "
                                            f"State: {c[:80]} after {' ; '.join(x[:40] for x in h[:i])[:160]}",
                                 "expected": list(fresh[c]), "got": list(short(a))})
                break
    return failures


def check(run, terrs):
    from concurrent.futures import ThreadPoolExecutor
    proofs_ok, detail = core.check_property_file(run, "C16")
    binary, err = core.build_harness(run)
    bindir, berr = core.build_repo_bins(run, packages=("jrsonnet",))
    if not binary or not bindir:
        run.obligation("build", False, err or berr)
        return core.conclude(run, False, err or berr, [], [])
    failures = []
    thorough = run.tier == "thorough"
    # source tie of the thread-local bracket protocols: translate errors of GenTls / GenStack and failed *Tls
    # theorems are C16 obligations (registered by ./check and check_property_file); say which, then probe
    stale = [(n, m) for n, m in terrs if n in TLS_GENS]
    for n, m in stale:
        run.log(f"source tie: translator {n} rejected the source (Gen/{n}.v is stale and says nothing about this "
                f"tree): {m[:300]}")
    tls_broken = bool(stale) or any((not ok) and ("tls" in n.lower() or "bracket" in n.lower() or "history" in n.lower()
                                                  or "refuted" in n.lower()) for n, ok, _ in run.obligations)
    run.coverage["tls_source_tie"] = "broken" if tls_broken else "holds"
    if tls_broken:
        run.log("source tie: a thread-local bracket obligation broke: running the history families densely "
                "(failing assertions / stack-limit hits / failing imports, then probes on the same thread)")
    failures += tls_history_probe(run, binary, dense=tls_broken or thorough)
    run.log(f"thread-local history probe done ({len(failures)} failing)")
    if not stale:
        m = core.coq_eval(TLS_IMPORTS, ["running (snd (run nv_tree tls0))",
                                        "running (snd (run_g leaky_assert_protos (Assert 7 (Leaf false)) tls0))",
                                        "fst (run (Import 3 (Import 3 (Leaf true))) tls0)"])
        run.obligation("C16.model.tls_run_executes", list(m) == [[], [7], False], repr(m)[:300])
    pg = g.ProgGen(run.rng.fork("progs"), p_err=0.1)
    progs = family(run) + [g.to_js(pg.program()) for _ in range(1500 if thorough else 140)]
    cli = [(p, []) for p in progs] + tla_cases()
    exe = os.path.join(bindir, "jrsonnet")
    # (a) fresh processes, ASLR on
    aslr = open("/proc/sys/kernel/randomize_va_space").read().strip() if os.path.exists(
        "/proc/sys/kernel/randomize_va_space") else "?"
    run.coverage["randomize_va_space"] = aslr
    jobs = [(i, k) for i in range(len(cli)) for k in range(NPROC_RUNS)]
    with ThreadPoolExecutor(max_workers=core.NPROC) as ex:
        res = list(ex.map(lambda j: run_cli(exe, cli[j[0]][0], cli[j[0]][1]), jobs))
    by = {}
    for (i, k), r in zip(jobs, res):
        by.setdefault(i, []).append(r)
    for i, (code, extra) in enumerate(cli):
        outs = [o for o in by[i] if o is not None]
        if len(outs) < len(by[i]):
            run.count("cli:no-answer-within-limit(skipped)")
        if len(outs) < 2:
            continue
        run.note_case("cli:" + code + " ".join(extra), True)
        run.count("cli:" + ("value" if outs[0][0] == 0 else "error"))
        if any(o != outs[0] for o in outs[1:]):
            other = next(o for o in outs[1:] if o != outs[0])
            failures.append({"case": {"cli": ["jrsonnet", "-e", code] + extra},
                             "summary": f"C16 two fresh processes disagree: jrsonnet -e {code[:100]!r} {' '.join(extra)[:80]}",
                             "expected": {"rc": outs[0][0], "stdout": outs[0][1][:400], "stderr": outs[0][2][:600]},
                             "got": {"rc": other[0], "stdout": other[1][:400], "stderr": other[2][:600]}})
        elif len(run.samples) < 4 and outs[0][0] != 0 and "similar" in outs[0][2]:
            run.samples.append({"cli": code, "stderr": outs[0][2][:300], "identical_runs": NPROC_RUNS})
    run.log("process-level runs done")
    # (b) inside one worker: fresh vs after a random history vs with a pre-interned pool
    r = run.rng.fork("hist")
    base = [{"code": p, "errtext": True, "out": "default"} for p in progs]
    fresh = core.run_harness(binary, "eval", base)
    seqs, idx = [], []
    for i, rq in enumerate(base):
        prefix = [dict(r.choice(base)) for _ in range(r.below(5))]
        pre = dict(rq)
        pre["preintern"] = r.choice([0, 1, 50, 700, 5000])
        seqs.append({"seq": prefix + [pre]})
        idx.append(len(prefix))
    # programs on both sides of the frame limit after k programs that were stopped by it
    from props.c04 import limit_boundary_requests
    near, over = limit_boundary_requests()
    near = [dict(q, errtext=True, out="default") for q in near]
    over = [dict(q, errtext=True, out="default") for q in over]
    base = base + near
    fresh = fresh + core.run_harness(binary, "eval", near)
    for j, q in enumerate(near):
        k = 1 + j % 4
        seqs.append({"seq": [over[j % 2]] * k + [dict(q, preintern=0)]})
        idx.append(k)
    outs = core.run_harness(binary, "eval", seqs)
    for rq, f0, o, k, sq in zip(base, fresh, outs, idx, seqs):
        run.note_case("hist:" + rq["code"] + str(k) + str(sq["seq"][-1].get("preintern")), True)
        run.count("history")
        got = o.get("seq", [None] * (k + 1))[k] if "seq" in o else o
        if got != f0:
            failures.append({"case": {"request": sq},
                             "summary": f"C16 result depends on evaluation history / interned pool: {rq['code'][:120]}",
                             "expected": f0, "got": got})
    # the model on concrete enumerations (sanity of the executable definitions)
    m = core.coq_eval(C16_IMPORTS, ["fields_ex [[98]; [97; 98]; [97]]%N", "fields_ex [[97]; [98]; [97; 98]]%N"])
    run.obligation("C16.model.fields_ex_runs", m[0] == m[1] == [[97], [97, 98], [98]], repr(m))
    run.trusted = ["Coq 8.16.1 kernel incl. vm_compute (no axioms)", "the jrsonnet executable and jrharness as observed",
                   "kernel ASLR (randomize_va_space=%s) as the source of layout variation" % aslr]
    run.assumptions = ["determinism of the allocator / ASLR cannot be modelled: the theorem says no observable depends "
                       "on enumeration order (the only route by which addresses can leak); process-level runs search for "
                       "routes the model missed"]
    run.trusted += ["translator/gens/tlstate.py and stack.py (read the bracket protocols' statements; fail closed on "
                    "anything else) and the generic interpreter ModelTls.run_g of the translated transformers"]
    run.assumptions += ["thread-local half: the model's state is exactly the four thread-local / per-State cells named "
                        "in ModelTls.tls; that evaluate() uses the protocols only in bracketed (well-nested) fashion is "
                        "Rust's scoping of guards and calls, not proved; value caches are C03's subject"]

    def search():
        return tls_history_probe(run, binary, dense=True)

    return core.conclude(run, proofs_ok, detail, failures, [], search=search if not thorough else None,
                         level="proof", rule=RULE)


def replay(run, data):
    f = data.get("failure", {})
    c = f.get("case", {})
    if "cli" in c:
        bindir, _ = core.build_repo_bins(run, packages=("jrsonnet",))
        exe = os.path.join(bindir, "jrsonnet")
        seen = set()
        for _ in range(12):
            seen.add(run_cli(exe, c["cli"][2], c["cli"][3:]))
        print(f"{len(seen)} distinct outcomes in 12 runs")
        for s in list(seen)[:3]:
            print(s)
        return 0
    binary, _ = core.build_harness(run)
    print(core.run_harness(binary, "eval", [c["request"]]))
    return 0


RULE = ("order-sensitive family (objects with 2..30 keys listed/compared/manifested 14 ways; undefined locals, unknown "
        "fields and unknown named parameters with 2..9 equally similar candidates; several possible errors; 2..5 "
        "unknown or failing top-level arguments) + random value/error programs; each run in 6 fresh processes (ASLR on) "
        "and in a worker after a random history with a random pre-interned pool (0..5000 strings); distinct = distinct "
        "program/configuration; all non-trivial; + thread-local history family: ~40 probes (frame "
        "counts 150..201 around the limit, objects with passing/failing/self-referential assertions, imports incl. cycles) "
        "each after 1..4 of 22 prefix programs that fail INSIDE a bracket protocol (failing assertions, stack-limit "
        "hits, failing imports, nested), fresh outcome vs outcome after the history on one thread")
