"""C16 — results are deterministic and independent of history.

Theorems (coq/theories/C16): every place that turns a hash-map enumeration (address- or
random-state-dependent) into observable output — field listing, 'did you mean' suggestions,
the choice among several failing top-level arguments — is a function of the key SET only,
for an ARBITRARY enumeration (permutation); any sorting algorithm yields the one sorted
arrangement.  What cannot be modelled (allocator, ASLR) is explored: programs are run in
fresh processes with address-space randomisation on, and inside one worker thread after
random evaluation histories and with random pre-interned string pools; outputs and error
texts must be byte-identical.
"""
import json
import os
import subprocess

from vlib import core
from vlib import progen as g

C16_IMPORTS = "From Coq Require Import List NArith.\nFrom JrV Require Import C16.Model.\nImport ListNotations.\n"
NPROC_RUNS = 6


def family(run):
    r = run.rng.fork("family")
    progs = []
    words = ["a", "b", "ab", "ba", "abc", "abd", "zz", "z", "é", "aé", "A", "B", "_x", "x1", "x2", "x10", "long_name_1",
             "long_name_2", "k", "kk", "kkk", "m1", "m2", "m3", "m4", "m5", "n", "o", "p", "q"]
    for n in (2, 5, 9, 17, 30):
        ks = words[:n]
        r.shuffle(ks)
        obj = "{" + ", ".join(f"{json.dumps(k)}: {i}" for i, k in enumerate(ks)) + "}"
        hid = "{" + ", ".join(f"{json.dumps(k)}{'::' if i % 3 == 0 else ':'} {i}" for i, k in enumerate(ks)) + "}"
        progs += [obj, f"std.objectFields({obj})", f"std.objectFieldsAll({hid})", f"std.objectValues({obj})",
                  f"std.objectKeysValues({hid})", f"{obj} == {obj}", f"std.toString({obj})",
                  f"std.manifestJsonMinified({hid})", f"[k for k in std.objectFields({obj} + {hid})]",
                  f"std.mergePatch({obj}, {hid})", f"std.prune({obj})", f"std.mapWithKey(function(k, v) k, {obj})",
                  f"std.length({hid})", f"std.set(std.objectFields({obj}))"]
    # suggestions: candidates with equal similarity scores
    for k in (2, 3, 4, 6, 9):
        names = [f"ab{i}" for i in range(1, k + 1)]
        progs.append("local " + ", ".join(f"{n} = {i}" for i, n in enumerate(names)) + "; abX")
        progs.append("{" + ", ".join(f"{n}: {i}" for i, n in enumerate(names)) + "}.abX")
        progs.append("{" + ", ".join(f"{n}:: {i}" for i, n in enumerate(names)) + "}.abX")
        progs.append("local f(" + ", ".join(names) + ") = 0; f(" + ", ".join(f"{n}=1" for n in names) + ", abX=2)")
        progs.append("local " + ", ".join(f"{n} = {i}" for i, n in enumerate(names)) + "; local inner = 1; "
                     + "function(p) abY")
        progs.append("local o = {" + ", ".join(f"{n}: {i}" for i, n in enumerate(names)) + "}; {x: super.abX} + o")
    # objects with several failing / differing fields, through every operation that walks fields: the error
    # reported (or false vs. error) must not depend on enumeration order
    fnames = ["alpha", "beta", "gamma", "delta", "eps", "zeta", "eta", "theta"]
    for n in (2, 3, 5, 8):
        ks = fnames[:n]
        allerr = "{" + ", ".join(f"{k}: error '{k} failed'" for k in ks) + "}"
        someerr = "{" + ", ".join(f"{k}: {i}" if i % 2 == 0 else f"{k}: error '{k} failed'" for i, k in enumerate(ks)) + "}"
        plain = "{" + ", ".join(f"{k}: {i}" for i, k in enumerate(ks)) + "}"
        other = "{" + ", ".join(f"{k}: {i + 10}" for i, k in enumerate(ks)) + "}"
        for a, b in ((allerr, plain), (plain, allerr), (someerr, other), (other, someerr), (someerr, plain), (allerr, allerr)):
            progs += [f"{a} == {b}", f"{a} != {b}", f"std.equals({a}, {b})", f"std.assertEqual({a}, {b})",
                      f"std.member([{b}, {a}], {b})", f"std.count([{a}, {b}], {a})", f"std.find({a}, [{b}, {a}])",
                      f"[{a}] == [{b}]", f"std.primitiveEquals({a}, {b})"]
        progs += [f"std.prune({allerr})", f"std.mapWithKey(function(k, v) v, {allerr})", f"std.objectValues({allerr})",
                  f"std.mergePatch({plain}, {allerr})", f"std.mergePatch({allerr}, {other})", f"std.toString({someerr})",
                  f"std.manifestJsonEx({allerr}, '  ')", f"{plain} + {allerr}", f"std.sort([{plain}, {other}])",
                  f"std.set([{plain}, {other}], function(o) o.alpha)", f"std.objectKeysValues({someerr})",
                  f"{{[k]: {allerr}[k] for k in std.objectFields({plain})}}", f"std.length({allerr})"]
    # several possible errors
    progs += ['{a: error "1", b: error "2", c: error "3"}', '[error "x", error "y"]',
              '{a: 1, assert false : "first", assert false : "second"}', 'std.map(function(x) error x, ["p", "q"])',
              'local a = error "A", b = error "B"; [b, a]', '{[k]: error k for k in ["z", "y", "x"]}',
              '{a: 1} + {a: 2, b: self.c}', 'std.sort([{}, 1])', 'std.assertEqual({b: 1, a: 2}, {a: 2, b: 2})',
              '{a: 1, b: 2, c: 3} + {a+: "x"}', 'std.extVar("missing")', 'std.native("missing")',
              'function(aa, bb) aa', 'function(aa=1) zz']
    return progs


def tla_cases():
    out = []
    for k in (2, 3, 5):
        args = []
        for i in range(k):
            args += ["--tla-str", f"un{i}=v{i}"]
        out.append(("function(a=1) a", args))
        out.append(("function(a) a", args))
        args2 = []
        for i in range(k):
            args2 += ["--tla-code", f"c{i}=error 'e{i}'"]
        out.append(("function(" + ", ".join(f"c{i}" for i in range(k)) + ") [" + ", ".join(f"c{i}" for i in range(k)) + "]", args2))
        args3 = []
        for i in range(k):
            args3 += ["--tla-code-file", f"f{i}=/nonexistent/dir/file{i}.jsonnet"]
        out.append(("function(" + ", ".join(f"f{i}" for i in range(k)) + ") 1", args3))
    return out


def run_cli(exe, code, extra):
    p = subprocess.run([exe, "-e", code] + extra, stdout=subprocess.PIPE, stderr=subprocess.PIPE, timeout=60,
                       cwd=core.CACHE)
    return (p.returncode, p.stdout.decode("utf-8", "replace"), p.stderr.decode("utf-8", "replace"))


def check(run, terrs):
    from concurrent.futures import ThreadPoolExecutor
    proofs_ok, detail = core.check_property_file(run, "C16")
    binary, err = core.build_harness(run)
    bindir, berr = core.build_repo_bins(run, packages=("jrsonnet",))
    if not binary or not bindir:
        run.obligation("build", False, err or berr)
        return core.conclude(run, False, err or berr, [], [])
    failures = []
    thorough = run.tier == "thorough"
    pg = g.ProgGen(run.rng.fork("progs"), p_err=0.1)
    progs = family(run) + [g.to_js(pg.program()) for _ in range(1500 if thorough else 140)]
    cli = [(p, []) for p in progs] + tla_cases()
    exe = os.path.join(bindir, "jrsonnet")
    # (a) fresh processes, ASLR on
    aslr = open("/proc/sys/kernel/randomize_va_space").read().strip() if os.path.exists(
        "/proc/sys/kernel/randomize_va_space") else "?"
    run.coverage["randomize_va_space"] = aslr
    jobs = [(i, k) for i in range(len(cli)) for k in range(NPROC_RUNS)]
    with ThreadPoolExecutor(max_workers=core.NPROC) as ex:
        res = list(ex.map(lambda j: run_cli(exe, cli[j[0]][0], cli[j[0]][1]), jobs))
    by = {}
    for (i, k), r in zip(jobs, res):
        by.setdefault(i, []).append(r)
    for i, (code, extra) in enumerate(cli):
        outs = by[i]
        run.note_case("cli:" + code + " ".join(extra), True)
        run.count("cli:" + ("value" if outs[0][0] == 0 else "error"))
        if any(o != outs[0] for o in outs[1:]):
            other = next(o for o in outs[1:] if o != outs[0])
            failures.append({"case": {"cli": ["jrsonnet", "-e", code] + extra},
                             "summary": f"C16 two fresh processes disagree: jrsonnet -e {code[:100]!r} {' '.join(extra)[:80]}",
                             "expected": {"rc": outs[0][0], "stdout": outs[0][1][:400], "stderr": outs[0][2][:600]},
                             "got": {"rc": other[0], "stdout": other[1][:400], "stderr": other[2][:600]}})
        elif len(run.samples) < 4 and outs[0][0] != 0 and "similar" in outs[0][2]:
            run.samples.append({"cli": code, "stderr": outs[0][2][:300], "identical_runs": NPROC_RUNS})
    run.log("process-level runs done")
    # (b) inside one worker: fresh vs after a random history vs with a pre-interned pool
    r = run.rng.fork("hist")
    base = [{"code": p, "errtext": True, "out": "default"} for p in progs]
    fresh = core.run_harness(binary, "eval", base)
    seqs, idx = [], []
    for i, rq in enumerate(base):
        prefix = [dict(r.choice(base)) for _ in range(r.below(5))]
        pre = dict(rq)
        pre["preintern"] = r.choice([0, 1, 50, 700, 5000])
        seqs.append({"seq": prefix + [pre]})
        idx.append(len(prefix))
    # programs on both sides of the frame limit after k programs that were stopped by it
    from props.c04 import limit_boundary_requests
    near, over = limit_boundary_requests()
    near = [dict(q, errtext=True, out="default") for q in near]
    over = [dict(q, errtext=True, out="default") for q in over]
    base = base + near
    fresh = fresh + core.run_harness(binary, "eval", near)
    for j, q in enumerate(near):
        k = 1 + j % 4
        seqs.append({"seq": [over[j % 2]] * k + [dict(q, preintern=0)]})
        idx.append(k)
    outs = core.run_harness(binary, "eval", seqs)
    for rq, f0, o, k, sq in zip(base, fresh, outs, idx, seqs):
        run.note_case("hist:" + rq["code"] + str(k) + str(sq["seq"][-1].get("preintern")), True)
        run.count("history")
        got = o.get("seq", [None] * (k + 1))[k] if "seq" in o else o
        if got != f0:
            failures.append({"case": {"request": sq},
                             "summary": f"C16 result depends on evaluation history / interned pool: {rq['code'][:120]}",
                             "expected": f0, "got": got})
    # the model on concrete enumerations (sanity of the executable definitions)
    m = core.coq_eval(C16_IMPORTS, ["fields_ex [[98]; [97; 98]; [97]]%N", "fields_ex [[97]; [98]; [97; 98]]%N"])
    run.obligation("C16.model.fields_ex_runs", m[0] == m[1] == [[97], [97, 98], [98]], repr(m))
    run.trusted = ["Coq 8.16.1 kernel incl. vm_compute (no axioms)", "the jrsonnet executable and jrharness as observed",
                   "kernel ASLR (randomize_va_space=%s) as the source of layout variation" % aslr]
    run.assumptions = ["determinism of the allocator / ASLR cannot be modelled: the theorem says no observable depends "
                       "on enumeration order (the only route by which addresses can leak); process-level runs search for "
                       "routes the model missed"]
    return core.conclude(run, proofs_ok, detail, failures, [], level="proof", rule=RULE)


def replay(run, data):
    f = data.get("failure", {})
    c = f.get("case", {})
    if "cli" in c:
        bindir, _ = core.build_repo_bins(run, packages=("jrsonnet",))
        exe = os.path.join(bindir, "jrsonnet")
        seen = set()
        for _ in range(12):
            seen.add(run_cli(exe, c["cli"][2], c["cli"][3:]))
        print(f"{len(seen)} distinct outcomes in 12 runs")
        for s in list(seen)[:3]:
            print(s)
        return 0
    binary, _ = core.build_harness(run)
    print(core.run_harness(binary, "eval", [c["request"]]))
    return 0


RULE = ("order-sensitive family (objects with 2..30 keys listed/compared/manifested 14 ways; undefined locals, unknown "
        "fields and unknown named parameters with 2..9 equally similar candidates; several possible errors; 2..5 "
        "unknown or failing top-level arguments) + random value/error programs; each run in 6 fresh processes (ASLR on) "
        "and in a worker after a random history with a random pre-interned pool (0..5000 strings); distinct = distinct "
        "program/configuration; all non-trivial")
