"""C18 — garbage cycles are reclaimed and interned strings stay canonical.

Theorems: coq/theories/C18 — the interner's counting discipline (Model.v: heap of
{address, bytes, refcount, utf8 flag}, content-keyed pool, maybe_unpool's `<= 2` test, the
temporaries of the casts) refines the slot/content specification for EVERY operation history;
the regenerated Trace inventory (Gen/GenTrace.v) skips no field that may own a Cc; the abstract
collection criterion reclaims exactly the unreachable objects when traced edges = owning edges.

Correspondence:
 (a) interner: operation histories run on real IStr/IBytes handles (`jrharness intern`) and in
     the Coq model (`run_case`, vm_compute); after every step pool size, per-handle kind /
     bytes / refcount and the handle-equality classes are compared with the impl-model and with
     the spec.
 (b) collector: generated programs (self-referential objects, recursive closures, mutually
     recursive locals, object-local contexts, failing, stack-limited) are evaluated on a worker
     thread (`jrharness gc`); after dropping result + State and `collect_thread_cycles()`,
     `count_thread_tracked()` must be back at the warmed-up baseline and the interner pool must
     not grow from one evaluation to the next.
"""
import json

from vlib import core
from vlib.core import cq_list

IMPORTS = ("From Coq Require Import List NArith.\nFrom JrV Require Import C18.Model.\n"
           "Import ListNotations.\n")

MASK = (1 << 60) - 1


def digest(xs):
    h = 7
    for x in xs:
        h = (((h << 7) ^ (h >> 3)) + x + 1) & MASK
    return h


# ------------------------------------------------------------------ operation histories
# python op: ("ib", bytes) ("is", bytes) ("cl", i) ("dr", i) ("cb", i) ("cs", i) ("ho",)
CODE = {"ib": 0, "is": 1, "cl": 2, "dr": 3, "cb": 4, "cs": 5, "ho": 6}
BASE_ALPHABET = [b"", b"a", b"b", "é".encode(), b"\xff"]
HOSTILE = [b"ab", b"\xc3", b"\xed\xa0\x80", b"\xf0\x9f\x92\x96", b"\xc0\x80", b"a\xff", b"\xf4\x90\x80\x80",
           b"\xe0\x9f\xbf", "€".encode(), b"\x7f", b"\x80"]


def op_req(o):
    if o[0] in ("ib", "is"):
        return [CODE[o[0]]] + list(o[1])
    if o[0] == "ho":
        return [6]
    return [CODE[o[0]], o[1]]


def op_coq(o):
    if o[0] in ("ib", "is"):
        body = cq_list([f"{b}%N" for b in o[1]])
        return f"{'OInternBytes' if o[0] == 'ib' else 'OInternStr'} {body}"
    if o[0] == "ho":
        return "OHandover"
    return {"cl": "OClone", "dr": "ODrop", "cb": "OCastBytes", "cs": "OCastStr"}[o[0]] + f" {o[1]}"


def ops_text(ops):
    out = []
    for o in ops:
        if o[0] in ("ib", "is"):
            out.append(f"{o[0]}({list(o[1])})")
        elif o[0] == "ho":
            out.append("handover")
        else:
            out.append(f"{o[0]}({o[1]})")
    return " ; ".join(out)


def is_utf8(b):
    try:
        b.decode("utf-8")
        return True
    except UnicodeDecodeError:
        return False


def sim(slots, o):
    """kinds/liveness only, to enumerate *applicable* operations (never used to judge)"""
    s = list(slots)
    t = o[0]
    if t == "ib":
        s.append(("b", o[1]))
    elif t == "is":
        if is_utf8(o[1]):
            s.append(("s", o[1]))
    elif t == "cl":
        if o[1] < len(s) and s[o[1]]:
            s.append(s[o[1]])
    elif t == "dr":
        if o[1] < len(s):
            s[o[1]] = None
    elif t == "cb":
        if o[1] < len(s) and s[o[1]] and s[o[1]][0] == "s":
            s[o[1]] = ("b", s[o[1]][1])
    elif t == "cs":
        if o[1] < len(s) and s[o[1]] and s[o[1]][0] == "b":
            s[o[1]] = ("s", s[o[1]][1]) if is_utf8(s[o[1]][1]) else None
    return s


def applicable(slots, alphabet, handover=True):
    ops = []
    for c in alphabet:
        ops.append(("ib", c))
        if is_utf8(c):
            ops.append(("is", c))
    for i, s in enumerate(slots):
        if s:
            ops.append(("cl", i))
            ops.append(("dr", i))
            ops.append(("cb", i) if s[0] == "s" else ("cs", i))
    if handover:
        ops.append(("ho",))
    return ops


def exhaustive(length, alphabet, handover=True):
    out = []

    def rec(prefix, slots, used_ho):
        if len(prefix) == length:
            out.append(list(prefix))
            return
        for o in applicable(slots, alphabet, handover and not used_ho):
            prefix.append(o)
            rec(prefix, sim(slots, o), used_ho or o[0] == "ho")
            prefix.pop()
    rec([], [], False)
    return out


def random_history(rng, n):
    alphabet = BASE_ALPHABET + ([rng.choice(HOSTILE)] if rng.chance(0.7) else [])
    ops, slots = [], []
    for _ in range(n):
        r = rng.below(100)
        live = [i for i, s in enumerate(slots) if s]
        if r < 4:
            # not applicable on purpose: dead / out-of-range slot, wrong-kind cast, non-UTF-8 &str
            o = rng.choice([("cl", len(slots) + 1), ("dr", rng.below(len(slots) + 1)), ("cb", rng.below(len(slots) + 1)),
                            ("cs", rng.below(len(slots) + 1)), ("is", b"\xff")])
        elif r < 30 or not live:
            o = (rng.choice(["ib", "is"]), rng.choice(alphabet))
            if o[0] == "is" and not is_utf8(o[1]):
                o = ("ib", o[1])
        elif r < 50:
            o = ("cl", rng.choice(live))
        elif r < 75:
            o = ("dr", rng.choice(live))
        elif r < 95:
            i = rng.choice(live)
            o = ("cb", i) if slots[i][0] == "s" else ("cs", i)
        else:
            o = ("ho",)
        ops.append(o)
        slots = sim(slots, o)
    return ops


def protocol_cases():
    """targeted histories for the source tie (Gen/GenIntern.v): k handles of one content made by every route
    (intern_bytes, intern_str, clone), j of them dropped (j = k: the count passes the unpool threshold and the
    pool entry must go exactly then), the same content interned AGAIN (must be the surviving entry, or a new
    one after a full drain), cloned, then everything dropped in both orders.  First in the case list, so a
    broken C18_model_is_translated_source_* obligation comes with a concrete intern / clone / drop history
    whenever the change is observable through `jrharness intern` (pool size hook, counts, handle equality)."""
    cases = []
    for c in (b"a", "\u00e9".encode(), b"\xff"):
        routes = ["ib", "cl"] + (["is"] if is_utf8(c) else [])
        for k in (1, 2, 3, 4):
            for r in routes:
                ops = [("ib", c)]
                for n in range(1, k):
                    ops.append(("cl", 0) if r == "cl" else (r, c))
                for j in range(k + 1):
                    base = ops + [("dr", x) for x in range(j)] + [("ib", c), ("cl", k)]
                    rest = list(range(j, k + 2))
                    cases.append(base + [("dr", x) for x in rest])
                    cases.append(base + [("dr", x) for x in reversed(rest)])
                    cases.append(base + [("ib", b"b")] + [("dr", x) for x in rest] + [("ib", c), ("dr", k + 3), ("dr", k + 2)])
    return cases


def intern_cases(run):
    thorough = run.tier == "thorough"
    rng = run.rng.fork("intern")
    cases = protocol_cases()
    two = ["é".encode(), b"\xff"]
    if thorough:
        cases += exhaustive(5, two)
        cases += exhaustive(4, BASE_ALPHABET, handover=False)
        cases += exhaustive(3, BASE_ALPHABET)
    else:
        cases += exhaustive(4, two)
        cases += exhaustive(3, BASE_ALPHABET)
    # drain family: k handles of one content through every route, then all dropped
    for c in BASE_ALPHABET + HOSTILE:
        for k in (1, 2, 3):
            ops = [("is" if is_utf8(c) and j % 2 else "ib", c) for j in range(k)]
            ops += [("cl", 0), ("cs", 0), ("cb", 0), ("ho",)]
            ops += [("dr", j) for j in range(k + 1)]
            cases.append(ops)
    nrand = 30000 if thorough else 1200
    for k in range(nrand):
        cases.append(random_history(rng, 6 + rng.below(30 if k % 5 else 70)))
    return cases


def code_observations(step):
    """harness step -> (impl_obs, spec_obs, problems)"""
    slots = step["slots"]
    live = [i for i, s in enumerate(slots) if s is not None]
    eq = step["eq"]
    m = {}
    k = 0
    for a in range(len(live)):
        for b in range(a + 1, len(live)):
            m[(live[a], live[b])] = eq[k] == "1"
            k += 1
    cls = {}
    for i in live:
        cls[i] = i
        for j in live:
            if j >= i:
                break
            if m[(j, i)]:
                cls[i] = cls[j] if cls[j] != j else j
                break
    probs = []
    if not step.get("ok", False):
        probs.append("==, Hash, Ord and the data pointer of two handles of one type disagree")
    for (a, b), e in m.items():
        if e != (cls[a] == cls[b]):
            probs.append("handle equality is not an equivalence relation")
            break
    impl, spec = [step["pool"]], [step["pool"]]
    for i, s in enumerate(slots):
        if s is None:
            impl.append(0)
            spec.append(0)
        else:
            kind, rc, data = s
            impl += [kind, cls[i], rc, len(data)] + data
            spec += [kind, cls[i], len(data)] + data
    return impl, spec, probs


def correspond_intern(run, binary, cases):
    failures, model_diffs = [], []
    seen, uniq = set(), []
    for c in cases:
        k = ops_text(c)
        if k not in seen:
            seen.add(k)
            uniq.append(c)
    cases = uniq
    run.log(f"interner: {len(cases)} distinct histories")
    model = core.coq_eval(IMPORTS, [f"run_case {cq_list([op_coq(o) for o in c])}" for c in cases])
    run.log("interner: model evaluated")
    outs = core.run_harness(binary, "intern", [{"ops": [op_req(o) for o in c]} for c in cases])
    run.log("interner: harness done")
    for c, m, o in zip(cases, model, outs):
        n = len(c)
        run.count("hist_len<=5" if n <= 5 else "hist_len6-20" if n <= 20 else "hist_len>20")
        for op in c:
            run.count("op:" + op[0])
        text = ops_text(c)
        run.note_case(text, n >= 2)
        case = {"ops": [op_req(x) for x in c], "history": text}

        def fail(what, expected, got, upto=None):
            cs = dict(case)
            if upto is not None:
                cs["ops"] = cs["ops"][:upto + 1]
                cs["history"] = ops_text(c[:upto + 1])
            failures.append({"case": cs, "kind": "intern", "summary": f"C18 interner: {what}: {cs['history'][:200]}",
                             "what": what, "expected": expected, "got": got})

        if isinstance(m, tuple) and m and m[0] == "ERROR":
            run.obligation("model.eval", False, str(m[1])[:300])
            continue
        impl_d, spec_d = [int(x) for x in m[0]], [int(x) for x in m[1]]
        if "steps" not in o:
            fail("the history crashed the interner", "every history runs", o)
            continue
        steps = o["steps"]
        # a hand-over reports one extra observation (taken on the new thread before going on)
        hs = []
        k = 0
        for op in c:
            if k >= len(steps):
                break
            hs.append(steps[k])
            k += 1
        if len(steps) != n:
            fail("wrong number of observations", n, len(steps))
            continue
        bad = False
        for i, st in enumerate(hs):
            impl, spec, probs = code_observations(st)
            if probs:
                fail(probs[0], "consistent equality", st, i)
                bad = True
                break
            if digest(spec) != spec_d[i]:
                fail(f"after step {i + 1} pool size / contents / equality classes differ from the specification "
                     "(spec digest mismatch; observation = [pool, per slot: 0 | kind, class, len, bytes..])",
                     {"spec_digest": spec_d[i]}, {"observation": spec, "raw": st}, i)
                bad = True
                break
            if digest(impl) != impl_d[i]:
                if impl_d[i] == 0:
                    fail(f"model crashes at step {i + 1} but the code goes on", "crash", st, i)
                else:
                    model_diffs.append({"case": case, "step": i + 1, "code": impl, "model_digest": impl_d[i]})
                bad = True
                break
        if not bad and o.get("final_pool") != 0:
            fail("pool not empty after every handle was dropped", 0, o.get("final_pool"))
        if len(run.samples) < 4 and 6 <= n <= 12:
            run.samples.append({"history": text, "pool_after_each_step": [s["pool"] for s in steps]})
    return failures, model_diffs


# ------------------------------------------------------------------ collector programs
def gc_templates(rng):
    """(name, request) pairs; every request is a jrharness eval request"""
    k = rng.randint(2, 30)
    d = rng.randint(3, 40)
    s = rng.choice(["a", "é", "zz", ""])
    T = []

    def add(name, code, **kw):
        r = {"code": code, "out": "minify"}
        r.update(kw)
        T.append((name, r))

    add("self-object", f"local o = {{a: {k}, b: self.a, c: o, d: $, e: self}}; [o.c.d.e.b, o.e.c.a]")
    add("self-object-whnf", "local o = {a: 1, b: self.a, c: o, d: $}; o", out="none")
    add("rec-closure", f"local f(n) = if n <= 0 then 0 else 1 + f(n - 1); f({d})")
    add("rec-closure-obj", f"local f(n) = if n <= 0 then {{}} else {{next: f(n - 1), me: self, f: f}}; f({k % 8})",
        out=rng.choice(["none", "tostring"]))
    add("mutual-locals", f"local a = {{x: b, n: {k}}}, b = {{y: a, m: a.n + 1}}; [a.x.m, b.y.n, a.x.y.x.m]")
    add("mutual-funcs", f"local even(n) = if n == 0 then true else odd(n - 1), odd(n) = if n == 0 then false "
        f"else even(n - 1); [even({d}), odd({d})]")
    add("object-locals", f"{{local x = self.y + {k}, local me = self, y: 2, z: x, w: {{v: x, up: me.y, s: self}}, "
        "t: me.w.s.v}", out="none")
    add("object-locals-eval", f"local o = {{local x = self.y + {k}, local me = self, y: 2, z: x, w: {{v: x, up: me.y}}}}; "
        "[o.z, o.w.v, o.w.up]")
    add("super-chain", f"local base = {{a: {k}, b: self.a + 1, me: self}}; local d = base + {{a: 2, c: super.b, "
        "me2: self} + {c+: 1, d: super.me.a}; [d.b, d.c, d.d, d.me.me2.a]")
    add("array-self", f"local arr = [arr, {k}, std.length(arr), function() arr]; [arr[1], arr[2], arr[0][0][1], "
        "std.length(arr[3]())]")
    add("comprehension-obj", f"local o = {{[k]: {{me: self, up: o, n: k}} for k in ['a', 'b', {json.dumps(s + 'c')}]}}; "
        "[o.a.up.b.n, std.objectFields(o)]")
    add("comprehension-arr", f"local xs = [{{i: i, me: self, all: xs}} for i in std.range(0, {k % 9})]; "
        "[x.all[0].i + x.me.i for x in xs]")
    add("std-closures", f"local o = {{k: {k}, f(x): x + self.k, me: self}}; [std.map(o.f, [1, 2, 3]), "
        "std.foldl(function(a, x) a + o.me.k + x, [1, 2], 0), std.makeArray(3, function(i) o.f(i)), "
        "std.filterMap(function(x) x > 1, o.f, [1, 2, 3])]")
    add("std-objects", f"local o = {{a: {{b: self, c: {k}}}, d:: self, e: [self.a.c]}}; [std.objectFields(o), "
        "std.objectHasAll(o, 'd'), std.length(std.objectValues(o)), std.mapWithKey(function(k, v) k, o), "
        "std.get(o, 'e'), std.prune({x: null, y: o.e})]")
    add("format-and-strings", f"local o = {{n: {k}, s: '%d-%s' % [self.n, {json.dumps(s)}], me: self}}; "
        "[o.s, std.toString(o.me.n), std.join(',', [o.s, o.s]), std.substr(o.s, 0, 2)]")
    add("error-midway", f"local o = {{a: error 'boom{k}', b: o, c: self.b.b}}; [o.c.c, o.b.a]")
    add("error-in-field-after-cache", f"local o = {{ok: {{me: o, v: {k}}}, bad: error 'x' + self.ok.v}}; "
        "[o.ok.v, o.ok.me.ok.v, o.bad]")
    add("assert-fail", f"local o = {{assert self.a > {k + 5} : 'too small', a: {k}, me: self, inner: {{up: o}}}}; o.inner.up.a")
    add("assert-ok", f"local o = {{assert self.a == {k}, a: {k}, me: self}}; o.me.me.a")
    add("type-error", f"local o = {{a: {k}, me: self}}; o.me + 1")
    add("no-field", f"local o = {{a: {k}, me: self}}; o.me.zzz")
    add("static-error", f"local o = {{a: undefinedVariable{k}}}; o")
    add("syntax-error", f"local o = {{a: {k}, ; o")
    add("stack-limit-fn", f"local f(n) = 1 + f(n + 1); f(0)", max_stack=rng.choice([10, 50, 200]))
    add("stack-limit-obj", "local o = {a: {up: o, v: self.up.a.v}}; o.a.v", max_stack=rng.choice([20, 100]))
    add("stack-limit-chain", f"local f(n) = {{v: if n == 0 then 0 else f(n - 1).v + 1, me: self}}; f({d * 20}).v",
        max_stack=rng.choice([15, 60]))
    add("infinite-recursion", "local o = {a: self.b, b: self.a, me: self}; o.a")
    add("tailstrict", f"local f(n, acc) = if n == 0 then acc else f(n - 1, acc + n) tailstrict; f({d * 5}, 0)")
    add("thunk-never-forced", f"local big = [{{me: self, n: i, all: big}} for i in std.range(0, {k})]; "
        "local unused = big[0].all; 1")
    add("function-value", f"local mk(x) = {{get(): x, me: self, mk: mk}}; mk({k}).mk(2).me.get", out="none")
    add("tla", f"function(a, b={k}) {{r: a + b, me: self, f: function() self.r}}.me.f()", tla_code={"a": "1"})
    add("ext-code", "local e = std.extVar('v'); {e: e, me: self, n: e.k}.me.e.me.k", ext_code={"v": f"{{k: {k}, me: self}}"})
    add("import-cycle-values", "local a = import 'a.libsonnet'; [a.b.v, a.b.back.n]",
        files={"a.libsonnet": f"{{n: {k}, b: (import 'b.libsonnet') + {{back: $}}}}",
               "b.libsonnet": "{v: 2, me: self}"})
    add("import-error", "local a = import 'a.libsonnet'; a.x", files={"a.libsonnet": "{x: import 'missing.libsonnet'}"})
    add("importstr", "local t = importstr 't.txt'; {t: t, me: self, l: std.length(t)}.me.l", files={"t.txt": s * 3 + "x"})
    add("manifest-yaml-json", f"local o = {{a: [1, {{b: {k}}}], s: {json.dumps(s)}}}; [std.manifestJsonEx(o, ' '), "
        "std.manifestYamlDoc(o), std.manifestJsonMinified(o), std.parseJson(std.manifestJsonMinified(o)).a[1].b]")
    add("deep-merge", f"local a = {{x: {{y: {{z: {k}, up: a}}}}}}; local b = a + {{x+: {{y+: {{z+: 1, w: self.z}}}}}}; "
        "[b.x.y.z, b.x.y.w, b.x.y.up.x.y.z]")
    add("hidden-and-visible", f"local o = {{a:: {k}, b::: self.a, c: self, d:: o}}; [o.b, std.objectFieldsAll(o)]")
    add("lazy-array-ops", f"local xs = std.makeArray({k}, function(i) {{i: i, all: xs}}); "
        "[std.length(xs[1:]), std.reverse(xs)[0].i, (xs + xs)[1].all[0].i, std.repeat(xs, 2)[0].i]")
    add("sort-uniq-set", f"local xs = [{{k: i % 3, me: self}} for i in std.range(0, {k})]; "
        "[std.length(std.uniq(std.sort(xs, function(x) x.k), function(x) x.k)), std.set([x.k for x in xs])]")
    return T


def rand_expr(rng, depth, scope):
    """random small program fragments mixing objects, functions, arrays, locals"""
    if depth <= 0 or rng.chance(0.15):
        r = rng.below(6)
        if r == 0 or not scope:
            return str(rng.below(10))
        if r == 1:
            return json.dumps(rng.choice(["a", "é", "k1", ""]))
        return rng.choice(scope)
    r = rng.below(12)
    sub = lambda sc=scope: rand_expr(rng, depth - 1, sc)  # noqa
    if r == 0:
        v = f"v{depth}_{rng.below(99)}"
        w = f"w{depth}_{rng.below(99)}"
        sc = scope + [v, w]
        return f"(local {v} = {rand_expr(rng, depth - 1, sc)}, {w} = {rand_expr(rng, depth - 1, sc)}; {rand_expr(rng, depth - 1, sc)})"
    if r in (1, 2, 3):
        names = ["a", "b", "c", "d"][:rng.randint(1, 4)]
        sc = scope + ["self", "$"]
        fs = []
        if rng.chance(0.3):
            fs.append(f"local lo = {rand_expr(rng, depth - 1, sc)}")
            sc = sc + ["lo"]
        if rng.chance(0.15):
            fs.append(f"assert {rng.choice(['true', 'std.isObject(self)', 'false'])}")
        for nm in names:
            vis = rng.choice([":", ":", "::", ":::"])
            body = rand_expr(rng, depth - 1, sc) if rng.chance(0.8) else f"self.{rng.choice(names)}"
            fs.append(f"{nm}{vis} {body}")
        return "{" + ", ".join(fs) + "}"
    if r == 4:
        return "[" + ", ".join(sub() for _ in range(rng.randint(0, 3))) + "]"
    if r == 5:
        p = f"p{depth}"
        return f"(function({p}) {rand_expr(rng, depth - 1, scope + [p])})({sub()})"
    if r == 6:
        # operands closed: `self + self` under late binding doubles the layers at every level
        return f"({rand_expr(rng, depth - 1, [])} + {rand_expr(rng, depth - 1, [])})"
    if r == 7:
        return f"({sub()}).{rng.choice(['a', 'b', 'c'])}"
    if r == 8:
        return f"(if {rng.choice(['true', 'false', 'std.isObject(' + sub() + ')'])} then {sub()} else {sub()})"
    if r == 9:
        return f"[{rand_expr(rng, depth - 1, scope + ['x'])} for x in [{sub()}, {sub()}]]"
    if r == 10:
        return f"std.{rng.choice(['length', 'type', 'toString', 'objectFields', 'isArray'])}({sub()})"
    return f"({sub()})[{rng.below(3)}]"


def gc_cases(run):
    thorough = run.tier == "thorough"
    rng = run.rng.fork("gc")
    cases = []
    for rep in range(6 if thorough else 2):
        for name, req in gc_templates(rng):
            cases.append((name, req))
    n = 6000 if thorough else 600
    for k in range(n):
        code = rand_expr(rng, 2 + k % 4, [])
        req = {"code": code, "out": rng.choice(["minify", "none", "tostring", "minify"])}
        if k % 7 == 0:
            req["max_stack"] = rng.choice([5, 12, 30])
        cases.append(("random", req))
    return cases


def judge_gc(o):
    """returns None when the property holds on this answer, else (what, expected, got)"""
    if "tracked" not in o:
        return ("dropping the result / collecting cycles killed the worker although the evaluation alone ends "
                "normally", "an answer", o)
    t, p = o["tracked"], o["pool"]
    if any(x != t[0] for x in t[1:]):
        return ("objects remain tracked after result and State were dropped and cycles collected "
                "(count_thread_tracked: warmed-up baseline, then after each evaluation)", [t[0]] * len(t), t)
    if any(x != p[1] for x in p[2:]):
        return ("interned strings accumulate from one evaluation to the next "
                "(pool size: baseline, then after each evaluation)", [p[0]] + [p[1]] * (len(p) - 1), p)
    return None


# evaluated once per worker thread before the baseline is taken: creates the thread-locals an
# evaluation may create lazily (empty object, builtin signatures, std context)
WARM = ("local o = {a: 1, b: self.a, c:: {}}; [o.b, std.length([1]), {} + {}, '%d' % 1, std.objectFields({}), "
        "std.sort([2, 1]), std.toString(o), std.map(function(x) x, [1])]")


def correspond_gc(run, binary, cases):
    failures = []
    reqs = []
    for name, req in cases:
        r = dict(req)
        r["runs"] = 3
        r["warm"] = WARM
        reqs.append(r)
    outs = core.run_harness(binary, "gc", reqs, timeout=300)
    run.log(f"collector: {len(cases)} programs evaluated")
    # a worker that died gives no measurement: decide whether the evaluation itself dies (native
    # stack, C04's business: counted, not judged) or only the drop / collection phase does
    dead = [i for i, o in enumerate(outs) if "tracked" not in o]
    alone = core.run_harness(binary, "eval", [cases[i][1] for i in dead], timeout=120) if dead else []
    not_measured = {i for i, a in zip(dead, alone) if not ("ok" in a or "err" in a)}
    for i in not_measured:
        run.count("gc-not-measured(evaluation itself kills the worker)")
    for idx, ((name, req), o) in enumerate(zip(cases, outs)):
        if idx in not_measured:
            continue
        run.count("gc:" + name)
        res = o.get("res", ["abort"])
        cls = res[0] if isinstance(res[0], str) else "?"
        run.count("gc-outcome:" + ("ok" if cls == "ok" else "stack" if cls == "StackOverflow" else "error"))
        if o.get("collected") and o["collected"][0] > 0:
            run.count("gc-cycles-collected>0")
        run.note_case("gc:" + json.dumps(req, sort_keys=True), True)
        j = judge_gc(o)
        if j:
            what, exp, got = j
            failures.append({"case": {"request": req, "template": name}, "kind": "gc",
                             "summary": f"C18 collector: {what}: {req['code'][:160]}",
                             "what": what, "expected": exp, "got": got, "answer": o})
        elif len(run.samples) < 8 and name != "random" and o.get("collected", [0])[0] > 0:
            run.samples.append({"program": req["code"][:200], "outcome": cls, "tracked": o["tracked"],
                                "collected": o["collected"], "pool": o["pool"]})
    return failures


# ------------------------------------------------------------------ the check
def check(run, terrs):
    proofs_ok, detail = core.check_property_file(run, "C18")
    binary, err = core.build_harness(run)
    if not binary:
        run.obligation("harness.build", False, err)
        return core.conclude(run, False, err, [], [])
    stale = [m for n, m in terrs if n == "GenIntern"]
    if stale:
        # translator.GenIntern already failed as an obligation; Gen/GenIntern.v is left over from an earlier run
        run.log("source tie: translator/gens/internsm.py rejected the interner source: " + stale[0][:300])
    elif not proofs_ok and "Source" in (detail or ""):
        run.log("source tie: the translated interner protocol (Gen/GenIntern.v) no longer equals the model: "
                + (detail or "")[:300])
    # protocol_cases() come first: the concrete history for a broken C18_model_is_translated_source_* obligation
    failures, model_diffs = correspond_intern(run, binary, intern_cases(run))
    failures += correspond_gc(run, binary, gc_cases(run))
    run.trusted = TRUSTED
    run.assumptions = ASSUMPTIONS
    run.notes.append(
        "outside the quantifier (hand-over only): interning between interop::exit_thread and reenter_thread on "
        "one thread breaks canonicity - `jrharness intern` ops [[7],[0,97],[8],[0,97]] leaves two live IBytes "
        "\"a\" that compare unequal, and [[0,98],[7],[0,97],[8],[0,97],[3,1],[3,2]] panics at lib.rs:181 "
        "(the issue-113 assertion); reenter_thread's safety comment does not forbid it")
    return core.conclude(
        run, proofs_ok, detail, failures, model_diffs,
        search=(lambda: search(run, binary)) if run.tier == "quick" else None,
        level="proof", rule=RULE)


def search(run, binary):
    """deeper enumeration used when an obligation or the correspondence broke"""
    run.log("search: thorough-scope programs and histories")
    old = run.tier
    run.tier = "thorough"
    try:
        gcs = gc_cases(run)
        ics = intern_cases(run)[:60000]
    finally:
        run.tier = old
    f = correspond_gc(run, binary, gcs)
    if not f:
        f, _ = correspond_intern(run, binary, ics)
    return f


def replay(run, data):
    binary, err = core.build_harness(run)
    if not binary:
        print(err)
        return 1
    f = data.get("failure", {})
    case = f.get("case", {})
    if f.get("kind") == "gc":
        r = dict(case["request"])
        r["runs"] = 3
        r["warm"] = WARM
        out = core.run_harness(binary, "gc", [r])[0]
        print("program :", r["code"])
        print("expected:", f.get("expected"))
        print("was     :", f.get("got"))
        print("now     :", out)
        j = judge_gc(out)
        print("verdict :", "still violates: " + j[0] if j else "holds now")
        return 0
    if f.get("kind") == "intern":
        ops = case["ops"]
        out = core.run_harness(binary, "intern", [{"ops": ops}])[0]
        back = {0: "OInternBytes", 1: "OInternStr", 2: "OClone", 3: "ODrop", 4: "OCastBytes", 5: "OCastStr"}
        terms = []
        for o in ops:
            if o[0] in (0, 1):
                terms.append(f"{back[o[0]]} {cq_list([f'{b}%N' for b in o[1:]])}")
            elif o[0] == 6:
                terms.append("OHandover")
            else:
                terms.append(f"{back[o[0]]} {o[1]}")
        m = core.coq_eval(IMPORTS, [f"(impl_trace_full (Some init) {cq_list(terms)}, spec_trace_full [] {cq_list(terms)})"])
        print("history :", case.get("history"))
        print("expected:", f.get("expected"))
        print("was     :", f.get("got"))
        print("now     :", json.dumps(out))
        print("model   : [pool, per slot: 0 | kind, class, (rc,) len, bytes..] impl then spec")
        print("         ", m[0])
        return 0
    print(json.dumps(data, indent=1)[:3000])
    return 1


RULE = ("interner: source-tie family first (per content a / \u00e9 / 0xff: 1-4 handles by intern_bytes, intern_str or "
        "clone, 0..all dropped, re-interned, cloned, drained in both orders, re-interned after the drain), then every history of applicable operations of length 4 over {é, 0xff} and of length 3 over "
        "{'', a, b, é, 0xff} (thorough: length 5 and, without hand-over, length 4 over the five) with at most one "
        "thread hand-over, a drain family, and random "
        "histories of length 6-75 over these plus hostile byte strings (truncated, surrogate, overlong, 4-byte, "
        "beyond U+10FFFF) with 4% inapplicable operations; observed after every step: pool size, per-handle kind / "
        "bytes / refcount, equality classes (==, Hash, Ord, data pointer). collector: 40 hand-written program "
        "families (self-referential objects, recursive closures, mutual locals, object-local contexts, super "
        "chains, comprehensions, std closures, imports, failing, stack-limited) with random parameters + random "
        "programs of depth 2-5, each evaluated 3 times on one thread after a warm-up; distinct = distinct history "
        "/ request; non-trivial = history of >= 2 operations, every program")
TRUSTED = ["Coq 8.16.1 kernel incl. vm_compute (no native_compute)",
           "no axioms (all C18 theorems closed under the global context)",
           "translator/gens/internsm.py (reads the statements of the interner's refcount / pool functions; fails closed "
           "on anything else) and the fixed vocabulary C18/SourceVocab.v (header read/write, checked `-`, the "
           "content-keyed map, the allocator) plus the op -> API-call dispatch of C18/ModelSource.v src_step",
           "translator/gens/trace.py: struct/enum inventory of crates/jrsonnet-evaluator (hand-written Rust item "
           "and type parser)",
           "correspondence: jrharness intern/gc, the cfg(jrsonnet_verif) hooks verif_pool_len / verif_strong_count, "
           "jrsonnet_gcmodule::count_thread_tracked / collect_thread_cycles, vlib generators, Coq term parser",
           "modelled not verified: allocation layout / aliasing of the unsafe interner code (only its counting "
           "discipline), hashbrown (a content-keyed map), str::from_utf8 (RFC 3629 validity), the gcmodule "
           "collector (abstract criterion in Collect.v; tied only by the tracked-count measurements)",
           "closed classification of external leaf types in Trace.v (which std / external types cannot own a Cc)"]
ASSUMPTIONS = ["hand-over = exit_thread immediately followed by reenter_thread on a thread whose own pool is empty "
               "(as the bindings use it); interning between exit and re-enter is outside the model",
               "histories shorter than 2^31 - 3 operations (31-bit reference counter), hypothesis `short`",
               "intern_str is only ever called with well-formed UTF-8 (Rust &str)",
               "collector theorem is about the abstract criterion: it assumes Cc's counting discipline and that "
               "derive(Trace) visits exactly the non-skipped fields"]
