"""C07 — imports resolve, load and evaluate as specified.

Theorems: coq/theories/C07 (resolution refines "first candidate that is not not-found decides";
CLI search order; over EVERY history and fault schedule: at most one successful load per
canonical file, at most one completed evaluation per file and none
started after it, importstr/importbin answer the content of the resolved file, an import of a
file whose `evaluating` flag is set is an error, every operation (failing or not) leaves no
flag set / no pending field / a coherent cache, importstr/importbin are independent of the cache).

Correspondence: generated directory layouts (importer-relative + 0-3 library dirs with
shadowing, symlinks to files and directories, `./x`, `d/../x`, missing / directory / non-UTF-8 /
not-a-directory targets) holding generated Jsonnet files (strict and lazy import terms, all three
import kinds), a history of operations run twice on one State through a recording,
fault-injecting wrapper around the real FileImportResolver — compared with the Coq model
([run_case], vm_compute): per-operation results, the full resolve/load/trace log, and, at the
SPEC level, load-once, evaluate-once, exact contents, and "an operation during which no fault
fires answers what it answers in a fresh state".
"""
import json
import os
import re
import shutil
import tempfile

from vlib import core
from vlib.core import cq_list as _cq_list


def cq_list(xs, ty=None):
    """typed nil: an untyped `[]` inside nested list literals makes elaboration very slow"""
    if not xs and ty:
        return f"(@nil ({ty}))"
    return _cq_list(xs)

IMPORTS = ("From Coq Require Import List NArith Bool.\nFrom JrV Require Import C07.Model.\n"
           "Import ListNotations.\nOpen Scope N_scope.\n")
FUEL = 400

ERRCLASS = {
    "INJECTED": "EIo",
    "ImportFileNotFound": "ENotFound",
    "ImportIo": "EIo", "RuntimeError": "EIo", "ResolvedFileNotFound": "EIo", "ImportIsADirectory": "EIo",
    "ImportBadFileUtf8": "EUtf8",
    "ImportSyntaxError": "ESyntax",
    "InfiniteRecursionDetected": "ECycle",
    "NoSuchField": "ENoField",
}

META = json.load(open(os.path.join(core.VERIF, "props", "c07.meta.json")))
KNOWN_IDS = {k["id"] for k in META.get("known_findings", [])}
K_FIELDERR = "C07-field-error-cached"


# ------------------------------------------------------------------ layouts
class Layout:
    """dirs/files/links keyed by tuples of names (canonical, relative to the layout root)"""

    def __init__(self):
        self.dirs = set()
        self.files = {}      # path tuple -> blob id
        self.links = {}      # path tuple -> target string (relative)
        self.blobs = []      # {bytes, utf8, body|None}
        self.cwd = ("main",)
        self.libs = []       # list of path strings relative to the layout root (may use .. / links)
        self.names = {}

    def nm(self, s):
        if s not in self.names:
            self.names[s] = len(self.names)
        return self.names[s]

    def add_blob(self, data, body=None):
        try:
            data.decode("utf-8")
            utf8 = True
        except UnicodeDecodeError:
            utf8 = False
        self.blobs.append({"bytes": data, "utf8": utf8, "body": body})
        return len(self.blobs) - 1

    # ---- rendering for Coq
    def comps(self, s):
        out = []
        for c in s.split("/"):
            if c == "" or c == ".":
                if c == ".":
                    out.append("CDot")
                continue
            out.append("CUp" if c == ".." else f"CN {self.nm(c)}")
        return out

    def cq_comps(self, s):
        return cq_list(self.comps(s), "comp")

    def cq_path(self, p):
        return cq_list([str(self.nm(x)) for x in p], "N")

    def cq_term(self, t):
        kind, path, sel = t
        k = {"import": "KImp", "importstr": "KStr", "importbin": "KBin"}[kind]
        s = "SV" if sel == "v" else f"(SLz {int(sel[2:])})"
        return f"(T {k} {self.cq_comps(path)} {s})"

    def cq_world(self):
        ents = []
        for d in sorted(self.dirs):
            ents.append(f"({self.cq_path(d)}, NDir)")
        for p, cid in sorted(self.files.items()):
            ents.append(f"({self.cq_path(p)}, NFile {cid})")
        for p, t in sorted(self.links.items()):
            ents.append(f"({self.cq_path(p)}, NLink {self.cq_comps(t)})")
        blobs = []
        for i, b in enumerate(self.blobs):
            if b["body"] is None:
                body = "None"
            else:
                bd = b["body"]
                body = ("(Some {| b_id := %d; b_strict := %s; b_lazy := %s |})" % (
                    bd["id"], cq_list([self.cq_term(t) for t in bd["strict"]], "term"),
                    cq_list([cq_list([self.cq_term(t) for t in f], "term") for f in bd["lazy"]], "list term")))
            chars = len(b["bytes"].decode("utf-8")) if b["utf8"] else 0
            blobs.append("(%d, {| bl_utf8 := %s; bl_chars := %d; bl_bytes := %d; bl_body := %s |})" % (
                i, "true" if b["utf8"] else "false", chars, len(b["bytes"]), body))
        return ("{| w_fs := %s; w_cwd := %s; w_libs := %s; w_blobs := %s; w_faults := [] |}" % (
                    cq_list(ents), self.cq_path(self.cwd), cq_list([self.cq_comps(l) for l in self.libs], "list comp"),
                    cq_list(blobs)))

    def cq_op(self, o):
        frm = o.get("from", "default")
        src = {"default": "SDefault", "noj": "SNoJ"}.get(frm) or "(SDir %s)" % self.cq_path(tuple(frm[4:].split("/")))
        return "{| o_src := %s; o_term := %s |}" % (src, self.cq_term((o["kind"], o["path"], o.get("sel", "v"))))

    # ---- on disk
    def materialise(self, root):
        for d in sorted(self.dirs, key=len):
            os.makedirs(os.path.join(root, *d), exist_ok=True)
        for p, cid in self.files.items():
            with open(os.path.join(root, *p), "wb") as f:
                f.write(self.blobs[cid]["bytes"])
        for p, t in self.links.items():
            os.symlink(t, os.path.join(root, *p))

    def to_json(self):
        return {"dirs": sorted("/".join(d) for d in self.dirs),
                "files": {"/".join(p): self.blobs[c]["bytes"].hex() for p, c in sorted(self.files.items())},
                "links": {"/".join(p): t for p, t in sorted(self.links.items())},
                "cwd": "/".join(self.cwd), "libs": self.libs}


def body_source(bd):
    def term(t):
        kind, path, sel = t
        lit = json.dumps(path)
        if kind == "import":
            return f"(import {lit}).{sel}"
        return f"std.length({kind} {lit})"
    i = bd["id"]
    s = " + ".join([f'std.trace("T{i}", {i})'] + [term(t) for t in bd["strict"]] + [f'std.trace("D{i}", 0)'])
    fields = ["v: s"]
    for k, f in enumerate(bd["lazy"]):
        fields.append(f"lz{k}: " + " + ".join([f'std.trace("L{i}_{k}", 0)'] + [term(t) for t in f]))
    return (f"// généré {i}\nlocal s = {s};\nassert s >= 0;\n{{ " + ", ".join(fields) + " }\n").encode("utf-8")


JS = ["a.jsonnet", "b.jsonnet", "c.jsonnet", "d.jsonnet", "e.jsonnet"]
SHAPES = ["dag", "dag", "diamond", "cycle2", "cycle3", "self", "lazycycle", "random", "random"]


def gen_layout(rng, idx):
    L = Layout()
    shape = rng.choice(SHAPES)
    L.shape = shape
    L.dirs.add(("main",))
    if rng.chance(0.6):
        L.dirs.add(("main", "sub"))
    nlibs = rng.choice([0, 1, 1, 2, 2, 3])
    libnames = ["lib1", "lib2", "lib3"][:nlibs]
    for l in libnames:
        L.dirs.add((l,))
    if nlibs and rng.chance(0.35):
        L.dirs.add((libnames[0], "sub"))
    if rng.chance(0.3):
        L.dirs.add(("other",))
    # directory symlink
    dirlink = None
    if nlibs and rng.chance(0.35):
        tgt = rng.choice(libnames)
        L.links[("main", "dl")] = f"../{tgt}"
        dirlink = "dl"
    # library search list (order matters), sometimes spelled through `..`, a link, or missing
    libs = list(libnames)
    rng.shuffle(libs)
    for l in libs:
        r = rng.below(10)
        if r == 0:
            L.libs.append(f"main/../{l}")
        elif r == 1 and dirlink and L.links[("main", "dl")] == f"../{l}":
            L.libs.append("main/dl")
        else:
            L.libs.append(l)
    if rng.chance(0.15):
        L.libs.insert(rng.below(len(L.libs) + 1), "nolib")
    if libs and rng.chance(0.1):
        L.libs.append(rng.choice(libs))      # a duplicate entry
    dirs = sorted(L.dirs)
    n = rng.randint(2, 5)
    logical = JS[:n]
    phys = []                                # (path tuple, logical index)
    for li, name in enumerate(logical):
        reach = [("main",)] + [(l,) for l in libnames]
        places = [("main",)] if li == 0 else [rng.choice(reach) if rng.chance(0.8) else rng.choice(dirs)]
        if rng.chance(0.45):
            d2 = rng.choice(reach) if rng.chance(0.7) else rng.choice(dirs)
            if d2 not in places:
                places.append(d2)
        if rng.chance(0.1):
            d3 = rng.choice(dirs)
            if d3 not in places:
                places.append(d3)
        for d in places:
            phys.append((d + (name,), li))
    others = []
    if rng.chance(0.8):
        for d in sorted({rng.choice(dirs) for _ in range(rng.randint(1, 2))}):
            cid = L.add_blob(("@@ texte %d-%d ✓ héllo\n" % (idx, len(L.blobs))).encode("utf-8"))
            L.files[d + ("t.txt",)] = cid
        others.append("t.txt")
    if rng.chance(0.7):
        for d in sorted({rng.choice(dirs) for _ in range(rng.randint(1, 2))}):
            cid = L.add_blob(b"\xff\xfe\x00bin" + bytes([idx % 251, len(L.blobs), 0x80, 0xc3]))
            L.files[d + ("u.bin",)] = cid
        others.append("u.bin")
    if rng.chance(0.15):
        L.files[rng.choice(dirs) + ("empty.txt",)] = L.add_blob(b"")
        others.append("empty.txt")
    # file symlink
    filelink = None
    if rng.chance(0.5):
        tp, _ = rng.choice(phys)
        ld = rng.choice(dirs)
        if ld + ("s.jsonnet",) not in L.files:
            up = "/".join([".."] * len(ld))
            L.links[ld + ("s.jsonnet",)] = up + "/" + "/".join(tp)
            filelink = "s.jsonnet"
    if rng.chance(0.1):
        L.links[("main", "dangling.jsonnet")] = "nowhere/x.jsonnet"
    if rng.chance(0.08):
        # a chain of links
        tp, _ = rng.choice(phys)
        L.links[("main", "l2.jsonnet")] = "l1.jsonnet"
        L.links[("main", "l1.jsonnet")] = "../" + "/".join(tp)
    subdirs = sorted({d[-1] for d in dirs if len(d) == 2})

    def spell(name, here):
        r = rng.below(100)
        where = sorted(p[:-1] for p in list(L.files) + [q for q, _ in phys] if p[-1] == name)
        mysubs = sorted(d[-1] for d in dirs if d[:-1] == here)
        if r < 50:
            return name
        if r < 62:
            return "./" + name
        if r < 69:
            sd = mysubs or subdirs
            return (rng.choice(sd) + "/../" + name) if sd else name
        if r < 72:
            return (rng.choice(subdirs) + "/" + name) if subdirs else name
        if r < 86:
            d = rng.choice(where) if where and rng.chance(0.85) else rng.choice(dirs)
            return "/".join([".."] * len(here)) + "/" + "/".join(d) + "/" + name
        if r < 92:
            return (dirlink + "/" + name) if dirlink else name
        if r < 95:
            return (dirlink + "/../" + name) if dirlink else "./" + name   # `..` through a directory symlink
        if r < 97:
            return "nosuch/../" + name
        return name

    def special():
        r = rng.below(100)
        if r < 25:
            return "missing.jsonnet"
        if r < 45 and subdirs:
            return rng.choice(subdirs)           # a directory
        if r < 55 and libnames:
            return "../" + libnames[0]           # a directory
        if r < 70:
            return "a.jsonnet/x"                 # a regular file used as a directory
        if r < 80 and filelink:
            return filelink
        if r < 85:
            return "dangling.jsonnet"
        if r < 90:
            return "l2.jsonnet"
        if r < 95:
            return "."
        return "sub/missing.txt"

    def pick_target(li):
        if shape in ("dag", "diamond", "cycle2", "cycle3", "self", "lazycycle"):
            hi = [x for x in range(li + 1, n)]
            return rng.choice(hi) if hi else None
        return rng.below(n)

    def term(li, here, lazy):
        r = rng.below(100)
        if r < 62:
            t = pick_target(li)
            if t is None:
                return None
            sel = "v"
            if rng.chance(0.2):
                sel = f"lz{rng.below(2)}"
            return ("import", spell(logical[t], here), sel)
        if r < 70 and filelink:
            return ("import", filelink, "v") if shape == "random" else None
        if r < 86 and others:
            o = rng.choice(others + (logical[li + 1:] if rng.chance(0.3) else []))
            return (rng.choice(["importstr", "importbin"]), spell(o, here), "v")
        if r < 90:
            return (rng.choice(["import", "importstr", "importbin"]), special(), "v")
        return None

    for pi, (p, li) in enumerate(phys):
        here = p[:-1]
        strict = [t for t in (term(li, here, False) for _ in range(rng.choice([0, 1, 1, 2, 2, 3]))) if t]
        lazy = []
        for _ in range(rng.choice([0, 0, 1, 1, 2])):
            f = [t for t in (term(li, here, True) for _ in range(rng.choice([1, 1, 2]))) if t]
            lazy.append(f)
        # shape edges
        if shape == "diamond" and n >= 3 and li == 0:
            strict = [("import", spell(logical[1], here), "v"), ("import", spell(logical[2], here), "v")] + strict
        if shape == "diamond" and n >= 4 and li in (1, 2):
            strict.append(("import", spell(logical[3], here), "v"))
        if shape == "diamond" and n == 3 and li == 1:
            strict.append(("import", spell(logical[2], here), "v"))
        if shape == "cycle2":
            if li == 0:
                strict.insert(rng.below(len(strict) + 1), ("import", spell(logical[1], here), "v"))
            if li == 1:
                strict.insert(rng.below(len(strict) + 1), ("import", spell(logical[0], here), "v"))
        if shape == "cycle3" and n >= 3:
            if li < 3:
                strict.insert(rng.below(len(strict) + 1), ("import", spell(logical[(li + 1) % 3], here), "v"))
        if shape == "self" and li == rng.below(n):
            strict.append(("import", spell(logical[li], here), "v"))
        if shape == "lazycycle":
            if li == 0:
                strict.insert(0, ("import", spell(logical[1], here), "v"))
            if li == 1:
                lazy.insert(0, [("import", spell(logical[0], here), "v")])
        bd = {"id": idx * 100 + pi + 1, "strict": strict, "lazy": lazy}
        L.files[p] = L.add_blob(body_source(bd), bd)
    # operations
    ops = []
    nops = rng.randint(2, 4)
    for _ in range(nops):
        r = rng.below(100)
        o = {}
        if r < 55:
            o = {"kind": "import", "path": spell(logical[0] if rng.chance(0.6) else rng.choice(logical), ("main",)),
                 "sel": rng.choice(["v", "v", "lz0", "lz0", "lz1"])}
        elif r < 80:
            tgt = rng.choice(others + logical) if others else rng.choice(logical)
            o = {"kind": rng.choice(["importstr", "importbin"]), "path": spell(tgt, ("main",)), "sel": "v"}
        elif r < 92:
            o = {"kind": rng.choice(["import", "importstr", "importbin"]), "path": special(), "sel": "v"}
        else:
            o = {"kind": "import", "path": "s.jsonnet", "sel": "v"}
        r = rng.below(100)
        o["from"] = "noj" if r < 12 else ("dir:" + "/".join(rng.choice(dirs))) if r < 24 else "default"
        ops.append(o)
    L.ops = ops + [dict(o) for o in ops]       # everything is retried once
    L.idx = idx
    return L


def fixed_layouts():
    """hand-written layouts: the classical graphs and both known findings"""
    out = []

    def mk(files, ops, libs=(), links=None, dirs=(("main",), ("lib1",), ("lib2",))):
        L = Layout()
        L.shape = "fixed"
        L.dirs = set(dirs)
        L.libs = list(libs)
        L.links = dict(links or {})
        nid = [0]
        for p, content in files.items():
            p = tuple(p.split("/"))
            if isinstance(content, bytes):
                L.files[p] = L.add_blob(content)
            else:
                nid[0] += 1
                bd = {"id": 9000 + len(out) * 10 + nid[0], "strict": content[0], "lazy": content[1]}
                L.files[p] = L.add_blob(body_source(bd), bd)
        L.ops = [{"kind": k, "path": p, "sel": s, "from": "default"} for k, p, s in ops]
        L.idx = 100000 + len(out)
        out.append(L)

    imp = lambda p, s="v": ("import", p, s)  # noqa
    # retry of a lazy field whose import failed transiently (field error cache)
    mk({"main/a.jsonnet": ([], [[imp("b.jsonnet")]]), "main/b.jsonnet": ([], [])},
       [("import", "a.jsonnet", "lz0"), ("import", "a.jsonnet", "lz0"), ("import", "b.jsonnet", "v")])
    # non-UTF-8 file: read once (fixed c43636f), the encoding error is reported on every attempt
    mk({"main/u.bin": b"\xff\xfe", "main/a.jsonnet": ([], [])},
       [("importstr", "u.bin", "v"), ("importstr", "u.bin", "v"), ("importbin", "u.bin", "v"),
        ("importstr", "u.bin", "v"), ("import", "u.bin", "v")])
    # diamond through three spellings and a symlink
    mk({"main/a.jsonnet": ([imp("b.jsonnet"), imp("./c.jsonnet")], []),
        "main/b.jsonnet": ([imp("../lib1/d.jsonnet")], []), "main/c.jsonnet": ([imp("s.jsonnet"), imp("d.jsonnet")], []),
        "lib1/d.jsonnet": ([("importstr", "t.txt", "v"), ("importbin", "t.txt", "v")], []),
        "lib2/d.jsonnet": ([], []), "lib2/t.txt": "ünï".encode(), "lib1/t.txt": b"@@ one"},
       [("import", "a.jsonnet", "v"), ("import", "a.jsonnet", "v"), ("importstr", "t.txt", "v"),
        ("importbin", "../lib1/t.txt", "v")],
       libs=["lib2", "lib1"], links={("main", "s.jsonnet"): "../lib1/d.jsonnet"})
    # strict 2- and 3-cycles, then an unrelated import
    mk({"main/a.jsonnet": ([imp("b.jsonnet")], []), "main/b.jsonnet": ([imp("a.jsonnet")], []),
        "main/c.jsonnet": ([], [])},
       [("import", "a.jsonnet", "v"), ("import", "c.jsonnet", "v"), ("import", "b.jsonnet", "v")])
    mk({"main/a.jsonnet": ([imp("b.jsonnet")], []), "main/b.jsonnet": ([imp("c.jsonnet")], []),
        "main/c.jsonnet": ([imp("./a.jsonnet")], [])},
       [("import", "a.jsonnet", "v"), ("import", "c.jsonnet", "v")])
    # lazy cycle: fine
    mk({"main/a.jsonnet": ([imp("b.jsonnet")], []), "main/b.jsonnet": ([], [[imp("a.jsonnet")]])},
       [("import", "a.jsonnet", "v"), ("import", "b.jsonnet", "lz0"), ("import", "a.jsonnet", "v")])
    # shadowing: importer-relative beats every library, first library beats the second
    mk({"main/a.jsonnet": ([imp("x.jsonnet"), imp("y.jsonnet")], []), "main/x.jsonnet": ([], []),
        "lib1/x.jsonnet": ([], []), "lib2/x.jsonnet": ([], []), "lib1/y.jsonnet": ([imp("x.jsonnet")], []),
        "lib2/y.jsonnet": ([], [])},
       [("import", "a.jsonnet", "v"), ("import", "y.jsonnet", "v")], libs=["lib2", "lib1"])
    for L in out:
        L.ops = L.ops + [dict(o) for o in L.ops]
    return out


# ------------------------------------------------------------------ model output -> comparable
def names_inv(L):
    return {v: k for k, v in L.names.items()}


def conv_path(inv, t):
    return "/".join(inv[int(x)] for x in t)


def conv_comps(inv, t):
    out = []
    for c in t:
        if c == "CDot":
            out.append(".")
        elif c == "CUp":
            out.append("..")
        else:
            out.append(inv[int(c.args[0])])
    return "/".join(out)


def conv_src(inv, t):
    if t == "SDefault":
        return "default"
    if t == "SNoJ":
        return "noj"
    if t.name == "SDir":
        return "dir:" + conv_path(inv, t.args[0])
    return "file:" + conv_path(inv, t.args[0])


def conv_event(inv, e):
    n = e.name
    if n == "EvResolve":
        frm, raw, r = e.args
        out = ("ok:file:" + conv_path(inv, r.args[0])) if r.name == "Ok" else "err:" + r.args[0]
        return ["resolve", conv_src(inv, frm), conv_comps(inv, raw), out]
    if n == "EvLoad":
        c, r = e.args
        return ["load", "file:" + conv_path(inv, c), "ok" if r.name == "Ok" else "err:" + r.args[0]]
    c, i = e.args[0], int(e.args[1])
    if n == "EvStart":
        return ["trace", f"T{i}"]
    if n == "EvDone":
        return ["trace", f"D{i}"]
    return ["trace", f"L{i}_{int(e.args[2])}"]


def conv_val(L, v):
    if v.name == "VNum":
        return {"num": str(core.float_to_bits(float(int(v.args[0]))))}
    if v.name == "VStr":
        return {"str": L.blobs[int(v.args[0])]["bytes"].hex()}
    if v.name == "VBytes":
        return {"bin": L.blobs[int(v.args[0])]["bytes"].hex()}
    return {"err": v.args[0]}


def norm_code_event(e):
    e = list(e)
    if e[0] == "resolve" and e[3].startswith("err:"):
        e[3] = "err:" + ERRCLASS.get(e[3][4:], e[3][4:])
    if e[0] == "load" and e[2].startswith("err:"):
        e[2] = "err:" + ERRCLASS.get(e[2][4:], e[2][4:])
    return e


def norm_code_result(r):
    if "err" in r:
        return {"err": ERRCLASS.get(r["err"], r["err"])}
    return r


def has_fuel(x):
    return "EFuel" in json.dumps(x)


# ------------------------------------------------------------------ the check
def fault_sets(run, rng, thorough):
    ks = list(range(0, 48)) if thorough else sorted({rng.below(8), rng.below(14), rng.below(20), rng.below(26)})
    sets = [[k] for k in ks]
    if rng.chance(0.5):
        a = rng.below(12)
        sets.append([a, a + 1 + rng.below(6)])
    return sets


def par_coq_eval(items):
    """items: (definitions, expression).  core.coq_eval starts one coqc per 200 expressions; a
    layout's expression is heavy (all its fault variants) and its world literal is elaborated much
    faster as a Definition than inline, so: NPROC chunks evaluated concurrently, each with the
    definitions of its own layouts as preamble."""
    from concurrent.futures import ThreadPoolExecutor
    exprs = items
    n = max(1, min(core.NPROC, (len(exprs) + 7) // 8))
    chunks = [exprs[i::n] for i in range(n)]
    with ThreadPoolExecutor(max_workers=n) as ex:
        outs = list(ex.map(lambda c: core.coq_eval(IMPORTS, [e for _, e in c],
                                                   preamble="".join(d for d, _ in c)), chunks))
    res = [None] * len(exprs)
    for i, o in enumerate(outs):
        res[i::n] = o
    return res


def correspond(run, binary, layouts, root):
    failures, model_diffs = [], []
    thorough = run.tier == "thorough"
    frng = run.rng.fork("faults")
    exprs, fsets = [], []
    for L in layouts:
        fs = fault_sets(run, frng, thorough)
        fsets.append(fs)
        w = L.cq_world()
        h = cq_list([L.cq_op(o) for o in L.ops])
        fl = cq_list([cq_list([str(k) for k in s], "N") for s in fs], "list N")
        exprs.append((f"Definition w{len(exprs)} := {w}.\nDefinition h{len(exprs)} := {h}.\n",
                      f"run_variants w{len(exprs)} {FUEL} h{len(exprs)} {fl}"))
    run.log(f"{len(layouts)} layouts; evaluating the model")
    model = par_coq_eval(exprs)
    run.log("model evaluated")
    reqs, meta = [], []
    for L, fs, m in zip(layouts, fsets, model):
        if isinstance(m, tuple) and m and m[0] == "ERROR":
            run.obligation("model.eval", False, str(m[1])[:400])
            continue
        inv = names_inv(L)
        lroot = os.path.join(root, f"L{L.idx}")
        os.makedirs(lroot)
        L.materialise(lroot)
        for mv in m:                            # the model drops the fault sets that never fire
            s, (vs, log, fresh, fixedvs, calls) = mv
            s = [int(k) for k in s]
            calls = int(calls)
            mres = [conv_val(L, v) for v in vs]
            mlog = [conv_event(inv, e) for e in log]
            mfresh = [conv_val(L, v) for v in fresh]
            mfixed = [conv_val(L, v) for v in fixedvs]
            if has_fuel(mres) or has_fuel(mlog) or has_fuel(mfresh) or has_fuel(mfixed):
                run.count("skipped_out_of_fuel")
                continue
            reqs.append({"root": lroot, "cwd": "/".join(L.cwd), "jpaths": [os.path.join(lroot, l) for l in L.libs],
                         "faults": s, "ops": L.ops})
            meta.append((L, s, mres, mlog, mfresh, mfixed, calls))
    run.log(f"{len(reqs)} histories (layout x fault set) for the harness")
    outs = core.run_harness(binary, "imports", reqs)
    run.log("harness done")
    for (L, s, mres, mlog, mfresh, mfixed, mcalls), o in zip(meta, outs):
        judge(run, L, s, mres, mlog, mfresh, mfixed, mcalls, o, failures, model_diffs)
    return failures, model_diffs


def case_json(L, s):
    return {"layout": L.to_json(), "ops": L.ops, "faults": s, "shape": L.shape}


def judge(run, L, s, mres, mlog, mfresh, mfixed, mcalls, o, failures, model_diffs):
    case = case_json(L, s)
    canonical = json.dumps(case, sort_keys=True)
    run.note_case(canonical, True)
    run.count("shape:" + L.shape)
    run.count("faults:%d" % len(s))
    run.count("libs:%d" % len(L.libs))

    def fail(what, expected, got, known=None):
        f = {"case": case, "summary": f"C07 {what} [layout {L.idx}, faults {s}]", "what": what,
             "expected": expected, "got": got}
        if known:
            f["known"] = known
        failures.append(f)

    if "results" not in o:
        fail("the harness did not complete the history", "results", o)
        return
    cres = [norm_code_result(r) for r in o["results"]]
    clog = [norm_code_event(e) for e in o["log"]]
    injected = [e[0] == "resolve" and e[3] == "err:INJECTED" for e in o["log"]]
    for r in cres:
        run.count("result:" + next(iter(r)) + (":" + r["err"] if "err" in r else ""))
    for op in L.ops:
        run.count("op:" + op["kind"])
        run.count("from:" + op.get("from", "default").split(":")[0])
    if any("panic" in r or "other" in r for r in o["results"]):
        fail("an import operation panicked or answered a value of the wrong type", mres, o["results"])
        return
    # ---------------- SPEC-level judgement of the code's own behaviour
    # the harness answers the resolver-call counter after each operation: a fault k fired in
    # operation i iff marks[i-1] <= k < marks[i]
    marks = o.get("marks") or []
    # (1) load once
    loads = {}
    for e in clog:
        if e[0] == "load" and e[2] == "ok":
            loads[e[1]] = loads.get(e[1], 0) + 1
    for p, n in loads.items():
        if n > 1:
            fail(f"{p} was read {n} times in one State", 1, n)
    # (2) evaluated once / never started again after completion
    done = set()
    for e in clog:
        if e[0] == "trace":
            lab = e[1]
            if lab[0] == "D":
                if lab[1:] in done:
                    fail(f"file body {lab[1:]} completed evaluation twice", 1, 2)
                done.add(lab[1:])
            elif lab[0] == "T" and lab[1:] in done:
                fail(f"file body {lab[1:]} evaluated again after it had completed", "cached", "re-evaluated")
    # (3) resolution: the code's answers against the model's SPEC-proved answers
    want = {}
    for e in mlog:
        if e[0] == "resolve":
            want.setdefault((e[1], e[2]), set()).add(e[3])
    for e, inj in zip(clog, injected):
        if e[0] == "resolve" and not inj:
            w = want.get((e[1], e[2]))
            if w is not None and e[3] not in w:
                fail(f"import of {e[2]!r} from {e[1]} resolved to {e[3]}", sorted(w), e[3])
    # (4) every operation without a fault in it answers what it answers in a fresh state;
    #     an operation with a fault in it is an error
    for i, (r, fr) in enumerate(zip(cres, mfresh)):
        lo = marks[i - 1] if i > 0 and len(marks) > i - 1 else 0
        hi = marks[i] if len(marks) > i else None
        if hi is None:
            break
        fired = any(lo <= k < hi for k in s)
        if fired:
            if "err" not in r:
                fail(f"operation {i} succeeded although resolver call {s} failed", "error", r)
            continue
        if r != fr:
            known = None
            if mres[i] == r and mfixed[i] == fr:
                known = K_FIELDERR
            fail(f"operation {i} ({L.ops[i]['kind']} {L.ops[i]['path']!r}.{L.ops[i].get('sel')}) answers "
                 f"differently than in a fresh state", fr, r, known)
    # ---------------- code vs faithful model (results + full log)
    if cres != mres or clog != mlog or int(o.get("calls", -1)) != mcalls:
        d = {"case": case, "model_results": mres, "code_results": cres}
        for j, (a, b) in enumerate(zip(mlog + [None] * len(clog), clog + [None] * len(mlog))):
            if a != b:
                d["first_log_diff"] = {"index": j, "model": a, "code": b}
                break
        model_diffs.append(d)
    if len(run.samples) < 8 and s and len(clog) > 8:
        run.samples.append({"files": sorted(case["layout"]["files"]), "links": case["layout"]["links"],
                            "libs": L.libs, "ops": L.ops[:len(L.ops) // 2], "faults": s,
                            "results": cres, "log_head": clog[:6], "log_len": len(clog)})


# ------------------------------------------------------------------ CLI search order
def clipath_check(run, binary, root, failures, model_diffs):
    rng = run.rng.fork("clipath")
    base = os.path.join(root, "cli")
    dirs = ["j0", "j1", "j2", "e0", "e1"]
    os.makedirs(os.path.join(base, "main"))
    L = Layout()
    L.dirs = {("main",)} | {(d,) for d in dirs}
    names = []
    for a in dirs:
        os.makedirs(os.path.join(base, a))
    for i, a in enumerate(dirs):
        for b in dirs[i + 1:]:
            nm = f"p_{a}_{b}.txt"
            names.append(nm)
            for d in (a, b):
                cid = L.add_blob(f"{d}".encode())
                L.files[(d, nm)] = cid
                open(os.path.join(base, d, nm), "w").write(d)
    cases, exprs = [], []
    for _ in range(24 if run.tier == "quick" else 200):
        js = [rng.choice(dirs[:3]) for _ in range(rng.choice([0, 1, 2, 2, 3, 3, 4]))]
        env = rng.choice([None, ["e0"], ["e1", "e0"], ["e0", "e1"], ["e0", "j1"]])
        cases.append((js, env))
        libs = f"(search_list {cq_list([L.cq_comps(j) for j in js], 'list comp')} {cq_list([L.cq_comps(e) for e in (env or [])], 'list comp')})"
        w = L.cq_world().replace("w_libs := (@nil (list comp))", f"w_libs := {libs}")
        exprs.append("map (fun raw => resolve_impl (w_fs (%s)) [%d] %s SDefault raw) %s" % (
            w, L.nm("main"), libs, cq_list([L.cq_comps(n) for n in names])))
    model = core.coq_eval(IMPORTS, exprs)
    reqs = [{"clipath": {"root": base, "cwd": "main", "jflags": [os.path.join(base, j) for j in js],
                         "env": None if env is None else ":".join(os.path.join(base, e) for e in env),
                         "names": names}} for js, env in cases]
    outs = core.run_harness(binary, "imports", reqs, shards=4)
    inv = names_inv(L)
    for (js, env), m, o in zip(cases, model, outs):
        run.note_case(json.dumps(["clipath", js, env]), True)
        run.count("clipath")
        if isinstance(m, tuple) and m and m[0] == "ERROR":
            run.obligation("model.eval.clipath", False, str(m[1])[:300])
            continue
        exp = []
        for r in m:
            exp.append("ok:file:" + conv_path(inv, r.args[0]) if isinstance(r, core.App) and r.name == "RHit"
                       else "err:ENotFound")
        got = [x if x.startswith("ok:") else "err:" + ERRCLASS.get(x[4:], x[4:]) for x in o.get("resolved", [])]
        if got != exp:
            bad = [(n, e, g) for n, e, g in zip(names, exp, got) if e != g][:3]
            failures.append({"case": {"clipath": {"jflags": js, "JSONNET_PATH": env}},
                             "summary": f"C07 library search order: -J {js} JSONNET_PATH {env}: {bad}",
                             "expected": exp, "got": got or o})


SOURCE_STEPS = {
    "gen_new_bytes": "lib.rs FileData::new_bytes",
    "gen_get_string": "lib.rs FileData::get_string",
    "gen_import_resolved_str": "lib.rs State::import_resolved_str",
    "gen_import_resolved_bin": "lib.rs State::import_resolved_bin",
    "gen_begin_import": "lib.rs State::import_resolved (up to evaluate)",
    "gen_finish_import": "lib.rs State::import_resolved (after evaluate: flag reset, value cached)",
    "gen_resolve_from": "import.rs FileImportResolver::resolve_from (search order)",
    "gen_search_list": "cli lib.rs MiscOpts::import_resolver (-J reversed, then JSONNET_PATH)",
}


def source_tie_obligations(run, terrs, proofs_ok, detail):
    """one obligation per translated function: GenImport.v was produced from this tree (no translate error)
    and the C07_model_is_translated_source_* theorems about it compiled.  Returns True when the tie is broken
    (then the targeted histories below are the concrete inputs to look at first)."""
    stale = [m for n, m in terrs if n == "GenImport"]
    path = os.path.join(core.COQ, "theories", "Gen", "GenImport.v")
    txt = open(path, encoding="utf-8").read() if os.path.exists(path) else ""
    src_broken = bool(stale) or (not proofs_ok and ("Source" in detail or "GenImport" in detail))
    for d, where in SOURCE_STEPS.items():
        present = re.search(rf"^Definition {d}\b", txt, re.M) is not None
        why = ""
        if stale:
            why = "translator/gens/importsm.py rejected the source: " + stale[0][:300]
        elif not present:
            why = "not emitted"
        elif src_broken:
            why = "the translated step is no longer the model step: " + detail[:300]
        run.obligation(f"C07.source.{d} ({where}) is the model step", not why, why)
    if stale:
        run.log("source tie: " + stale[0][:300])
    return src_broken


def targeted_layouts():
    """operation histories aimed at the translated steps: failing imports retried (flag reset on the error
    path), strict cycles then the same files again, non-UTF-8 files through the three import kinds in every
    order, one file through import / importstr / importbin when one of them breaks, the importer's directory
    against one and two library directories holding the same name"""
    out = []

    def mk(files, ops, libs=(), dirs=(("main",), ("lib1",), ("lib2",), ("main", "sub"))):
        L = Layout()
        L.shape = "targeted"
        L.dirs = set(dirs)
        L.libs = list(libs)
        nid = [0]
        for p, content in files.items():
            p = tuple(p.split("/"))
            if isinstance(content, bytes):
                L.files[p] = L.add_blob(content)
            else:
                nid[0] += 1
                bd = {"id": 7000 + len(out) * 10 + nid[0], "strict": content[0], "lazy": content[1]}
                L.files[p] = L.add_blob(body_source(bd), bd)
        L.ops = [{"kind": k, "path": p, "sel": s, "from": "default"} for k, p, s in ops]
        L.ops = L.ops + [dict(o) for o in L.ops]
        L.idx = 200000 + len(out)
        out.append(L)

    imp = lambda p, s="v": ("import", p, s)  # noqa
    kinds = ["import", "importstr", "importbin"]
    # a body that fails (missing / non-UTF-8 / syntactically broken nested file), retried, then its parts alone
    for bad in ({}, {"main/x.jsonnet": b"\xff\xfe{"}, {"main/x.jsonnet": b"{ v: "}):
        for k in kinds:
            files = {"main/a.jsonnet": ([(k, "x.jsonnet", "v")], []), "main/b.jsonnet": ([imp("a.jsonnet")], []),
                     "main/ok.jsonnet": ([], [])}
            files.update(bad)
            mk(files, [imp("a.jsonnet"), imp("b.jsonnet"), imp("a.jsonnet"), imp("ok.jsonnet"),
                       ("importstr", "a.jsonnet", "v"), ("importbin", "a.jsonnet", "v")])
    # strict cycles entered from every member, then again
    mk({"main/a.jsonnet": ([imp("a.jsonnet")], [])}, [imp("a.jsonnet"), ("importstr", "a.jsonnet", "v"), imp("a.jsonnet")])
    mk({"main/a.jsonnet": ([imp("b.jsonnet")], []), "main/b.jsonnet": ([imp("ok.jsonnet"), imp("a.jsonnet")], []),
        "main/ok.jsonnet": ([], [])},
       [imp("b.jsonnet"), imp("a.jsonnet"), imp("ok.jsonnet"), imp("b.jsonnet")])
    # one file through the three kinds in every order; valid and invalid UTF-8, and a body
    import itertools
    for content in (b"caf\xc3\xa9 \xe2\x82\xac", b"\xc3\x28 bad", ([], [])):
        for order in itertools.permutations(kinds):
            mk({"main/t.jsonnet": content}, [(k, "t.jsonnet", "v") for k in order])
    # search order: importer's directory, then the library list in order
    for libs in (["lib1"], ["lib1", "lib2"], ["lib2", "lib1"]):
        for where in (["main", "lib1", "lib2"], ["lib1", "lib2"], ["lib2"], ["main/sub", "lib1"], ["main/sub", "lib2", "lib1"]):
            files = {f"{d}/x.jsonnet": ([], []) for d in where}
            files.update({f"{d}/t.txt": f"in {d}".encode() for d in where})
            files["main/sub/a.jsonnet"] = ([imp("x.jsonnet"), ("importstr", "t.txt", "v")], [])
            files["lib1/y.jsonnet"] = ([imp("x.jsonnet")], [])
            mk(files, [imp("x.jsonnet"), imp("sub/a.jsonnet"), imp("y.jsonnet"), ("importstr", "t.txt", "v"),
                       ("importbin", "t.txt", "v")], libs=libs)
    return out


def make_layouts(run):
    rng = run.rng.fork("layouts")
    n = 2000 if run.tier == "thorough" else 360
    return fixed_layouts() + targeted_layouts() + [gen_layout(rng.fork(i), i + 1) for i in range(n)]


def check(run, terrs):
    proofs_ok, detail = core.check_property_file(run, "C07")
    binary, err = core.build_harness(run)
    if not binary:
        run.obligation("harness.build", False, err)
        return core.conclude(run, False, err, [], [])
    src_broken = source_tie_obligations(run, terrs, proofs_ok, detail)
    root = os.path.realpath(tempfile.mkdtemp(prefix="c07-", dir=core.CACHE))
    try:
        failures, model_diffs = [], []
        if src_broken:
            # the translated step functions no longer are the model's: the histories aimed at them first
            run.log("source tie broken: targeted histories first")
            tl = targeted_layouts()
            for L in tl:
                L.idx += 100000
            failures, model_diffs = correspond(run, binary, tl, root)
            run.log(f"targeted histories: {len(failures)} failing, {len(model_diffs)} model/code differences")
        f1, d1 = correspond(run, binary, make_layouts(run), root)
        failures += f1
        model_diffs += d1
        clipath_check(run, binary, root, failures, model_diffs)
        run.trusted = TRUSTED
        if os.environ.get("C07_DEBUG"):
            json.dump({"failures": failures[:40], "model_diffs": model_diffs[:40]},
                      open(os.path.join(core.CACHE, "c07-debug.json"), "w"), indent=1, default=str)
            run.log(f"failures {len(failures)} model_diffs {len(model_diffs)}")
        run.assumptions = ASSUMPTIONS
        # known findings declared in props/c07.meta.json (the committed known_findings.json is
        # assembled from it by the lead); everything else goes to conclude()
        fresh = []
        for f in failures:
            kid = f.get("known")
            if kid and kid in KNOWN_IDS:
                run.known_hits.setdefault(kid, f["summary"])
            else:
                f.pop("known", None)
                fresh.append(f)
        for kid in KNOWN_IDS:
            if kid not in run.known_hits:
                run.obligation(f"known-finding {kid} still reproduces", False,
                               "the fixed layouts no longer show it: remove it from props/c07.meta.json")

        def search():
            run.log("search: more layouts")
            old = run.tier
            rng = run.rng.fork("search")
            ls = [gen_layout(rng.fork(i), 50000 + i) for i in range(1500)]
            f2, _ = correspond(run, binary, ls, root)
            run.tier = old
            return [f for f in f2 if not (f.get("known") in KNOWN_IDS)]

        return core.conclude(run, proofs_ok, detail, fresh, model_diffs,
                             search=search if run.tier == "quick" else None, level="proof", rule=RULE)
    finally:
        shutil.rmtree(root, ignore_errors=True)


def replay(run, data):
    binary, err = core.build_harness(run)
    f = data.get("failure", {})
    case = f.get("case", {})
    if "layout" not in case:
        print(json.dumps(data, indent=1)[:4000])
        return 1
    root = os.path.realpath(tempfile.mkdtemp(prefix="c07-replay-", dir=core.CACHE))
    try:
        lay = case["layout"]
        for d in lay["dirs"]:
            os.makedirs(os.path.join(root, d), exist_ok=True)
        for p, hx in lay["files"].items():
            open(os.path.join(root, p), "wb").write(bytes.fromhex(hx))
        for p, t in lay["links"].items():
            os.symlink(t, os.path.join(root, p))
        req = {"root": root, "cwd": lay["cwd"], "jpaths": [os.path.join(root, l) for l in lay["libs"]],
               "faults": case["faults"], "ops": case["ops"]}
        out = core.run_harness(binary, "imports", [req])[0]
        print("what    :", f.get("what"))
        print("expected:", f.get("expected"))
        print("was     :", f.get("got"))
        print("now     :", json.dumps(out)[:3000])
    finally:
        shutil.rmtree(root, ignore_errors=True)
    return 0


RULE = ("layouts of 2-5 logical Jsonnet files (dag / diamond / strict 2- and 3-cycle / self import / lazy "
        "cycle / random) placed with shadowing over the importer's directory, a sub-directory and 0-3 library "
        "directories (search list permuted, spelled through `..` or a directory symlink, with a missing or "
        "duplicated entry), text / non-UTF-8 / empty files, file and directory symlinks, dangling links; path "
        "spellings x, ./x, d/../x, d/x, ../d/x, link/x, link/../x, missing/../x; targets that are missing, "
        "directories, or below a regular file; import / importstr / importbin at top level (default source and "
        "SourceDefaultIgnoreJpath, SourceDirectory) and nested, strict and lazy; every history run twice on one State, crossed "
        "with no fault, single faults at sampled resolver-call indices (thorough: every index) and pairs. "
        "distinct = distinct (layout, history, fault set); all are non-trivial")
TRUSTED = ["Coq 8.16.1 kernel incl. vm_compute",
           "Properties.v: no axioms; PropertiesSource.v: FunctionalExtensionality.functional_extensionality_dep only",
           "translator/gens/importsm.py (reads the cache / resolver functions statement by statement; fails closed on "
           "anything else) and its reading of the Rust subset (write-through of assignments behind `&mut FileData`, "
           "Entry::Occupied/Vacant = cache lookup, `?` = early error exit, Option fields = presence flags)",
           "jrharness imports (recording / fault-injecting ImportResolver wrapper, LogTrace), vlib generators, "
           "Coq term printer/parser",
           "modelled not verified: the OS (metadata / canonicalize / read) as the finite-map walk of Model.v; "
           "std::str::from_utf8 as a flag computed by Python's decoder; Jsonnet evaluation of the generated "
           "files (left-to-right +, assert, lazy object fields) as [run]",
           "async_import.rs is not exercised"]
ASSUMPTIONS = ["impl-model transliterates import.rs resolve_from/check_path, cli lib.rs import_resolver, lib.rs "
               "FileData + import_resolved(_str/_bin), obj/mod.rs field cache; tie = (a) the translated step functions "
               "of Gen/GenImport.v proved equal to the model's steps (C07_model_is_translated_source_*; check_path, "
               "the field cache and the evaluation of file bodies stay hand-written), (b) differential run on every "
               "check (results + full resolve/load/trace log)",
               "file system does not change during a history",
               "processes run as root here: unreadable files are exercised through injected load faults only"]
