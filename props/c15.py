"""C15 — command line, Rust API, C API and dependency lister agree.

Theorems (coq/theories/C15): the C-API multi/stream framing is read back exactly by the
documented C loop; jrsonnet-deps' walk lists exactly the statically reachable files for every
finite import graph; the CLI's writer selection table.
Source tie (translator/gens/cliopts.py -> Gen/GenCli.v, theorems C15_cli_* in PropertiesCli.v):
ManifestOpts::manifest_format, TlaOpts::tla_opts, StdOpts::context_initializer and
MiscOpts::import_resolver are translated from the working tree on every run and proved, for every
command line, to bind each NAME to the documented meaning of its flavour (last binding wins), to
search rev(-J) ++ JSONNET_PATH, and to select the writer of the hand model `select`.  A translate
error or a failed C15_cli_* obligation triggers a targeted search (executable vs library API).
Correspondence: generated configurations (ext/TLA flavours x value/code/file, 0-3 library paths
+ JSONNET_PATH with shadowing, every output mode, stack limit) executed three ways — the
`jrsonnet` executable, the library API driven exactly as the model's configuration record says
(jrharness), and libjsonnet.so through a C driver — must give identical text and error status;
`jrsonnet-deps` against the Coq walk on generated import graphs.
"""
import binascii
import json
import os
import shutil
import subprocess
import tempfile
from concurrent.futures import ThreadPoolExecutor

from vlib import core

C15_IMPORTS = "From Coq Require Import List NArith.\nFrom JrV Require Import C15.Model.\nImport ListNotations.\n"

FMT_FLAG = {"FString": "string", "FJson": "json", "FYaml": "yaml", "FToml": "toml", "FXml": "xml-jsonml", "FIni": "ini"}


def writer_spec(t):
    """Coq `writer` term -> harness writer spec"""
    if isinstance(t, str):
        return {"WStringRaw": "string", "WToString": "tostring", "WXml": "xml", "WIni": "ini"}[t]
    n = t.name
    if n == "WJson":
        return f"json:{t.args[0]}"
    if n == "WYaml":
        return f"yaml:{t.args[0]}"
    if n == "WToml":
        return f"toml:{t.args[0]}"
    if n == "WYamlStream":
        return f"ystream({writer_spec(t.args[0])})"
    raise ValueError(t)


def jstr(s):
    return json.dumps(s, ensure_ascii=False)


class Config:
    pass


# the order of the four loops in tla_opts / context_initializer (theorems C15_cli_{tla,ext}_repeated_name_last_wins:
# a NAME given in several flavours is bound by the LAST of these that mentions it)
FLAVOURS = ["str", "str_file", "code", "code_file"]


def effective(store):
    """per flavour, the bindings that survive when a NAME is given in more than one flavour"""
    out = {fl: {} for fl in FLAVOURS}
    names = {n for fl in FLAVOURS for n in store[fl]}
    for n in names:
        fl = [f for f in FLAVOURS if n in store[f]][-1]
        out[fl][n] = store[fl][n]
    return out


def gen_config(r, idx, root, targeted=False):
    """one configuration: files on disk + CLI arguments + the model's view of it.
    targeted: dense in what the translated option functions (Gen/GenCli.v) decide: file flavours, a NAME given in
    two flavours, two or three -J directories all holding the library + JSONNET_PATH, default paddings"""
    c = Config()
    c.targeted = targeted
    c.dir = os.path.join(root, f"{'tcfg' if targeted else 'cfg'}{idx}")
    os.makedirs(c.dir)
    c.files = {}

    def put(rel, text):
        p = os.path.join(c.dir, rel)
        os.makedirs(os.path.dirname(p), exist_ok=True)
        with open(p, "w", encoding="utf-8") as f:
            f.write(text)
        return p

    # library paths with shadowing
    nlib = 2 + r.below(2) if targeted else r.below(4)
    c.jflags = []
    for i in range(nlib):
        d = f"L{i}"
        os.makedirs(os.path.join(c.dir, d))
        if targeted or r.chance(0.7):
            put(f"{d}/lib.libsonnet", f'{{from: "L{i}"}}')
        c.jflags.append(os.path.join(c.dir, d))
    c.envpath = []
    if r.chance(0.9 if targeted else 0.4):
        os.makedirs(os.path.join(c.dir, "E0"))
        put("E0/lib.libsonnet", '{from: "E0"}')
        c.envpath.append(os.path.join(c.dir, "E0"))
    if r.chance(0.3):
        put("lib.libsonnet", '{from: "cwd"}')
    c.search = c.jflags[::-1] + c.envpath       # model: C07_cli_path_order
    has_lib = os.path.exists(os.path.join(c.dir, "lib.libsonnet")) or any(
        os.path.exists(os.path.join(p, "lib.libsonnet")) for p in c.search)
    # ext vars / tlas in the four flavours
    c.ext = {"str": {}, "code": {}, "str_file": {}, "code_file": {}}
    c.tla = {"str": {}, "code": {}, "str_file": {}, "code_file": {}}
    vals = ["v", "x y", "é", "", "1", "a=b"]
    codes = ["1 + 1", '"s" + "t"', "[1, 2]", "{k: 1}", "null", "std.length('abc')"]
    for kind, store, pref in (("ext", c.ext, "e"), ("tla", c.tla, "t")):
        for j in range(1 + r.below(3) if targeted else r.below(4)):
            name = f"{pref}{j}"
            fl = r.choice(["str", "code", "str_file", "code_file", "str_file", "code_file"] if targeted
                          else ["str", "code", "str_file", "code_file"])
            if fl == "str":
                store[fl][name] = r.choice(vals)
            elif fl == "code":
                store[fl][name] = r.choice(codes + ['error "boom"'] if r.chance(0.1) else codes)
            elif fl == "str_file":
                store[fl][name] = put(f"data/{name}.txt", r.choice(vals) + "\n")
            else:
                store[fl][name] = put(f"data/{name}.jsonnet", r.choice(codes))
        if targeted and r.chance(0.6):
            # the same NAME once more in another flavour: C15_cli_*_repeated_name_last_wins says which one counts
            name = f"{pref}0"
            have = [fl for fl in FLAVOURS if name in store[fl]]
            fl = r.choice([f for f in FLAVOURS if f not in have])
            if fl == "str":
                store[fl][name] = "dup"
            elif fl == "code":
                store[fl][name] = '"dup" + "code"'
            elif fl == "str_file":
                store[fl][name] = put(f"data/{name}.dup.txt", "dupfile\n")
            else:
                store[fl][name] = put(f"data/{name}.dup.jsonnet", "{dup: true}")
    if not targeted and r.chance(0.08):
        c.tla["str"]["unknown_tla"] = "x"        # error: unknown parameter
    enames = sorted({n for fl in c.ext.values() for n in fl})
    tnames = sorted({n for fl in c.tla.values() for n in fl if n != "unknown_tla"})
    fields = [f"{n}: std.extVar({jstr(n)})" for n in enames] + [f"{n}: {n}" for n in tnames]
    if has_lib and (targeted or r.chance(0.8)):
        fields.append('lib: (import "lib.libsonnet").from')
    if r.chance(0.1):
        fields.append('missing: std.extVar("nope")')
    if r.chance(0.08):
        fields.append('bad: error "E"')
    obj = "{" + ", ".join(fields) + "}"
    # output mode decides the shape of the result
    mode = r.choice(["default", "default", "pad", "S", "y", "f-json", "f-yaml", "f-toml", "f-string", "f-ini", "f-xml",
                     "m", "o", "y-f-json"] if not targeted else
                    ["default", "y", "f-json", "f-yaml", "f-toml", "f-yaml", "f-toml", "y-f-json", "S", "f-string"])
    c.mode = mode
    c.format, c.string, c.ystream, c.padding = None, False, False, None
    if mode == "pad":
        c.padding = r.choice([0, 1, 2, 4, 7])
        body = obj
    elif mode == "S":
        c.string = True
        body = f"std.toString({obj})" if r.chance(0.85) else obj
    elif mode in ("y", "y-f-json"):
        c.ystream = True
        if mode == "y-f-json":
            c.format = "FJson"
        body = f"[{obj}, 1, \"s\"]" if r.chance(0.85) else obj
    elif mode.startswith("f-"):
        c.format = {"json": "FJson", "yaml": "FYaml", "toml": "FToml", "string": "FString", "ini": "FIni",
                    "xml": "FXml"}[mode[2:]]
        if r.chance(0.2 if targeted else 0.5):
            c.padding = r.choice([0, 1, 3, 4])
        if c.format == "FIni":
            body = f"{{main: {{a: 1, s: \"x\"}}, sections: {{sec: {obj} + {{arr: [1, 2]}}}}}}"
        elif c.format == "FXml":
            body = f'["root", {{id: "1"}}, ["c", std.toString({obj})], "text"]'
        elif c.format == "FToml":
            body = f"{{top: 1, tbl: std.prune({obj}) + {{arr: [1, 2], s: \"q\"}}}}"
        else:
            body = obj
    elif mode == "m":
        body = "{" + ", ".join(f'"f{i}.json": {obj}' for i in range(1 + r.below(3))) + "}" if r.chance(0.85) else "[1]"
    else:
        body = obj
    code = f"function({', '.join(tnames)}) {body}" if tnames or c.tla["str"].get("unknown_tla") else body
    c.max_stack = r.choice([None, None, None, 30, 600])
    if c.max_stack and r.chance(0.5):
        code = f"local f(n) = if n == 0 then 0 else 1 + f(n - 1); local depth = f(100); {code}"
    c.code = code
    c.as_file = r.chance(0.5)
    if c.as_file:
        c.entry = put("main.jsonnet", code)
    return c


def cli_args(c):
    a = []
    for p in c.jflags:
        a += ["-J", p]
    for fl, flag in (("str", "--ext-str"), ("code", "--ext-code"), ("str_file", "--ext-str-file"), ("code_file", "--ext-code-file")):
        for n, v in c.ext[fl].items():
            a += [flag, f"{n}={v}"]
    for fl, flag in (("str", "--tla-str"), ("code", "--tla-code"), ("str_file", "--tla-str-file"), ("code_file", "--tla-code-file")):
        for n, v in c.tla[fl].items():
            a += [flag, f"{n}={v}"]
    if c.string:
        a.append("-S")
    if c.ystream:
        a.append("-y")
    if c.format:
        a += ["-f", FMT_FLAG[c.format]]
    if c.padding is not None:
        a += ["--line-padding", str(c.padding)]
    if c.max_stack:
        a += ["--max-stack", str(c.max_stack)]
    if c.mode == "m":
        a += ["-m", os.path.join(c.dir, "out")]
        os.makedirs(os.path.join(c.dir, "out"), exist_ok=True)
    if c.mode == "o":
        a += ["-o", os.path.join(c.dir, "out.json")]
    if c.as_file:
        a.append("main.jsonnet")
    else:
        a += ["-e", c.code]
    return a


def lib_request(c, writer):
    rq = {"code": "main.jsonnet" if c.as_file else c.code, "jpath": c.search,
          "out": ("multi=" if c.mode == "m" else "writer=") + writer,
          "max_stack": c.max_stack or 512, "name": "<cmdline>"}
    if c.as_file:
        rq["embed"] = "entry_file"
    ext, tla = effective(c.ext), effective(c.tla)
    for fl in ("str", "code", "str_file", "code_file"):
        if ext[fl]:
            rq["ext_" + fl] = ext[fl]
    tl = False
    for fl in ("str", "code", "str_file", "code_file"):
        if tla[fl]:
            rq["tla_" + fl] = tla[fl]
            tl = True
    if not tl:
        rq["tla_str"] = {}
    return rq


def hexs(s):
    return binascii.hexlify(s.encode("utf-8")).decode()


def capi_script(c):
    """the same settings through the C API (no file flavours, no writer choice there)"""
    lines = ["reset"]
    for n, v in c.ext["str"].items():
        lines.append(f"ext_var {hexs(n)} {hexs(v)}")
    for n, v in c.ext["code"].items():
        lines.append(f"ext_code {hexs(n)} {hexs(v)}")
    for n, v in c.tla["str"].items():
        lines.append(f"tla_var {hexs(n)} {hexs(v)}")
    for n, v in c.tla["code"].items():
        lines.append(f"tla_code {hexs(n)} {hexs(v)}")
    for p in c.search[::-1]:           # last added wins: add in reverse search order
        lines.append(f"jpath {hexs(p)}")
    lines.append(f"max_stack {c.max_stack or 200}")
    return lines


def capi_ok(c):
    return not c.targeted and not (c.ext["str_file"] or c.ext["code_file"] or c.tla["str_file"] or c.tla["code_file"])


def decode_frames(buf):
    """the documented C consumer loop"""
    out, i = [], 0
    while i < len(buf) and buf[i] != 0:
        j = buf.index(0, i)
        out.append(buf[i:j])
        i = j + 1
    return out


def cli_vs_lib(run, cfgs, bindir, binary, failures):
    """every configuration through the `jrsonnet` executable and through the library API driven by the SPEC's
    reading of the command line; appends to failures"""
    # ---- model: writer selection for every configuration (Coq `select`)
    sel = core.coq_eval(C15_IMPORTS, [
        f"select {'None' if c.format is None else '(Some ' + c.format + ')'} {'true' if c.string else 'false'} "
        f"{'true' if c.ystream else 'false'} {'None' if c.padding is None else '(Some ' + str(c.padding) + ')'}"
        for c in cfgs])
    writers = [writer_spec(t) for t in sel]
    # ---- the executable
    from concurrent.futures import ThreadPoolExecutor
    exe = os.path.join(bindir, "jrsonnet")

    def run_cli(c):
        env = dict(os.environ)
        env.pop("JSONNET_PATH", None)
        if c.envpath:
            env["JSONNET_PATH"] = os.pathsep.join(c.envpath)
        pr = subprocess.run([exe] + cli_args(c), cwd=c.dir, env=env, stdout=subprocess.PIPE, stderr=subprocess.PIPE,
                            timeout=120)
        return pr.returncode, pr.stdout.decode("utf-8", "replace"), pr.stderr.decode("utf-8", "replace")
    with ThreadPoolExecutor(max_workers=core.NPROC) as ex:
        cli = list(ex.map(run_cli, cfgs))
    run.log("executable runs done")
    # ---- the library, driven by the model's configuration record (one process per cwd)
    lib = []
    with ThreadPoolExecutor(max_workers=core.NPROC) as ex:
        lib = list(ex.map(lambda cw: core.run_harness(binary, "eval", [lib_request(cw[0], cw[1])], cwd=cw[0].dir,
                                                      shards=1)[0], zip(cfgs, writers)))
    run.log("library runs done")
    for c, w, (rc, so, se), lo in zip(cfgs, writers, cli, lib):
        run.note_case(json.dumps(cli_args(c)), True)
        run.count("mode:" + c.mode)
        case = {"cli": ["jrsonnet"] + cli_args(c), "cwd_files": sorted(os.listdir(c.dir)), "writer": w,
                "JSONNET_PATH": c.envpath, "library_request": lib_request(c, w)}

        def fail(what, exp, got):
            failures.append({"case": case, "summary": f"C15 {what}: jrsonnet {' '.join(cli_args(c))[:200]}",
                             "expected": exp, "got": got})
        if "panic" in lo or "abort" in lo:
            fail("library API crashed", "value or error", lo)
            continue
        if "err" in lo or (isinstance(lo.get("ok"), dict) and "notobj" in lo["ok"]):
            run.count("outcome:error")
            if rc == 0:
                fail("the library reports an error but the executable exits 0", lo, {"rc": rc, "stdout": so[:300]})
            elif so != "" and c.mode != "m":
                fail("error exit with output on stdout", "", so[:300])
            elif se.strip() == "":
                fail("error exit without a message on stderr", "message", se)
            continue
        run.count("outcome:value")
        if rc != 0:
            fail("the library computes a value but the executable fails", lo, {"rc": rc, "stderr": se[:400]})
            continue
        if c.mode == "m":
            files = lo["ok"]
            if not isinstance(files, list):
                fail("-m on a non-object did not fail", "error", lo)
                continue
            listed = [ln for ln in so.split("\n") if ln]
            exp_list = [os.path.join(c.dir, "out", k) for k, _t, _nl in files]
            if listed != exp_list:
                fail("-m lists different files", exp_list, listed)
            for k, text, nl in files:
                pth = os.path.join(c.dir, "out", k)
                got = open(pth, encoding="utf-8").read() if os.path.exists(pth) else None
                if got != text + ("\n" if nl else ""):
                    fail(f"-m file {k} differs from the library's manifestation", text, got)
        elif c.mode == "o":
            pth = os.path.join(c.dir, "out.json")
            got = open(pth, encoding="utf-8").read() if os.path.exists(pth) else None
            if got != lo["ok"] + "\n" or so != "":
                fail("-o file differs from the library's manifestation", lo["ok"], {"file": got, "stdout": so})
        else:
            exp = lo["ok"] + "\n" if lo["ok"] != "" else ""
            if so != exp:
                fail("stdout differs from the library's manifestation", exp[:600], so[:600])
            elif len(run.samples) < 3 and c.mode not in ("default",):
                run.samples.append({"cli": cli_args(c), "stdout": so[:200]})


def check(run, terrs):
    proofs_ok, detail = core.check_property_file(run, "C15")
    binary, err = core.build_harness(run)
    bindir, berr = core.build_repo_bins(run)
    if not binary or not bindir:
        run.obligation("build", False, err or berr)
        return core.conclude(run, False, err or berr, [], [])
    drv = os.path.join(core.CACHE, "c_driver")
    p = subprocess.run(["gcc", "-O1", "-o", drv, os.path.join(core.HARNESS_DIR, "c_driver.c"), "-L" + bindir, "-ljsonnet",
                        "-Wl,-rpath," + bindir], stdout=subprocess.PIPE, stderr=subprocess.STDOUT, text=True)
    if p.returncode != 0:
        run.obligation("c_driver.build", False, p.stdout[-800:])
        return core.conclude(run, False, p.stdout, [], [])
    failures, diffs = [], []
    root = tempfile.mkdtemp(prefix="c15-", dir=core.CACHE)
    try:
        r = run.rng.fork("cfg")
        n = 4000 if run.tier == "thorough" else 260
        cfgs = [gen_config(r, i, root) for i in range(n)]
        rt = run.rng.fork("cfg-targeted")
        cfgs += [gen_config(rt, i, root, targeted=True) for i in range(400 if run.tier == "thorough" else 40)]
        cli_vs_lib(run, cfgs, bindir, binary, failures)
        # ---- the C API: same program and settings, text + error flag
        script, plan = [], []
        for c in cfgs:
            if not capi_ok(c) or c.mode not in ("default", "S", "m", "y", "o", "pad"):
                continue
            kind = "plain"
            if c.mode == "m":
                kind = "multi"
            elif c.mode == "y":
                kind = "stream"
            sc = capi_script(c)
            if c.mode == "S":
                sc.append("string_output 1")
            else:
                sc.append("string_output 0")
            arg = f"{hexs(c.entry)}" if c.as_file else f"{hexs('<cmdline>')} {hexs(c.code)}"
            base = "file" if c.as_file else "snippet"
            sc.append({"plain": base, "multi": base + "_multi", "stream": base + "_stream"}[kind] + " " + arg)
            script.append((c, kind, sc))
        cres = []
        for c, kind, sc in script:
            env = dict(os.environ)
            env.pop("JSONNET_PATH", None)
            pr = subprocess.run([drv], input="\n".join(sc) + "\n", cwd=c.dir, env=env, stdout=subprocess.PIPE,
                                stderr=subprocess.PIPE, text=True, timeout=120)
            ans = [ln for ln in pr.stdout.split("\n") if ln.startswith("R ")]
            cres.append((pr.returncode, ans[-1] if ans else None, pr.stderr[-300:]))
        lreqs = []
        for c, kind, sc in script:
            rq = lib_request(c, "json:4")
            rq["jpath"] = [p for p in c.search if p not in c.envpath]
            rq["max_stack"] = c.max_stack or 200
            rq["out"] = {"plain": "writer=tostring" if c.mode == "S" else "writer=json:4",
                         "multi": "multi=tostring" if False else "multi=json:4",
                         "stream": "none"}[kind]
            if kind == "stream":
                rq["out"] = "writer=ystream(json:4)"    # same domain: an array, each element manifestable
            lreqs.append(rq)
        with ThreadPoolExecutor(max_workers=core.NPROC) as ex:
            lres = list(ex.map(lambda cq: core.run_harness(binary, "eval", [cq[1]], cwd=cq[0][0].dir, shards=1)[0],
                               zip(script, lreqs)))
        frames_for_coq = []
        for (c, kind, sc), (rc, ans, cerr), lo, rq in zip(script, cres, lres, lreqs):
            if getattr(c, "envpath", None):
                # libjsonnet has no JSONNET_PATH: the script hands it every search directory as a jpath while the
                # library request above leaves the environment entries out - not the same configuration; not judged
                run.count("capi:skipped-envpath-configuration")
                continue
            run.note_case("capi:" + json.dumps(sc), True)
            run.count("capi:" + kind)
            case = {"c_api_script": sc, "cwd": "generated", "library_request": rq}
            if ans is None:
                failures.append({"case": case, "summary": f"C15 libjsonnet crashed (rc={rc}): {cerr[-120:]}",
                                 "expected": "an answer", "got": cerr})
                continue
            _, eflag, hx = ans.split(" ")
            buf = binascii.unhexlify(hx)
            # same domain as the C entry point: multi output of a non-object / stream output of a non-array is an
            # error there ("expected object as multi output"); the harness signals it as {"ok": {"notobj"|"notarr"}}
            lerr = "err" in lo or (isinstance(lo.get("ok"), dict) and ("notobj" in lo["ok"] or "notarr" in lo["ok"]))
            if (eflag == "1") != lerr:
                failures.append({"case": case, "summary": "C15 libjsonnet and the library API disagree on the error flag: "
                                 + sc[-1][:80], "expected": lo, "got": {"error": eflag, "text": buf[:300].decode("utf-8", "replace")}})
                continue
            if lerr:
                continue
            if kind == "plain":
                if buf.decode("utf-8") != lo["ok"]:
                    failures.append({"case": case, "summary": "C15 libjsonnet returns different text than the library API",
                                     "expected": lo["ok"][:500], "got": buf[:500].decode("utf-8", "replace")})
            elif kind == "multi":
                fr = decode_frames(buf)
                got = [(fr[i].decode(), fr[i + 1].decode()) for i in range(0, len(fr) - 1, 2)]
                exp = [(k, t) for k, t, _nl in lo["ok"]] if isinstance(lo["ok"], list) else None
                if got != exp:
                    failures.append({"case": case, "summary": "C15 libjsonnet multi output differs from the library API",
                                     "expected": exp, "got": got})
                elif exp and len(frames_for_coq) < 40 and all(k and "\0" not in k + t for k, t in exp):
                    frames_for_coq.append((exp, buf))
            else:
                pass  # stream items are JSON texts of the elements; covered by framing below when objects
        # the framing model against the real buffers
        if frames_for_coq:
            def cb(s):
                return "[" + "; ".join(str(b) for b in s.encode("utf-8")) + "]%N"
            exprs = ["encode [" + "; ".join(f"({cb(k)}, {cb(t)})" for k, t in exp) + "]" for exp, _ in frames_for_coq]
            enc = core.coq_eval(C15_IMPORTS, exprs)
            for (exp, buf), e in zip(frames_for_coq, enc):
                if list(buf) != e:
                    diffs.append({"case": {"pairs": exp}, "model": str(e)[:200], "code": list(buf)[:80]})
        run.log("C API runs done")
        # ---- jrsonnet-deps against the Coq walk
        failures += deps_check(run, bindir, root)
    finally:
        shutil.rmtree(root, ignore_errors=True)
    run.trusted = ["Coq 8.16.1 kernel incl. vm_compute (no axioms)", "clap's argv parsing and the dynamic linker",
                   "jrharness (library API), harness/c_driver.c, gcc", "path order theorem imported from C07"]
    run.assumptions = ["the model starts at the parsed option structs; file-flavoured variables are not offered by the C API "
                       "and are compared only between executable and library"]
    return core.conclude(run, proofs_ok, detail, failures, diffs,
                         search=(lambda: search(run, bindir, binary)) if run.tier == "quick" else None,
                         level="proof", rule=RULE)


SRC_OBLIGATIONS = ("C15.C15_cli_", "translator.GenCli")


def search(run, bindir, binary):
    """an obligation broke.  When it is one of the source-tie obligations (the functions translated from
    crates/jrsonnet-cli no longer equal the documented behaviour, or could not be translated), probe the real
    executable against the library API on configurations dense in what those functions decide: file flavours, NAMEs
    given twice, several -J directories + JSONNET_PATH all holding the library, default paddings of every format."""
    src = [n for n, ok, _ in run.obligations if not ok and n.startswith(SRC_OBLIGATIONS)]
    if not src:
        return []
    run.log(f"search: source-tie obligation(s) broke ({', '.join(src)[:200]}): targeted option combinations")
    failures = []
    root = tempfile.mkdtemp(prefix="c15s-", dir=core.CACHE)
    try:
        r = run.rng.fork("cfg-search")
        cfgs = [gen_config(r, i, root, targeted=True) for i in range(400)]
        cli_vs_lib(run, cfgs, bindir, binary, failures)
    finally:
        shutil.rmtree(root, ignore_errors=True)
    return failures


def deps_check(run, bindir, root):
    failures = []
    r = run.rng.fork("deps")
    exe = os.path.join(bindir, "jrsonnet-deps")
    n = 400 if run.tier == "thorough" else 60
    graphs = []
    for gi in range(n):
        k = 2 + r.below(5)
        edges = {}
        for a in range(k):
            es = []
            for _ in range(r.below(4)):
                b = r.below(k)
                es.append((b, r.choice([True, True, False])))
            edges[a] = es
        if gi % 7 == 0 and k >= 3:
            edges[0] = [(1, False), (1, True)] + edges[0]     # importstr before import of the same file
            edges[1] = [(2, True)] + edges[1]
        graphs.append((k, edges))
    exprs = []
    for k, edges in graphs:
        g = "(fun n => match n with " + " | ".join(
            f"{a} => [" + "; ".join(f"({b}, {'true' if imp else 'false'})" for b, imp in es) + "]" for a, es in edges.items()
        ) + " | _ => [] end)"
        exprs.append(f"deps_of 40 {g} 0")
    model = core.coq_eval(C15_IMPORTS, exprs)
    for gi, ((k, edges), m) in enumerate(zip(graphs, model)):
        d = os.path.join(root, f"deps{gi}")
        os.makedirs(d)
        for a in range(k):
            parts = []
            for j, (b, imp) in enumerate(edges[a]):
                kw = "import" if imp else ("importstr" if j % 2 == 0 else "importbin")
                parts.append(f'x{j}: {kw} "f{b}.jsonnet"' if imp else f'x{j}: std.length({kw} "f{b}.jsonnet")')
            with open(os.path.join(d, f"f{a}.jsonnet"), "w") as f:
                f.write("{" + ", ".join(parts) + "}")
        pr = subprocess.run([exe, "f0.jsonnet"], cwd=d, stdout=subprocess.PIPE, stderr=subprocess.PIPE, text=True, timeout=60)
        run.note_case("deps:" + json.dumps(edges, sort_keys=True), True)
        run.count("deps")
        if not (isinstance(m, core.App) and m.name == "Some"):
            run.count("deps:model_out_of_fuel")
            continue
        listed = sorted(int(x) for x in m.args[0][0])
        exp = sorted(os.path.realpath(os.path.join(d, f"f{b}.jsonnet")) for b in listed)
        got = sorted(ln for ln in pr.stdout.split("\n") if ln)
        if pr.returncode != 0 or got != exp:
            failures.append({"case": {"graph": {str(a): es for a, es in edges.items()}, "root": "f0.jsonnet"},
                             "summary": f"C15 jrsonnet-deps lists {len(got)} files, the statically reachable set has {len(exp)}",
                             "expected": [os.path.basename(x) for x in exp], "got": [os.path.basename(x) for x in got] or pr.stderr[-200:]})
    return failures


def replay(run, data):
    print(json.dumps(data.get("failure", data), indent=1)[:4000])
    return 0


RULE = ("configurations: 0-3 ext vars and 0-3 TLAs each in one of {str, code, str-file, code-file}, 0-3 -J library "
        "directories + optional JSONNET_PATH with a shadowed lib.libsonnet, entry as file or -e, output mode in {default, "
        "--line-padding n, -S, -y, -f json|yaml|toml|string|ini|xml-jsonml, -m, -o, -y -f json}, --max-stack; ~8% of "
        "programs fail; each run by the executable and by the library API from the model's configuration record, and "
        "(without file flavours) by libjsonnet.so; + random import graphs of 2-6 files for jrsonnet-deps; every "
        "configuration distinct and non-trivial")
