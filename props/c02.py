"""C02 — object inheritance, late binding and visibility follow the object model.

Theorems: coq/theories/C02 (the transliterated loops of obj/mod.rs — skip counter, add stack,
omitted_until — refine the right-to-left layer recursion for EVERY well-formed layer list, name
and starting layer; visibility, `in`, objectHas*, objectFields* agree; objectRemoveKey spec;
the chain-program interpreter over the impl loops equals the one over the spec: C02_eval_refines).
Correspondence: chain programs (object literals, +, extension, std.objectRemoveKey, self/super/$
reads, +:, ::, :::, object locals, asserts, nested objects) are rendered to Jsonnet and to a Gallina
term; the real code is probed through `jrharness eval` (manifestation, every field read,
std.objectFields/All, objectHas/All, `in`, == against the flattened literal) and compared with
[run_probe spec_ops] (SPEC) and [run_probe impl_ops] (IMPL-MODEL), both evaluated by coqc.
"""
import json

from vlib import core

IMPORTS = ("From Coq Require Import List ZArith NArith.\nFrom JrV Require Import C02.Model.\n"
           "Import ListNotations.\nOpen Scope N_scope.\n")
PREAMBLE = "Unset Printing Records.\n"
FUEL = 30
HARNESS_TIMEOUT = 120
MODEL_TIMEOUT = 240   # seconds per coqc shard; a case that exceeds it is skipped and counted
NAMES = ["a", "b", "c"]
NS = [0, 1, 2]
VIS_JS = {"n": ":", "h": "::", "u": ":::"}
VIS_COQ = {"n": "VisNormal", "h": "VisHidden", "u": "VisUnhide"}


def nm(i):
    return NAMES[i] if i < len(NAMES) else f"n{i}"


# ------------------------------------------------------------------ program AST (python tuples)
# ("num",z) ("tag",z) ("bool",b) ("add",a,b) ("eq",a,b) ("self",up,f) ("dollar",f) ("super",f)
# ("insuper",f) ("inself",up,f) ("local",up,l) ("idx",e,f) ("obj",fields,locals,asserts)
# ("ext",base,fields,locals,asserts) ("remove",e,k) ("has",e,f,hidden)
# fields: [(name, add, vis, expr)]   locals: [(lname, expr)]   asserts: [expr]
def uses_up(e, level):
    """does e (a body at literal depth `level` below the literal in question... ) reference the self of the
    literal `level` levels out?  level counts literals entered so far (0 = body of that literal)."""
    t = e[0]
    if t in ("self", "inself"):
        return e[1] == level and level > 0
    if t in ("num", "tag", "bool", "dollar", "super", "insuper", "local"):
        return False
    if t in ("add", "eq"):
        return uses_up(e[1], level) or uses_up(e[2], level)
    if t in ("idx", "remove", "has"):
        return uses_up(e[1], level)
    if t in ("obj", "ext"):
        off = 1 if t == "obj" else 2
        fs, ls, asr = e[off], e[off + 1], e[off + 2]
        inner = any(uses_up(x[3], level + 1) for x in fs) or any(uses_up(x[1], level + 1) for x in ls) \
            or any(uses_up(x, level + 1) for x in asr)
        return inner or (t == "ext" and uses_up(e[1], level))
    raise ValueError(t)


def lit_js(fs, ls, asr, d):
    """object literal at literal depth d"""
    parts = []
    need_self = any(uses_up(x[3], 0) for x in fs) or any(uses_up(x[1], 0) for x in ls) \
        or any(uses_up(x, 0) for x in asr)
    if need_self:
        parts.append(f"local self_{d} = self")
    for ln, le in ls:
        parts.append(f"local l{d}_{ln} = {js(le, d + 1)}")
    for a in asr:
        parts.append(f"assert {js(a, d + 1)}")
    for k, add, vis, fe in fs:
        parts.append(f"{nm(k)}{'+' if add else ''}{VIS_JS[vis]} {js(fe, d + 1)}")
    return "{" + ", ".join(parts) + "}"


def js(e, d=0):
    """d = number of enclosing object literals (bodies of a top-level literal have d = 1)"""
    t = e[0]
    if t == "num":
        return str(e[1])
    if t == "tag":
        return f"[{e[1]}]"
    if t == "bool":
        return "true" if e[1] else "false"
    if t == "add":
        return f"({js(e[1], d)} + {js(e[2], d)})"
    if t == "eq":
        return f"({js(e[1], d)} == {js(e[2], d)})"
    if t == "self":
        return f"self.{nm(e[2])}" if e[1] == 0 else f"self_{d - 1 - e[1]}.{nm(e[2])}"
    if t == "dollar":
        return f"$.{nm(e[1])}"
    if t == "super":
        return f"super.{nm(e[1])}"
    if t == "insuper":
        return f"({json.dumps(nm(e[1]))} in super)"
    if t == "inself":
        return f"({json.dumps(nm(e[2]))} in " + ("self)" if e[1] == 0 else f"self_{d - 1 - e[1]})")
    if t == "local":
        return f"l{d - 1 - e[1]}_{e[2]}"
    if t == "idx":
        return f"{js(e[1], d)}.{nm(e[2])}"
    if t == "obj":
        return lit_js(e[1], e[2], e[3], d)
    if t == "ext":
        return f"{js(e[1], d)} {lit_js(e[2], e[3], e[4], d)}"
    if t == "remove":
        return f"std.objectRemoveKey({js(e[1], d)}, {json.dumps(nm(e[2]))})"
    if t == "has":
        f = json.dumps(nm(e[2]))
        if e[3]:
            return f"std.objectHasAll({js(e[1], d)}, {f})" if e[2] % 2 else f"({f} in {js(e[1], d)})"
        return f"std.objectHas({js(e[1], d)}, {f})"
    raise ValueError(t)


def cq_fields(fs):
    return "[" + "; ".join(f"({k}, ({'true' if add else 'false'}, {VIS_COQ[vis]}, {cq(fe)}))"
                           for k, add, vis, fe in fs) + "]"


def cq_body(fs, ls, asr):
    return (cq_fields(fs) + " [" + "; ".join(f"({ln}, {cq(le)})" for ln, le in ls) + "] ["
            + "; ".join(cq(a) for a in asr) + "]")


def cq(e):
    t = e[0]
    if t == "num":
        return f"(ENum ({e[1]})%Z)"
    if t == "tag":
        return f"(ETag ({e[1]})%Z)"
    if t == "bool":
        return f"(EBool {'true' if e[1] else 'false'})"
    if t == "add":
        return f"(EAdd {cq(e[1])} {cq(e[2])})"
    if t == "eq":
        return f"(EEq {cq(e[1])} {cq(e[2])})"
    if t == "self":
        return f"(ESelfF {e[1]}%nat {e[2]})"
    if t == "dollar":
        return f"(EDollarF {e[1]})"
    if t == "super":
        return f"(ESuperF {e[1]})"
    if t == "insuper":
        return f"(EInSuper {e[1]})"
    if t == "inself":
        return f"(EInSelf {e[1]}%nat {e[2]})"
    if t == "local":
        return f"(ELocal {e[1]}%nat {e[2]})"
    if t == "idx":
        return f"(EIdx {cq(e[1])} {e[2]})"
    if t == "obj":
        return f"(EObj {cq_body(e[1], e[2], e[3])})"
    if t == "ext":
        return f"(EExt {cq(e[1])} {cq_body(e[2], e[3], e[4])})"
    if t == "remove":
        return f"(ERemove {cq(e[1])} {e[2]})"
    if t == "has":
        return f"(EHas {cq(e[1])} {e[2]} {'true' if e[3] else 'false'})"
    raise ValueError(t)


def count_layers(e):
    t = e[0]
    if t == "obj":
        return 1
    if t == "ext":
        return count_layers(e[1]) + 1
    if t == "add":
        return count_layers(e[1]) + count_layers(e[2])
    if t == "remove":
        return count_layers(e[1]) + 1
    return 0


def features(e, acc):
    t = e[0]
    if t in ("obj", "ext"):
        off = 1 if t == "obj" else 2
        if t == "ext":
            acc.add("extension")
            features(e[1], acc)
        for k, add, vis, fe in e[off]:
            if add:
                acc.add("+:")
            acc.add({"n": ":", "h": "::", "u": ":::"}[vis])
            if fe[0] in ("obj", "ext"):
                acc.add("nested")
            features(fe, acc)
        for _, le in e[off + 1]:
            acc.add("local")
            features(le, acc)
        for a in e[off + 2]:
            acc.add("assert")
            features(a, acc)
    elif t in ("add", "eq"):
        features(e[1], acc)
        features(e[2], acc)
    elif t in ("idx", "has"):
        features(e[1], acc)
    elif t == "remove":
        acc.add("removeKey")
        features(e[1], acc)
    elif t in ("self", "dollar", "super", "insuper", "inself"):
        acc.add(t)


# ------------------------------------------------------------------ generators
def F(k, e, add=False, vis="n"):
    return (k, add, vis, e)


def layer_kinds(t):
    """the single-feature layer catalogue; t = a tag unique to the layer position.
    Each entry: ("lit", fields, locals, asserts) or ("rm", name)."""
    A, Bn, C = 0, 1, 2
    T = ("tag", t)
    return [
        ("lit", [F(A, T)], [], []),
        ("lit", [F(A, T, True)], [], []),
        ("lit", [F(A, T, False, "h")], [], []),
        ("lit", [F(A, T, False, "u")], [], []),
        ("lit", [F(A, T, True, "h")], [], []),
        ("lit", [F(A, T, True, "u")], [], []),
        ("lit", [F(A, ("self", 0, Bn))], [], []),
        ("lit", [F(A, ("add", ("super", A), T))], [], []),
        ("lit", [F(A, ("super", A), True)], [], []),
        ("lit", [F(Bn, ("self", 0, A))], [], []),
        ("lit", [F(Bn, ("super", A))], [], []),
        ("lit", [F(Bn, ("dollar", A), False, "h")], [], []),
        ("lit", [F(Bn, ("insuper", A))], [], []),
        ("lit", [F(Bn, ("inself", 0, A), True)], [], []),
        ("lit", [F(Bn, ("local", 0, 0))], [(0, ("self", 0, A))], []),
        ("lit", [F(Bn, ("local", 0, 0), False, "h")], [(0, ("add", ("super", A), T))], []),
        ("lit", [], [], [("inself", 0, A)]),
        ("lit", [F(C, T)], [], [("eq", ("self", 0, A), ("tag", 0))]),
        ("lit", [], [], [("insuper", A)]),
        ("lit", [F(A, ("obj", [F(A, T), F(Bn, ("dollar", Bn))], [], []))], [], []),
        ("lit", [F(A, ("obj", [F(Bn, ("self", 1, Bn), True), F(C, ("super", A), False, "h")], [], []), True)], [], []),
        ("lit", [F(Bn, T), F(A, ("self", 0, Bn), True)], [], []),
        ("lit", [F(A, T, False, "u"), F(Bn, T, True, "h")], [], []),
        ("lit", [], [], []),
        ("lit", [F(Bn, ("idx", ("ext", ("obj", [F(A, T)], [], []), [F(A, ("super", A), True), F(C, ("self", 1, A))], [], []), C))], [], []),
        ("rm", A),
        ("rm", Bn),
    ]


def build_chain(steps, joins):
    """steps: list of kinds; joins[i] in {"+", "ext"} for lit steps after the first"""
    cur = None
    for i, st in enumerate(steps):
        if st[0] == "rm":
            cur = ("remove", cur if cur is not None else ("obj", [], [], []), st[1])
        else:
            lit = ("obj", st[1], st[2], st[3])
            if cur is None:
                cur = lit
            elif joins[i] == "ext":
                cur = ("ext", cur, st[1], st[2], st[3])
            else:
                cur = ("add", cur, lit)
    return cur


def build_right(steps):
    """A + (B + C ...) for all-literal steps"""
    lits = [("obj", s[1], s[2], s[3]) for s in steps]
    cur = lits[-1]
    for x in reversed(lits[:-1]):
        cur = ("add", x, cur)
    return cur


class Gen:
    def __init__(self, rng):
        self.rng = rng
        self.tag = 100

    def newtag(self):
        self.tag += 1
        return self.tag

    def ref(self, litdepth, haslocals):
        """a leaf that reads the object model"""
        r = self.rng.below(100)
        nme = self.rng.below(3)
        if r < 25:
            return ("self", 0, nme)
        if r < 50:
            return ("super", nme)
        if r < 62:
            return ("dollar", nme)
        if r < 74:
            return ("insuper", nme)
        if r < 82:
            return ("inself", 0, nme)
        if r < 90 and haslocals:
            return ("local", 0, self.rng.below(haslocals))
        if litdepth > 0:
            up = self.rng.randint(1, litdepth)
            return ("self", up, nme) if self.rng.chance(0.8) else ("inself", up, nme)
        return ("super", nme)

    def plain(self):
        return ("num", self.rng.below(5)) if self.rng.chance(0.15) else ("tag", self.newtag())

    def body(self, depth, litdepth, haslocals, budget):
        """member body inside a literal whose own depth is litdepth (0 = top-level literal).
        At most ONE reference per body: the model has no value cache, so several references per body
        make its running time exponential in the reference depth."""
        r = self.rng.below(100)
        if budget <= 0 or r < 30:
            return self.plain()
        if r < 55:
            return self.ref(litdepth, haslocals)
        if r < 75:
            a, b = self.ref(litdepth, haslocals), self.plain()
            return ("add", a, b) if self.rng.chance(0.6) else ("add", b, a)
        if r < 80:
            return ("add", self.plain(), self.plain())
        if depth > 0:
            o = self.obj(depth - 1, litdepth + 1, self.rng.randint(1, 3), nested=True)
            if self.rng.chance(0.3):
                return ("idx", o, self.rng.below(3))
            if self.rng.chance(0.15):
                return ("has", o, self.rng.below(3), self.rng.chance(0.5))
            return o
        return self.plain()

    def literal(self, depth, litdepth, nested):
        nloc = self.rng.choice([0, 0, 0, 1, 2])
        locs = []
        for i in range(nloc):
            locs.append((i, self.body(depth, litdepth, i, 1)))
        nf = self.rng.choice([1, 1, 1, 2, 2, 3, 0])
        names = [0, 1, 2]
        self.rng.shuffle(names)
        fs = []
        for k in sorted(names[:nf]):
            add = self.rng.chance(0.4)
            vis = self.rng.choice(["n", "n", "n", "h", "u"])
            fs.append((k, add, vis, self.body(depth, litdepth, nloc, 2)))
        asr = []
        if not nested and self.rng.chance(0.15):
            k = self.rng.below(3)
            asr.append(self.rng.choice([("inself", 0, k), ("insuper", k), ("bool", True),
                                        ("eq", ("self", 0, k), ("tag", self.tag)),
                                        ("eq", ("self", 0, k), ("num", 1))]))
        return fs, locs, asr

    def obj(self, depth, litdepth, nlayers, nested=False):
        cur = None
        n = 0
        while n < nlayers:
            r = self.rng.below(100)
            if cur is not None and r < 15:
                cur = ("remove", cur, self.rng.below(3))
                n += 1
                continue
            if cur is not None and r < 27 and nlayers - n >= 2:
                k = self.rng.randint(2, nlayers - n)
                cur = ("add", cur, self.obj(depth, litdepth, k, nested))
                n += k
                continue
            fs, locs, asr = self.literal(depth, litdepth, nested)
            if cur is None:
                cur = ("obj", fs, locs, asr)
            elif self.rng.chance(0.4):
                cur = ("ext", cur, fs, locs, asr)
            else:
                cur = ("add", cur, ("obj", fs, locs, asr))
            n += 1
        return cur


def enumerate_cases(run):
    thorough = run.tier == "thorough"
    rng = run.rng.fork("gen")
    cases = []
    nk = len(layer_kinds(0))
    # exhaustive 1- and 2-step chains, both join forms
    for i in range(nk):
        cases.append(build_chain([layer_kinds(1)[i]], [None]))
    for i in range(nk):
        for j in range(nk):
            steps = [layer_kinds(1)[i], layer_kinds(2)[j]]
            cases.append(build_chain(steps, [None, "+"]))
            if steps[1][0] == "lit":
                cases.append(build_chain(steps, [None, "ext"]))
    # 3-step chains: exhaustive (thorough) or a seeded sample (quick)
    triples = [(i, j, k) for i in range(nk) for j in range(nk) for k in range(nk)]
    if not thorough:
        rng.shuffle(triples)
        triples = triples[:900]
    for (i, j, k) in triples:
        steps = [layer_kinds(1)[i], layer_kinds(2)[j], layer_kinds(3)[k]]
        mode = (i + 2 * j + 3 * k) % 4 if not thorough else None
        variants = [mode] if mode is not None else [0, 1, 2, 3]
        for m in variants:
            if m == 3:
                if all(s[0] == "lit" for s in steps):
                    cases.append(build_right(steps))
                else:
                    cases.append(build_chain(steps, [None, "ext", "+"]))
            else:
                cases.append(build_chain(steps, [None, "+" if m in (0, 1) else "ext", "+" if m in (0, 2) else "ext"]))
    # removal-focused family: deeper removal nests
    A, Bn = 0, 1
    base = lambda t, **kw: ("obj", [F(A, ("tag", t), **kw)], [], [])  # noqa
    for add1 in (False, True):
        for add2 in (False, True):
            for vis in ("n", "h", "u"):
                o1 = base(1, add=add1, vis=vis)
                o2 = ("obj", [F(A, ("tag", 2), add2), F(Bn, ("super", A))], [], [])
                cases.append(("add", ("remove", ("add", ("remove", o1, A), o2), A), base(3, add=True)))
                cases.append(("remove", ("add", o1, ("remove", o2, A)), Bn))
                cases.append(("add", o1, ("add", ("remove", ("add", o2, base(3, add=True)), A), base(4, add=add2))))
                cases.append(("remove", ("remove", ("add", o1, o2), A), A))
                # the same key removed twice, the inner removal to the right of layers that define the key
                x1 = ("remove", ("add", o1, ("remove", o2, A)), A)
                x2 = ("remove", ("add", ("add", o1, base(7)), ("add", ("remove", o2, A), ("obj", [F(2, ("tag", 8))], [], []))), A)
                for x in (x1, x2):
                    cases.append(x)
                    cases.append(("add", x, base(9, add=True)))
                    cases.append(("add", x, ("obj", [F(Bn, ("insuper", A)), F(2, ("inself", 0, A))], [], [])))
                    cases.append(("remove", ("add", base(3), x), A))
                cases.append(("add", ("add", o1, ("remove", o2, A)), ("obj", [F(Bn, ("self", 0, A), True)], [], [])))
                cases.append(("ext", ("remove", ("ext", o1, [F(A, ("tag", 5), add2, vis)], [], []), A),
                              [F(A, ("tag", 6), add1)], [], []))
    # random deeper chains with multi-member layers and nested objects
    g = Gen(rng.fork("rand"))
    nrand = 40000 if thorough else 900
    for k in range(nrand):
        cases.append(g.obj(2, 0, 1 + k % 6))
    return cases


# ------------------------------------------------------------------ model results -> python
def res_py(t, f):
    """Coq `res` term -> ("ok", value) | ("err", kind) | ("fuel",)"""
    if t == "OutOfFuel":
        return ("fuel",)
    if isinstance(t, core.App) and t.name == "Ok":
        return ("ok", f(t.args[0]))
    if isinstance(t, core.App) and t.name == "Err":
        return ("err", t.args[0])
    raise ValueError(f"bad res term {t!r}")


def tree_py(t):
    if isinstance(t, core.App):
        if t.name == "TNum":
            return int(t.args[0])
        if t.name == "TBool":
            return bool(t.args[0])
        if t.name == "TArr":
            return [int(x) for x in t.args[0]]
        if t.name == "TObj":
            return {nm(int(k)): tree_py(v) for k, v in t.args[0]}
    raise ValueError(f"bad tree {t!r}")


def probe_py(t):
    assert isinstance(t, core.App) and t.name == "Probe", t
    man, reads, fields, fields_all, has, has_all, nl = t.args
    return {
        "manifest": res_py(man, tree_py),
        "reads": [res_py(r, tree_py) for r in reads],
        "fields": [nm(int(x)) for x in fields],
        "fields_all": [nm(int(x)) for x in fields_all],
        "has": [bool(x) for x in has],
        "has_all": [bool(x) for x in has_all],
        "layers": int(nl),
    }


def tree_js(v):
    if isinstance(v, bool):
        return "true" if v else "false"
    if isinstance(v, int):
        return str(v)
    if isinstance(v, list):
        return "[" + ", ".join(str(x) for x in v) + "]"
    if isinstance(v, dict):
        return "{" + ", ".join(f"{k}: {tree_js(x)}" for k, x in v.items()) + "}"
    raise ValueError(v)


def perturb(tree):
    """literals that must NOT be equal to the object"""
    outs = []
    keys = list(tree)
    if keys:
        d = dict(tree)
        del d[keys[0]]
        outs.append(d)
        d = dict(tree)
        v = d[keys[-1]]
        d[keys[-1]] = (not v) if isinstance(v, bool) else (v + 1) if isinstance(v, int) else \
            (v + [0]) if isinstance(v, list) else dict(v, zz=1)
        outs.append(d)
    d = dict(tree)
    d["zz"] = 1
    outs.append(d)
    return outs


def code_outcome(o):
    """harness answer (out=minify) -> ("ok", python value) | ("err", kind) | ("bad", o)"""
    if "ok" in o:
        try:
            return ("ok", json.loads(o["ok"]) if isinstance(o["ok"], str) else o["ok"])
        except ValueError:
            return ("bad", o)
    if "err" in o:
        return ("err", o["err"])
    return ("bad", o)


def same_value(model_v, code_v):
    """model tree (ints, bools, int lists, dicts) vs json.loads of the manifested text"""
    if isinstance(model_v, bool) or isinstance(code_v, bool):
        return model_v is code_v
    if isinstance(model_v, int):
        return isinstance(code_v, (int, float)) and float(code_v) == float(model_v)
    if isinstance(model_v, list):
        return isinstance(code_v, list) and len(code_v) == len(model_v) and \
            all(same_value(a, b) for a, b in zip(model_v, code_v))
    if isinstance(model_v, dict):
        return isinstance(code_v, dict) and list(code_v) == list(model_v) and \
            all(same_value(model_v[k], code_v[k]) for k in model_v)
    return False


def agree(model_r, code_r):
    """None = not judged (model out of fuel); True/False otherwise.  Errors compared as a class."""
    if model_r[0] == "fuel":
        return None
    if code_r[0] == "bad":
        return False
    if model_r[0] == "err":
        return code_r[0] == "err"
    return code_r[0] == "ok" and same_value(model_r[1], code_r[1])


# ------------------------------------------------------------------ the check
def model_eval(run, exprs):
    """core.coq_eval with a time budget per shard.  The model has no value cache, so a rare program makes
    vm_compute take very long; such a case is skipped and counted (like fuel exhaustion), never judged.
    A shard that dies returns ERROR for its unfinished entries: the first of them is the slow one, the rest
    are evaluated again."""
    results = [None] * len(exprs)
    todo = list(range(len(exprs)))
    for _round in range(6):
        if not todo:
            break
        got = core.coq_eval(IMPORTS, [exprs[i] for i in todo], preamble=PREAMBLE, timeout=MODEL_TIMEOUT)
        nshards = max(1, min(core.NPROC, (len(todo) + 199) // 200))
        again = []
        first_err_of_shard = {}
        for pos, (i, r) in enumerate(zip(todo, got)):
            if isinstance(r, tuple) and r and r[0] == "ERROR":
                sh = pos % nshards
                if sh not in first_err_of_shard and "TIMEOUT" in str(r[1]):
                    first_err_of_shard[sh] = i
                    results[i] = "SLOW"
                    run.count("skipped_model_timeout")
                elif "TIMEOUT" in str(r[1]):
                    again.append(i)
                else:
                    results[i] = r
            else:
                results[i] = r
        todo = again
    for i in todo:
        results[i] = "SLOW"
        run.count("skipped_model_timeout")
    return results


def run_bundled(run, binary, reqs, per=24):
    """Send requests in `seq` bundles (one worker thread per bundle instead of one per request: the
    harness gives every line a fresh 512 MB-stack thread).  A bundle that dies or times out is sent again
    request by request, so only the request that really hangs is reported as such."""
    bundles = [reqs[i:i + per] for i in range(0, len(reqs), per)]
    answers = core.run_harness(binary, "eval", [{"seq": b} for b in bundles], timeout=HARNESS_TIMEOUT)
    outs = [None] * len(reqs)
    redo = []
    for bi, (b, a) in enumerate(zip(bundles, answers)):
        if isinstance(a, dict) and isinstance(a.get("seq"), list) and len(a["seq"]) == len(b):
            for j, o in enumerate(a["seq"]):
                outs[bi * per + j] = o
        else:
            redo.extend(range(bi * per, bi * per + len(b)))
    if redo:
        run.count("harness_bundles_redone", len(redo))
        single = core.run_harness(binary, "eval", [reqs[i] for i in redo], timeout=30,
                                  shards=max(1, min(core.NPROC, len(redo))))
        for i, o in zip(redo, single):
            outs[i] = o
    return outs


def requests_for(pjs):
    names_js = "[" + ", ".join(json.dumps(n) for n in NAMES) + "]"
    reqs = [{"code": pjs, "out": "minify"}]
    for n in NAMES:
        reqs.append({"code": f"({pjs}).{n}", "out": "minify"})
    reqs.append({"code": f"local P = {pjs}; [std.objectFields(P), std.objectFieldsAll(P), "
                         f"[std.objectHas(P, f) for f in {names_js}], [std.objectHasAll(P, f) for f in {names_js}], "
                         f"[f in P for f in {names_js}], [std.objectHasEx(P, f, true) for f in {names_js}], "
                         f"[std.objectHasEx(P, f, false) for f in {names_js}], std.length(P)]", "out": "minify"})
    return reqs


def eq_request(pjs, tree):
    lits = [tree_js(tree)] + [tree_js(t) for t in perturb(tree)]
    items = [f"P == {lits[0]}", f"{lits[0]} == P", f"!(P != {lits[0]})",
             f"std.length(P) == {len(tree)}", f"std.objectFields(P) == std.objectFields({lits[0]})"]
    items += [f"!(P == {x})" for x in lits[1:]] + [f"P != {x}" for x in lits[1:]]
    return {"code": f"local P = {pjs}; [{', '.join(items)}]", "out": "minify"}


def check(run, terrs):
    proofs_ok, detail = core.check_property_file(run, "C02")
    binary, err = core.build_harness(run)
    if not binary:
        run.obligation("harness.build", False, err)
        return core.conclude(run, False, err, [], [])
    failures, model_diffs = correspond(run, binary, enumerate_cases(run))
    failures.extend(known_canary(run, binary))
    run.trusted = TRUSTED
    run.assumptions = ASSUMPTIONS
    # Source tie (Gen/GenObj.v = obj/mod.rs + obj/oop.rs translated statement by statement; C02/ProofsSource.v
    # proves translated = hand model).  A TranslateError of GenObj is already the failed obligation
    # translator.GenObj (Gen/GenObj.v is then stale and says nothing about this tree); a proof that stops
    # compiling fails every C02.<theorem> obligation.  Either way the code no longer is what the theorems
    # speak about: look for a concrete failing input, densely around what the translated functions compute.
    tie_broken = bool([1 for n, _ in terrs if n == "GenObj"]) or (
        not proofs_ok and any(x in (detail or "") for x in SOURCE_FILES))
    run.coverage["source_tie"] = {"translated": SOURCE_FUNCTIONS, "intact": not tie_broken}

    def tie_search():
        if tie_broken:
            run.log("search: the C02 source tie broke: dense +: / objectRemoveKey / visibility chains")
            f, _ = correspond(run, binary, tie_cases(run), quiet=True)
            if f:
                return f
        return search(run, binary) if run.tier == "quick" or tie_broken else []

    return core.conclude(
        run, proofs_ok, detail, failures, model_diffs,
        search=tie_search if (run.tier == "quick" or tie_broken) else None,
        level="proof", rule=RULE)


SOURCE_FILES = ("GenObj.v", "ProofsSource.v", "PropertiesSource.v", "PinsSource.v", "ModelSource.v")
SOURCE_FUNCTIONS = ["obj/mod.rs ObjValue::get_idx_uncached", "obj/mod.rs ObjValue::has_field_include_hidden_idx",
                    "obj/mod.rs ObjValue::field_visibility_idx", "obj/mod.rs ObjValue::fields_visibility",
                    "obj/mod.rs ObjValue::extend_from", "obj/oop.rs ObjValueBuilder::with_fields_omitted"]


def tie_cases(run):
    """Dense chain programs over ONE name around what the translated walks decide: every chain of 1-3 steps
    (and a seeded sample of 4- and 5-step chains) over {a:, a+:, a::, a:::, a+::, a+:::, objectRemoveKey a,
    a layer without a}, each also under a top layer that reads `super.a` and `"a" in super` (start index below
    the top), and removals nested inside `+` operands (the skip counter's `max`)."""
    rng = run.rng.fork("tie")
    A, Bn, C = 0, 1, 2
    kinds = [(False, "n"), (True, "n"), (False, "h"), (False, "u"), (True, "h"), (True, "u")]
    steps_all = kinds + ["rm", "blank"]

    def one(i, s):
        if s == "blank":
            return ("obj", [F(Bn, ("tag", 10 + i))], [], [])
        return ("obj", [F(A, ("tag", i + 1), s[0], s[1])], [], [])

    def chain(steps, cur=None):
        for i, s in enumerate(steps):
            if s == "rm":
                if cur is None:
                    return None
                cur = ("remove", cur, A)
            else:
                o = one(i, s)
                cur = o if cur is None else (("add", cur, o) if i % 2 else ("ext", cur, o[1], o[2], o[3]))
        return cur

    top = ("obj", [F(Bn, ("super", A)), F(C, ("insuper", A))], [], [])
    out = []

    def emit(c):
        if c is not None:
            out.append(c)
            out.append(("add", c, top))

    import itertools
    for n in (1, 2, 3):
        for steps in itertools.product(steps_all, repeat=n):
            emit(chain(list(steps)))
    for n, cnt in ((4, 250), (5, 150)):
        for _ in range(cnt):
            emit(chain([rng.choice(steps_all) for _ in range(n)]))
    # removal nests: L + remove(M) [+ R], remove(L + remove(M) + R)
    for _ in range(250):
        L = chain([rng.choice(kinds + ["blank"]) for _ in range(rng.randint(1, 2))])
        M = chain([rng.choice(steps_all[:7]) for _ in range(rng.randint(1, 3))] )
        if M is None:
            continue
        x = ("add", L, ("remove", M, A))
        R = [rng.choice(kinds) for _ in range(rng.randint(0, 2))]
        for i, s in enumerate(R):
            x = ("add", x, one(20 + i, s))
        emit(x)
        emit(("remove", x, A))
    return out


CANARY = "{assert self.b == 1, b: self.b}"


def known_canary(run, binary):
    """Regression canary for the defect fixed in d2ceb7b: a field-read cycle entered while the object's own
    assertion is running used to recurse without bound (get_idx exempted Pending entries while asserting).
    It must now be an error.  Programs of that class are otherwise recognised by the model running out of
    fuel and are not sent to the real code by correspond()."""
    outs = core.run_harness(binary, "eval", [{"code": CANARY, "out": "minify"}], timeout=30, shards=1)
    o = outs[0] if outs else {}
    run.count("canary")
    if "err" in o:
        return []
    return [{"case": {"jsonnet": CANARY, "probe": CANARY},
             "summary": f"C02 cyclic read under a running object assertion is not reported as an error: {CANARY}",
             "what": "cyclic read during an assertion run", "expected": "an error (infinite recursion)", "got": o}]


def search(run, binary):
    run.log("search: thorough-scope enumeration (capped)")
    old = run.tier
    run.tier = "thorough"
    try:
        cases = enumerate_cases(run)
    finally:
        run.tier = old
    # the exhaustive 3-layer block first, capped
    f, _ = correspond(run, binary, cases[:60000], quiet=True)
    return f


def correspond(run, binary, cases, quiet=False):
    failures, model_diffs = [], []
    seen, uniq = set(), []
    for c in cases:
        k = js(c)
        if k not in seen:
            seen.add(k)
            uniq.append((c, k))
    run.log(f"{len(uniq)} distinct chain programs")
    ns = "[" + "; ".join(str(n) for n in NS) + "]"
    exprs = []
    for c, _ in uniq:
        t = cq(c)
        exprs.append(f"(run_probe impl_ops {FUEL}%nat {t} {ns}, run_probe spec_ops {FUEL}%nat {t} {ns})")
    model = model_eval(run, exprs)
    run.log("model evaluated")
    reqs, meta = [], []
    for (c, pjs), m in zip(uniq, model):
        if m == "SLOW":
            continue
        if isinstance(m, tuple) and m and m[0] == "ERROR":
            run.obligation("model.eval", False, str(m[1])[:300])
            continue
        try:
            impl_r = res_py(m[0], probe_py)
            spec_r = res_py(m[1], probe_py)
        except Exception as ex:  # noqa
            run.obligation("model.parse", False, f"{ex}"[:300])
            continue
        base = len(reqs)
        rq = requests_for(pjs)
        # A probe on which the model runs out of fuel is a (near-)cyclic read: it is never judged, and it is
        # not sent to the real code either (see known finding C02-assert-cycle-unbounded: the real evaluator
        # may recurse without bound on such a program).
        def fuelled(r, key, i=None):
            if r[0] != "ok":
                return r[0] == "fuel"
            x = r[1][key] if i is None else r[1][key][i]
            return x[0] == "fuel"
        if any(fuelled(r, "manifest") for r in (impl_r, spec_r)):
            rq[0] = {"code": "null", "out": "minify"}
        for i in range(len(NAMES)):
            if any(fuelled(r, "reads", i) for r in (impl_r, spec_r)):
                rq[1 + i] = {"code": "null", "out": "minify"}
        reqs.extend(rq)
        eq_at = None
        if spec_r[0] == "ok" and spec_r[1]["manifest"][0] == "ok":
            eq_at = len(reqs)
            reqs.append(eq_request(pjs, spec_r[1]["manifest"][1]))
        meta.append((c, pjs, impl_r, spec_r, base, eq_at))
    run.log(f"{len(reqs)} harness requests")
    outs = run_bundled(run, binary, reqs)
    run.log("harness done")
    for c, pjs, impl_r, spec_r, base, eq_at in meta:
        feats = set()
        features(c, feats)
        nl = count_layers(c)
        if not quiet:
            run.count(f"layers{min(nl, 7)}")
            for ft in feats:
                run.count("has:" + ft)
        nontrivial = nl >= 2
        run.note_case(pjs, nontrivial)
        case = {"jsonnet": pjs, "coq": cq(c)}

        def fail(what, expected, got, probe):
            failures.append({"case": dict(case, probe=probe), "summary": f"C02 {what}: {probe[:240]}",
                             "what": what, "expected": expected, "got": got})

        def mdiff(what, model_v, code_v):
            model_diffs.append({"case": case, "what": what, "model": repr(model_v)[:300], "code": repr(code_v)[:300]})

        if impl_r != spec_r:
            # C02_get_refines / _has_refines / _visibility_refines / _fields_visibility_agrees say this cannot
            # happen on well-formed layer lists
            run.obligation("model.impl_equals_spec", False, f"{pjs[:200]}: impl {impl_r!r:.200} spec {spec_r!r:.200}")
        if spec_r[0] != "ok":
            # building the object itself failed in the model: every request must fail alike
            if spec_r[0] == "fuel":
                run.count("skipped_out_of_fuel")
                continue
            run.count("build_error")
            co = code_outcome(outs[base])
            if co[0] != "err":
                fail("object expression evaluates although the model says it fails", spec_r, outs[base], pjs)
            continue
        sp, im = spec_r[1], impl_r[1] if impl_r[0] == "ok" else None
        # (1) manifestation
        co = code_outcome(outs[base])
        a = agree(sp["manifest"], co)
        if a is None:
            run.count("skipped_out_of_fuel")
        elif not a:
            fail("manifestation differs from the layer-recursion spec", sp["manifest"], outs[base], pjs)
        elif im is not None and agree(im["manifest"], co) is False:
            mdiff("manifest", im["manifest"], co)
        run.count("manifest:" + sp["manifest"][0])
        # (2) every field read
        for i, n in enumerate(NAMES):
            co = code_outcome(outs[base + 1 + i])
            a = agree(sp["reads"][i], co)
            run.count("read:" + sp["reads"][i][0])
            if a is None:
                run.count("skipped_out_of_fuel")
            elif not a:
                fail(f"read of field {n} differs from the layer-recursion spec", sp["reads"][i], outs[base + 1 + i],
                     f"({pjs}).{n}")
            elif im is not None and agree(im["reads"][i], co) is False:
                mdiff(f"read {n}", im["reads"][i], co)
        # (3) field sets and membership
        co = code_outcome(outs[base + 4])
        if co[0] != "ok" or not isinstance(co[1], list) or len(co[1]) != 8:
            fail("field-set probe failed", "lists", outs[base + 4], reqs[base + 4]["code"])
        else:
            fl, fla, has, hasall, inn, hasex_t, hasex_f, ln = co[1]
            exp = [sp["fields"], sp["fields_all"], sp["has"], sp["has_all"], sp["has_all"], sp["has_all"], sp["has"],
                   len(sp["fields"])]
            lab = ["std.objectFields", "std.objectFieldsAll", "std.objectHas", "std.objectHasAll", "`in`",
                   "std.objectHasEx(..,true)", "std.objectHasEx(..,false)", "std.length"]
            for e_, g_, l_ in zip(exp, co[1], lab):
                if e_ != g_:
                    fail(f"{l_} differs from the visibility spec", e_, g_, reqs[base + 4]["code"])
            if im is not None and [im["fields"], im["fields_all"], im["has"], im["has_all"]] != [fl, fla, has, hasall]:
                mdiff("field sets", [im["fields"], im["fields_all"], im["has"], im["has_all"]], co[1][:4])
        # (4) equality against the flattened literal
        if eq_at is not None:
            co = code_outcome(outs[eq_at])
            if co[0] != "ok" or not isinstance(co[1], list) or not all(x is True for x in co[1]):
                fail("== / != against the flattened literal is inconsistent with the reads", "all true", outs[eq_at],
                     reqs[eq_at]["code"])
        if not quiet and len(run.samples) < 8 and nl >= 3 and sp["manifest"][0] == "ok" and len(feats) >= 4:
            run.samples.append({"jsonnet": pjs, "manifest": sp["manifest"][1], "fields_all": sp["fields_all"]})
    return failures, model_diffs


def replay(run, data):
    binary, err = core.build_harness(run)
    f = data.get("failure", {})
    code = f.get("case", {}).get("probe") or f.get("case", {}).get("jsonnet")
    if not code:
        print(json.dumps(data, indent=1)[:3000])
        return 1
    outs = core.run_harness(binary, "eval", [{"code": code, "out": "minify"}])
    print("jsonnet :", code)
    print("expected:", f.get("expected"))
    print("was     :", f.get("got"))
    print("now     :", outs[0])
    return 0


RULE = ("chain programs over names {a,b,c}: exhaustive 1- and 2-step chains over a 27-entry layer catalogue "
        "(plain, +:, ::, :::, +::, +:::, self/super/$ reads, `in super`, `in self`, object-local, assert, nested "
        "object, +: on nested object, two-member layers, empty literal, removeKey a / b) in both join forms "
        "(`+`, extension), 3-step chains (quick: seeded sample of 900 with one of 4 join/grouping variants; "
        "thorough: all 27^3 x 4), a removal-nesting family, random chains of 1-6 layers with 0-3 members per "
        "layer, locals, asserts and nested objects to depth 2; distinct = distinct Jsonnet text; non-trivial = "
        "at least two layers")
TRUSTED = ["Coq 8.16.1 kernel incl. vm_compute (no native_compute)",
           "no axioms (all C02 theorems closed under the global context)",
           "source tie: translator/gens/objwalk.py (Rust-subset parser, continuation-style emission, fixed Gallina reading of "
           "Saturating<usize> / Vec / Option / Iterator primitives); fails closed on anything it does not recognise",
           "correspondence: jrharness eval (out=minify), vlib generators/renderers (Jsonnet text and Gallina term "
           "from one python tree), Coq term printer/parser",
           "modelled not verified: member-body evaluation is abstract in the theorems (any ev/add); the value "
           "cache and assertions_ran flag (assumed transparent, C03/C16), RUNNING_ASSERTIONS collapsed to one "
           "flag, GC sharing, FxHashMap iteration order (names per layer distinct), StandaloneSuperCore "
           "(bare `super`, a documented jrsonnet extension) is not modelled"]
ASSUMPTIONS = ["impl-model loops (get_idx_uncached, has_field_include_hidden_idx, field_visibility_idx, fields_visibility, "
               "extend_from, with_fields_omitted) are proved equal to their statement-by-statement translation from the "
               "working tree (Gen/GenObj.v, C02_model_is_translated_source_*); the per-core methods of OopObject / "
               "OmitFieldsCore stay hand-transliterated, tied by the differential run on every check",
               "layer lists are well formed (distinct names per layer, removal ranges laminar, 2*len+2 < 2^64): "
               "proved to be preserved by +, extension and objectRemoveKey (C02_constructors_wf)",
               "spec evaluates a `+:` body before super.f (only affects which of several errors is reported)"]
