"""Shared orchestration for /verif checks: PRNG, translator, Coq build + audit, harness build
and sharded execution, model execution inside Coq (cases.v + vm_compute), evidence, known
findings, violation reporting."""
import hashlib
import json
import os
import re
import shutil
import subprocess
import sys
import tempfile
import time

VERIF = os.path.dirname(os.path.dirname(os.path.abspath(__file__)))
REPO = os.environ.get("VERIF_REPO", "/repo")
COQ = os.path.join(VERIF, "coq")
CACHE = os.path.join(VERIF, ".cache")
TARGET = os.path.join(CACHE, "target")
HARNESS_DIR = os.path.join(VERIF, "harness")
# evidence/ is committed and must describe runs against /repo itself: a run against a scratch copy
# of the repository (VERIF_REPO=<seeded worktree>) writes its evidence under .cache/ instead
EVIDENCE = (os.path.join(VERIF, "evidence") if os.path.realpath(REPO) == "/repo"
            else os.path.join(CACHE, "scratch-evidence"))
REPLAYS = os.path.join(VERIF, "replays")
NPROC = int(os.environ.get("VERIF_JOBS", "16"))
CFG = "jrsonnet_verif"

sys.path.insert(0, os.path.join(VERIF, "translator"))


# ---------------------------------------------------------------- PRNG
class Rng:
    """splitmix64; every random choice of a run derives from VERIF_SEED."""

    def __init__(self, seed):
        self.s = seed & 0xFFFFFFFFFFFFFFFF

    def next(self):
        self.s = (self.s + 0x9E3779B97F4A7C15) & 0xFFFFFFFFFFFFFFFF
        z = self.s
        z = ((z ^ (z >> 30)) * 0xBF58476D1CE4E5B9) & 0xFFFFFFFFFFFFFFFF
        z = ((z ^ (z >> 27)) * 0x94D049BB133111EB) & 0xFFFFFFFFFFFFFFFF
        return z ^ (z >> 31)

    def below(self, n):
        return self.next() % n

    def choice(self, xs):
        return xs[self.below(len(xs))]

    def chance(self, p):
        return (self.next() >> 11) / float(1 << 53) < p

    def randint(self, a, b):
        return a + self.below(b - a + 1)

    def shuffle(self, xs):
        for i in range(len(xs) - 1, 0, -1):
            j = self.below(i + 1)
            xs[i], xs[j] = xs[j], xs[i]

    def fork(self, tag):
        h = hashlib.sha256(f"{self.s}:{tag}".encode()).digest()
        return Rng(int.from_bytes(h[:8], "big"))


def seed_from_env():
    try:
        return int(os.environ.get("VERIF_SEED", "1"))
    except ValueError:
        return 1


# ---------------------------------------------------------------- run context
class Violation(Exception):
    def __init__(self, what, replay, no_input=False):
        super().__init__(what)
        self.what = what
        self.replay = replay
        self.no_input = no_input


class Run:
    def __init__(self, prop, tier, seed):
        self.prop = prop
        self.tier = tier
        self.seed = seed
        self.t0 = time.time()
        self.rng = Rng(seed).fork(prop)
        self.obligations = []      # (name, ok, detail)
        self.notes = []
        self.known_hits = {}       # finding id -> example
        self.violations = []       # (what, replay_path, no_input)
        self.coverage = {}
        self.assumptions = []
        self.trusted = []
        self.samples = []
        self.evaluations = 0
        self.distinct = set()
        self.dist = {}

    def log(self, *a):
        print(f"[{self.prop} {time.time() - self.t0:6.1f}s]", *a, flush=True)

    def count(self, key, n=1):
        self.dist[key] = self.dist.get(key, 0) + n

    def note_case(self, canonical, nontrivial=True):
        self.evaluations += 1
        if nontrivial:
            self.distinct.add(hashlib.sha1(canonical.encode()).digest()[:10])

    def obligation(self, name, ok, detail=""):
        self.obligations.append((name, bool(ok), detail))

    def violation(self, what, replay_obj, no_input=False):
        os.makedirs(REPLAYS, exist_ok=True)
        blob = json.dumps(replay_obj, sort_keys=True, ensure_ascii=False, indent=1)
        h = hashlib.sha1(blob.encode()).hexdigest()[:12]
        path = os.path.join(REPLAYS, f"{self.prop}-{h}.json")
        with open(path, "w", encoding="utf-8") as f:
            f.write(blob)
        self.violations.append((what, path, no_input))
        return path

    def finish(self, level="proof", rule="", explanation="", checker_cmd=""):
        """Write evidence, print KNOWN-FINDING / VIOLATION lines, return exit code."""
        os.makedirs(EVIDENCE, exist_ok=True)
        n_obl = len(self.obligations)
        n_ok = sum(1 for o in self.obligations if o[1])
        cov = {
            "obligations": n_obl,
            "discharged": n_ok,
            "checker_cmd": checker_cmd or "coq_makefile -f _CoqProject -o Makefile && make -j16 (coqc 8.16.1, full .vo)",
            "trusted_base": self.trusted,
            "evaluations": self.evaluations,
            "distinct_nontrivial": len(self.distinct),
            "rule": rule,
            "samples": self.samples[:12],
            "obligation_list": [{"name": n, "ok": ok, "detail": d[:400]} for n, ok, d in self.obligations],
            "input_distribution": self.dist,
            "known_findings_hit": sorted(self.known_hits),
            "notes": self.notes,
        }
        if explanation:
            cov["explanation"] = explanation
        cov.update(self.coverage)
        ev = {
            "property_id": self.prop,
            "tier": self.tier,
            "seed": self.seed,
            "level": level,
            "coverage": cov,
            "assumptions": self.assumptions,
            "wall_s": round(time.time() - self.t0, 2),
            "violations": len(self.violations),
        }
        with open(os.path.join(EVIDENCE, f"{self.prop}.json"), "w", encoding="utf-8") as f:
            json.dump(ev, f, indent=1, ensure_ascii=False)
        for fid, ex in sorted(self.known_hits.items()):
            print(f"KNOWN-FINDING: property={self.prop} {fid}: {ex}")
        for what, path, no_input in self.violations:
            tail = " no-failing-input-found" if no_input else ""
            print(f"# {what}")
            print(f"VIOLATION property={self.prop} replay={path}{tail}")
        self.log(f"done: obligations {n_ok}/{n_obl}, evaluations {self.evaluations}, "
                 f"distinct {len(self.distinct)}, violations {len(self.violations)}")
        return 1 if self.violations else 0


# ---------------------------------------------------------------- translator
def translate(run):
    import gen
    changed, errors = gen.run()
    for n in changed:
        run.log("translator: regenerated", n)
    return errors


def gen_deps(prop_dir):
    """names of the Gen/*.v modules the property's Coq files depend on (transitively through JrV imports)"""
    seen, todo, gens = set(), [], set()
    base = os.path.join(COQ, "theories")
    d = os.path.join(base, prop_dir)
    if os.path.isdir(d):
        todo = [os.path.join(d, f) for f in os.listdir(d) if f.endswith(".v")]
    while todo:
        f = todo.pop()
        if f in seen or not os.path.exists(f):
            continue
        seen.add(f)
        txt = strip_comments(open(f, encoding="utf-8").read())
        for m in re.finditer(r"Require\s+(?:Import|Export)\s", txt):
            end = re.compile(r"\.(?:\s|$)").search(txt, m.end())
            mods = txt[m.end():end.start() if end else len(txt)].split()
            for mod in mods:
                mod = mod[4:] if mod.startswith("JrV.") else mod
                parts = mod.split(".")
                if len(parts) == 2 and parts[0] == "Gen":
                    gens.add(parts[1])
                if all(re.fullmatch(r"\w+", x) for x in parts):
                    cand = os.path.join(base, *parts) + ".v"
                    if os.path.exists(cand):
                        todo.append(cand)
    return gens


# ---------------------------------------------------------------- Coq
def coq_files():
    out = []
    for root, _, files in os.walk(os.path.join(COQ, "theories")):
        for f in files:
            if f.endswith(".v"):
                out.append(os.path.relpath(os.path.join(root, f), COQ))
    return sorted(out)


COQPROJECT_HEAD = ("-Q theories JrV\n"
                   "-arg -w -arg -notation-overridden,-deprecated-hint-without-locality,"
                   "-deprecated-instance-without-locality,-ambiguous-paths\n")


def coq_prepare():
    """(Re)write _CoqProject and Makefile when the file list changed."""
    body = COQPROJECT_HEAD + "\n".join(coq_files()) + "\n"
    p = os.path.join(COQ, "_CoqProject")
    old = open(p).read() if os.path.exists(p) else None
    if old != body or not os.path.exists(os.path.join(COQ, "Makefile")):
        with open(p, "w") as f:
            f.write(body)
        subprocess.run(["coq_makefile", "-f", "_CoqProject", "-o", "Makefile"], cwd=COQ, check=True,
                       stdout=subprocess.DEVNULL, stderr=subprocess.DEVNULL)


def coq_make(targets, timeout=1500):
    """make the given .vo targets (paths relative to coq/). Returns (ok, log)."""
    coq_prepare()
    cmd = ["make", f"-j{NPROC}", "-k"] + targets
    try:
        p = subprocess.run(cmd, cwd=COQ, stdout=subprocess.PIPE, stderr=subprocess.STDOUT, text=True,
                           timeout=timeout)
        return p.returncode == 0, p.stdout
    except subprocess.TimeoutExpired as e:
        return False, (e.stdout or "") + "\nTIMEOUT"


def coq_targets_for(prop_dirs):
    ts = []
    for f in coq_files():
        parts = f.split(os.sep)
        if len(parts) >= 3 and parts[1] in prop_dirs:
            ts.append(f[:-2] + ".vo")
    return ts


ALLOWED_AXIOMS = {
    # standard-library axioms only; each use is named in MANIFEST level_note / DESIGN §6
    "ClassicalDedekindReals.sig_not_dec",
    "ClassicalDedekindReals.sig_forall_dec",
    "FunctionalExtensionality.functional_extensionality_dep",
    "Classical_Prop.classic",
    "functional_extensionality_dep",
    "classic",
    "sig_not_dec",
    "sig_forall_dec",
    "ProofIrrelevance.proof_irrelevance",
    "proof_irrelevance",
    "JMeq.JMeq_eq",
    "JMeq_eq",
    "Eqdep.Eq_rect_eq.eq_rect_eq",
    "eq_rect_eq",
}

FORBIDDEN = re.compile(
    r"\b(Admitted|admit|Axiom|Axioms|Parameter|Parameters|Conjecture|Conjectures|Abort All)\b"
    r"|Admit Obligations|Unset Guard Checking|Unset Positivity Checking|Unset Universe Checking"
    r"|bypass_check|type-in-type|impredicative-set|Local Unset Guard")


def strip_comments(text):
    out, depth, i = [], 0, 0
    instr = False
    while i < len(text):
        c2 = text[i:i + 2]
        if not instr and c2 == "(*":
            depth += 1
            i += 2
            continue
        if not instr and depth and c2 == "*)":
            depth -= 1
            i += 2
            continue
        if depth == 0:
            if text[i] == '"':
                instr = not instr
            out.append(text[i])
        i += 1
    return "".join(out)


def coq_audit(dirs=None):
    """Grep the development for forbidden declarations. Returns list of problems."""
    probs = []
    for f in coq_files():
        parts = f.split(os.sep)
        if dirs is not None and parts[1] not in dirs:
            continue
        txt = strip_comments(open(os.path.join(COQ, f), encoding="utf-8").read())
        for m in FORBIDDEN.finditer(txt):
            line = txt.count("\n", 0, m.start()) + 1
            probs.append(f"{f}:{line}: forbidden `{m.group(0)}`")
        # Variable/Hypothesis only inside sections
        depth = 0
        for ln, line in enumerate(txt.split("\n"), 1):
            s = line.strip()
            if re.match(r"Section\s+\w+", s):
                depth += 1
            elif re.match(r"End\s+\w+", s) and depth:
                depth -= 1
            elif re.match(r"(Variable|Variables|Hypothesis|Hypotheses|Context)\b", s) and depth == 0:
                probs.append(f"{f}:{ln}: `{s.split()[0]}` outside a section")
    cp = open(os.path.join(COQ, "_CoqProject")).read() if os.path.exists(os.path.join(COQ, "_CoqProject")) else ""
    if "type-in-type" in cp or "impredicative-set" in cp or "-vos" in cp:
        probs.append("_CoqProject passes a forbidden flag")
    return probs


def parse_assumptions(log):
    """Parse `Print Assumptions` outputs from a coqc log.
    Returns dict theorem-marker -> list of axiom names; closed theorems -> []."""
    res = []
    lines = log.split("\n")
    i = 0
    while i < len(lines):
        if lines[i].startswith("Closed under the global context"):
            res.append([])
        elif lines[i].startswith("Axioms:"):
            ax = []
            i += 1
            while i < len(lines) and lines[i] and not lines[i].startswith(("COQC", "Closed", "Axioms:", "make")):
                m = re.match(r"^([A-Za-z_][\w.']*)\s*(:|$)", lines[i])
                if m and not lines[i].startswith(" "):
                    ax.append(m.group(1))
                i += 1
            res.append(ax)
            continue
        i += 1
    return res


def coqchk(prop_dir, timeout=3000):
    """coqchk -o on <prop_dir>.Properties: (ok, detail, axioms listed)"""
    try:
        pdir = os.path.join(COQ, "theories", prop_dir)
        mods = [f"JrV.{prop_dir}.{f[:-2]}" for f in sorted(os.listdir(pdir)) if re.fullmatch(r"Properties\w*\.v", f)]
        p = subprocess.run(["coqchk", "-silent", "-o", "-Q", "theories", "JrV"] + mods,
                           cwd=COQ, stdout=subprocess.PIPE, stderr=subprocess.STDOUT, text=True, timeout=timeout)
    except subprocess.TimeoutExpired:
        return False, "coqchk timed out", []
    out = p.stdout
    if p.returncode != 0 or "CONTEXT SUMMARY" not in out:
        return False, out[-600:], []
    summ = out[out.index("CONTEXT SUMMARY"):]

    def section(title):
        m = re.search(r"\* " + re.escape(title) + r":(.*?)(?=\n\* |\Z)", summ, re.S)
        body = (m.group(1) if m else "").strip()
        return [] if body in ("<none>", "") else [ln.strip() for ln in body.split("\n") if ln.strip()]
    axioms = section("Axioms")
    bad = [a for a in axioms if a.split()[0] not in ALLOWED_AXIOMS and a.split()[0].split(".")[-1] not in ALLOWED_AXIOMS]
    unsafe = (section("Constants/Inductives relying on type-in-type")
              + section("Constants/Inductives relying on unsafe (co)fixpoints")
              + section("Inductives whose positivity is assumed"))
    ok = not bad and not unsafe and "Set is predicative" in summ
    return ok, "; ".join(bad + unsafe)[:600], axioms


def check_property_file(run, prop_dir):
    """Compile <prop_dir>/{Model,Proofs,Properties,Pins}.v, audit, and register one obligation
    per theorem pinned in Pins.v.  Returns True when every obligation is discharged."""
    targets = coq_targets_for([prop_dir])
    # force re-run of Properties*.v so Print Assumptions output is captured
    # (a property directory may hold several Properties<Part>.v / Pins<Part>.v files)
    pdir = os.path.join(COQ, "theories", prop_dir)
    prop_files = sorted(f for f in os.listdir(pdir) if re.fullmatch(r"Properties\w*\.v", f))
    pin_files = sorted(f for f in os.listdir(pdir) if re.fullmatch(r"Pins\w*\.v", f))
    for f in prop_files:
        pv = os.path.join(pdir, f + "o")
        if os.path.exists(pv):
            os.remove(pv)
    ok, log = coq_make(targets)
    names = []
    for f in pin_files:
        names += re.findall(r"^Check\s+(\w+)\s*:", strip_comments(open(os.path.join(pdir, f)).read()), re.M)
    props_src = "\n".join(strip_comments(open(os.path.join(pdir, f)).read()) for f in prop_files)
    thm_names = re.findall(r"^(?:Theorem|Lemma|Corollary)\s+(\w+)", props_src, re.M)
    missing_pin = [n for n in thm_names if n not in names]
    errs = ""
    if not ok:
        m = re.search(r"(File \"[^\"]+\", line \d+[^\n]*\n(?:.*\n){0,12})", log)
        errs = m.group(1) if m else log[-1500:]
    assum = parse_assumptions(log)
    bad_ax = sorted({a for ax in assum for a in ax if a not in ALLOWED_AXIOMS})
    used_ax = sorted({a for ax in assum for a in ax})
    audit = coq_audit()
    for n in thm_names:
        run.obligation(f"{prop_dir}.{n}", ok, errs)
    run.obligation(f"{prop_dir}.audit(no Admitted/Axiom/Parameter/unchecked flags)", not audit, "; ".join(audit))
    run.obligation(f"{prop_dir}.assumptions(allow-listed stdlib axioms only)", not bad_ax, "; ".join(bad_ax))
    run.obligation(f"{prop_dir}.pins(every property theorem re-stated in Pins.v)", not missing_pin,
                   "; ".join(missing_pin))
    if ok and run.tier == "thorough":
        # independent re-check of the compiled property theorems and everything they depend on
        ck_ok, ck_detail, ck_ax = coqchk(prop_dir)
        run.obligation(f"{prop_dir}.coqchk(independent checker; stdlib axioms only; no type-in-type, "
                       "unsafe fixpoints or assumed positivity)", ck_ok, ck_detail)
        run.coverage["coqchk_axioms"] = ck_ax
    if ok and len(assum) < len(thm_names):
        run.obligation(f"{prop_dir}.print_assumptions_present", False,
                       f"{len(assum)} Print Assumptions outputs for {len(thm_names)} theorems")
    run.coverage["axioms_used"] = used_ax
    run.coverage["theorems"] = thm_names
    return ok and not audit and not bad_ax and not missing_pin, (errs or "; ".join(audit + bad_ax + missing_pin))


# ---------------------------------------------------------------- model execution in Coq
TERM_TOKEN = re.compile(r'\s*(?:("(?:[^"]|"")*")|(\(|\)|\[|\]|;|,)|(-?\d+)|([A-Za-z_][\w.\']*)|(%[A-Za-z_]+))')


class App:
    __slots__ = ("name", "args")

    def __init__(self, name, args):
        self.name, self.args = name, args

    def __repr__(self):
        return f"{self.name}({', '.join(map(repr, self.args))})"

    def __eq__(self, o):
        return isinstance(o, App) and o.name == self.name and o.args == self.args


def parse_term(text):
    toks = []
    pos = 0
    text = text.strip()
    while pos < len(text):
        m = TERM_TOKEN.match(text, pos)
        if not m:
            raise ValueError(f"cannot tokenise Coq term at {text[pos:pos + 40]!r}")
        pos = m.end()
        if m.group(5):
            continue  # scope annotation
        if m.group(1) is not None:
            toks.append(("s", m.group(1)[1:-1].replace('""', '"')))
        elif m.group(2):
            toks.append((m.group(2), None))
        elif m.group(3) is not None:
            toks.append(("n", int(m.group(3))))
        else:
            toks.append(("i", m.group(4)))
    idx = [0]

    def peek():
        return toks[idx[0]][0] if idx[0] < len(toks) else None

    def atom():
        k, v = toks[idx[0]]
        idx[0] += 1
        if k == "n":
            return v
        if k == "s":
            return v
        if k == "i":
            return {"true": True, "false": False}.get(v, v)
        if k == "(":
            items = [term()]
            while peek() == ",":
                idx[0] += 1
                items.append(term())
            assert peek() == ")", "expected )"
            idx[0] += 1
            return items[0] if len(items) == 1 else tuple(items)
        if k == "[":
            items = []
            if peek() != "]":
                items.append(term())
                while peek() == ";":
                    idx[0] += 1
                    items.append(term())
            assert peek() == "]", "expected ]"
            idx[0] += 1
            return items
        raise ValueError(f"unexpected token {k}")

    def term():
        head = atom()
        args = []
        while peek() in ("n", "s", "i", "(", "["):
            args.append(atom())
        if args:
            return App(head, args)
        return head

    t = term()
    if idx[0] != len(toks):
        raise ValueError("trailing tokens in Coq term")
    return t


def coq_eval(imports, exprs, workdir=None, timeout=900, preamble=""):
    """Evaluate Gallina expressions with vm_compute, sharded over NPROC coqc processes.
    Returns a list of parsed terms (or ('ERROR', msg) entries)."""
    if not exprs:
        return []
    tmp = tempfile.mkdtemp(prefix="jrv-cases-", dir=CACHE)
    try:
        nshards = max(1, min(NPROC, (len(exprs) + 199) // 200))
        shards = [[] for _ in range(nshards)]
        for i, e in enumerate(exprs):
            shards[i % nshards].append((i, e))
        procs = []
        for si, sh in enumerate(shards):
            path = os.path.join(tmp, f"cases{si}.v")
            with open(path, "w", encoding="utf-8") as f:
                f.write(imports + "\n" + preamble + "\n")
                f.write("Set Printing Width 100000000.\nSet Printing Depth 100000000.\n")
                for i, e in sh:
                    f.write(f"Eval vm_compute in ({e}).\n")
            p = subprocess.Popen(["coqc", "-noglob", "-Q", os.path.join(COQ, "theories"), "JrV", path],
                                 stdout=subprocess.PIPE, stderr=subprocess.PIPE, text=True, cwd=tmp)
            procs.append((sh, p))
        results = [None] * len(exprs)
        for sh, p in procs:
            try:
                out, err = p.communicate(timeout=timeout)
            except subprocess.TimeoutExpired:
                p.kill()
                out, err = p.communicate()
                err += "\nTIMEOUT"
            chunks = re.split(r"^\s*= ", out, flags=re.M)[1:]
            if p.returncode != 0 or len(chunks) != len(sh):
                for (i, _e) in sh:
                    results[i] = ("ERROR", (err or out)[-800:])
                # still use what parsed
            for (i, _e), ch in zip(sh, chunks):
                # strip trailing "     : type"
                m = re.search(r"\n\s*: ", ch)
                body = ch[:m.start()] if m else ch
                try:
                    results[i] = parse_term(body.replace("\n", " "))
                except Exception as ex:  # noqa
                    results[i] = ("ERROR", f"{ex}: {body[:200]}")
        return results
    finally:
        shutil.rmtree(tmp, ignore_errors=True)


# Gallina literal helpers
def cq_Z(z):
    return f"({z})%Z"


def cq_N(n):
    return f"{n}%N"


def cq_list(xs):
    return "[" + "; ".join(xs) + "]"


def cq_opt(x):
    return "None" if x is None else f"(Some {x})"


def cq_bool(b):
    return "true" if b else "false"


# ---------------------------------------------------------------- harness
def cargo_env(hooks=True):
    env = dict(os.environ)
    env["CARGO_NET_OFFLINE"] = "true"
    env["CARGO_TARGET_DIR"] = TARGET
    flags = env.get("RUSTFLAGS", "")
    if hooks and CFG not in flags:
        flags = (flags + f" --cfg {CFG}").strip()
    env["RUSTFLAGS"] = flags
    return env


def render_harness_manifest():
    """harness/Cargo.toml is rendered from Cargo.toml.in with the repository path (VERIF_REPO,
    default /repo), so a private copy of the repository can be checked without touching /repo."""
    tmpl = open(os.path.join(HARNESS_DIR, "Cargo.toml.in")).read().replace("@REPO@", REPO.rstrip("/"))
    p = os.path.join(HARNESS_DIR, "Cargo.toml")
    if not os.path.exists(p) or open(p).read() != tmpl:
        with open(p, "w") as f:
            f.write(tmpl)
    lock = os.path.join(HARNESS_DIR, "Cargo.lock")
    if not os.path.exists(lock):
        shutil.copy(os.path.join(REPO, "Cargo.lock"), lock)


def build_harness(run, release=False):
    render_harness_manifest()
    cmd = ["cargo", "build", "--offline", "--quiet"]
    if release:
        cmd.append("--release")
    t = time.time()
    p = subprocess.run(cmd, cwd=HARNESS_DIR, env=cargo_env(), stdout=subprocess.PIPE, stderr=subprocess.STDOUT,
                       text=True)
    if p.returncode != 0:
        return None, p.stdout[-3000:]
    run.log(f"harness built in {time.time() - t:.1f}s")
    return os.path.join(TARGET, "release" if release else "debug", "jrharness"), ""


def _limit_mem(nbytes):
    def f():
        import resource
        resource.setrlimit(resource.RLIMIT_AS, (nbytes, nbytes))
    return f


def _run_shard(binary, sub, lines, env, timeout, mem_limit=None, cwd=None):
    """Run one shard; survives a dying harness process by restarting after the fatal line."""
    outs = []
    start = 0
    while start < len(lines):
        data = "\n".join(lines[start:]) + "\n"
        try:
            p = subprocess.run([binary, sub], input=data, stdout=subprocess.PIPE, stderr=subprocess.PIPE,
                               text=True, env=env, timeout=timeout, cwd=cwd,
                               preexec_fn=_limit_mem(mem_limit) if mem_limit else None)
            got = [ln for ln in p.stdout.split("\n") if ln.strip()]
            dead = p.returncode != 0
            tail = p.stderr[-300:]
        except subprocess.TimeoutExpired as e:
            so = e.stdout.decode() if isinstance(e.stdout, bytes) else (e.stdout or "")
            got = [ln for ln in so.split("\n") if ln.strip()]
            dead = True
            tail = "TIMEOUT"
        parsed = []
        for g in got:
            try:
                parsed.append(json.loads(g))
            except ValueError:
                break
        outs.extend(parsed[:len(lines) - start])
        start += len(parsed)
        if start < len(lines):
            if not dead and not parsed:
                outs.append({"harness_error": "no output"})
                start += 1
            elif tail == "TIMEOUT":
                # the time limit is per shard: the line it ran out on is a hang only if it also fails to
                # answer alone (a slow machine or a large shard is not a property violation)
                try:
                    p1 = subprocess.run([binary, sub], input=lines[start] + "\n", stdout=subprocess.PIPE,
                                        stderr=subprocess.PIPE, text=True, env=env, timeout=min(timeout, 300),
                                        cwd=cwd, preexec_fn=_limit_mem(mem_limit) if mem_limit else None)
                    one = [ln for ln in p1.stdout.split("\n") if ln.strip()]
                    outs.append(json.loads(one[0]) if one else {"abort": "abort", "stderr": p1.stderr[-300:]})
                except subprocess.TimeoutExpired:
                    outs.append({"abort": "timeout", "stderr": "TIMEOUT (alone, %ds)" % min(timeout, 300)})
                except ValueError:
                    outs.append({"harness_error": "unparsable answer"})
                start += 1
            else:
                outs.append({"abort": "abort", "stderr": tail})
                start += 1
    return outs[:len(lines)]


def run_harness(binary, sub, requests, env_extra=None, timeout=900, shards=None, mem_limit=None, cwd=None):
    """Send JSON requests to `jrharness <sub>`, sharded; returns answers in order."""
    from concurrent.futures import ThreadPoolExecutor
    if not requests:
        return []
    env = dict(os.environ)
    env["RUST_BACKTRACE"] = "0"
    if env_extra:
        env.update(env_extra)
    n = shards or max(1, min(NPROC, (len(requests) + 49) // 50))
    buckets = [[] for _ in range(n)]
    for i, r in enumerate(requests):
        buckets[i % n].append((i, json.dumps(r, ensure_ascii=False)))
    results = [None] * len(requests)
    with ThreadPoolExecutor(max_workers=n) as ex:
        futs = [(b, ex.submit(_run_shard, binary, sub, [x[1] for x in b], env, timeout, mem_limit, cwd))
                for b in buckets if b]
        for b, f in futs:
            outs = f.result()
            for (i, _), o in zip(b, outs):
                results[i] = o
    return results


REPO_TARGET = os.path.join(CACHE, "target-repo")


def build_repo_bins(run, packages=("jrsonnet", "jrsonnet-fmt", "jrsonnet-deps", "libjsonnet")):
    """build /repo's own executables / cdylib from the working tree into .cache/target-repo"""
    cmd = ["cargo", "build", "--offline", "--quiet", "--manifest-path", os.path.join(REPO, "Cargo.toml"),
           "--target-dir", REPO_TARGET]
    for p in packages:
        cmd += ["-p", p]
    env = cargo_env()
    env["CARGO_PROFILE_DEV_DEBUG"] = "0"
    t = time.time()
    p = subprocess.run(cmd, env=env, stdout=subprocess.PIPE, stderr=subprocess.STDOUT, text=True)
    if p.returncode != 0:
        return None, p.stdout[-3000:]
    run.log(f"repo binaries built in {time.time() - t:.1f}s")
    return os.path.join(REPO_TARGET, "debug"), ""


# ---------------------------------------------------------------- known findings
def load_known(prop):
    p = os.path.join(VERIF, "known_findings.json")
    out = []
    if os.path.exists(p):
        data = json.load(open(p))
        out = [e for e in data.get("findings", []) if e.get("property") == prop and e.get("status") == "known"]
    # the property's own meta file is the source known_findings.json is assembled from
    # (tools/mkmanifest.py); read it too so a check works before the manifest is re-assembled
    mp = os.path.join(VERIF, "props", prop.lower() + ".meta.json")
    if os.path.exists(mp):
        have = {e.get("id") for e in out}
        for e in json.load(open(mp)).get("known_findings", []):
            if e.get("status", "known") == "known" and e.get("id") not in have:
                out.append(dict(e, property=prop, status="known"))
    return out


# ---------------------------------------------------------------- misc
def jstr(s):
    """Jsonnet/JSON string literal."""
    return json.dumps(s, ensure_ascii=False)


def bits_to_float(bits):
    import struct
    return struct.unpack(">d", struct.pack(">Q", int(bits)))[0]


def float_to_bits(x):
    import struct
    return struct.unpack(">Q", struct.pack(">d", float(x)))[0]


def decanon(v):
    """harness canonical tree -> python value (numbers as float, objects as list of pairs)"""
    if isinstance(v, dict):
        if "#" in v:
            return bits_to_float(v["#"])
        if "o" in v:
            return {"__obj__": [(k, decanon(x)) for k, x in v["o"]]}
        if "f" in v:
            return {"__func__": v["f"]}
    if isinstance(v, list):
        return [decanon(x) for x in v]
    return v


# ---------------------------------------------------------------- decision procedure (DESIGN 2.4)
def conclude(run, proofs_ok, proof_detail, failures, model_diffs, search=None, **finish_kw):
    """failures: cases where the CODE disagrees with the SPEC (each a dict with at least
    'case', 'expected', 'got'); model_diffs: cases where the code disagrees with the
    impl-model although it agrees with the spec (a structural / stale-model signal).
    search(): optional deeper enumeration returning more `failures` (used when an obligation
    or the correspondence broke and no failing input is at hand)."""
    known = load_known(run.prop)

    def triage(fs):
        fresh = []
        for f in fs:
            kid = f.get("known")
            if kid and any(k["id"] == kid for k in known):
                run.known_hits.setdefault(kid, f.get("summary", json.dumps(f.get("case"))[:160]))
            else:
                fresh.append(f)
        return fresh

    fresh = triage(failures)
    broken = (not proofs_ok) or bool(model_diffs) or any(not o[1] for o in run.obligations)
    if not fresh and broken and search is not None:
        run.log("an obligation or the correspondence broke: searching for a failing input")
        fresh = triage(search())
    if fresh:
        f = fresh[0]
        run.violation(f.get("summary", "code disagrees with the specification"),
                      {"property": run.prop, "kind": "failing-input", "seed": run.seed, "tier": run.tier,
                       "failure": f, "more": fresh[1:6], "count": len(fresh),
                       "rerun": f"./check {run.prop} --replay <this file>"})
    elif broken:
        what = []
        for n, ok, d in run.obligations:
            if not ok:
                what.append({"obligation": n, "detail": d})
        if model_diffs:
            what.append({"correspondence": "code vs impl-model", "first_diffs": model_diffs[:5]})
        run.violation("a proof obligation or the model/code correspondence no longer checks",
                      {"property": run.prop, "kind": "broken-obligation", "broken": what,
                       "proof_detail": proof_detail}, no_input=True)
    return run.finish(**finish_kw)
