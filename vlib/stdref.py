"""Reference definitions of standard-library functions in the core language (python AST of progen).

A node ("std", name, [args], uid) renders to Jsonnet as `std.<name>(args)` (a call of the NATIVE
builtin of jrsonnet-stdlib through parse_builtin_call, positional or named) and to Sem as the
function's documented definition from std.jsonnet, written with core constructs only (locals,
recursion with tailstrict, comprehensions, indexing, slices, std.length, std.type).  The arguments
are bound once each, and - like every native builtin of every Jsonnet implementation - forced when
the call is made (the definition is applied `tailstrict`), except parameters the native signature
declares lazy (std.get's default).

Only builtins whose definition forces the same elements as any reasonable native implementation
are listed (no short-circuiting ones such as std.member / std.all / std.any: those belong to C10,
which models them one by one).
"""

# name -> parameter names of the native builtin (used for named call style)
PARAMS = {
    "foldl": ["func", "arr", "init"], "foldr": ["func", "arr", "init"],
    "makeArray": ["sz", "func"], "range": ["from", "to"], "count": ["arr", "x"], "sum": ["arr"],
    "join": ["sep", "arr"], "mapWithIndex": ["func", "arr"], "reverse": ["arr"],
    "filterMap": ["filter_func", "map_func", "arr"], "flattenArrays": ["arrs"],
    "max": ["a", "b"], "min": ["a", "b"], "abs": ["n"], "sign": ["n"], "mod": ["a", "b"],
    "isString": ["v"], "isNumber": ["v"], "isBoolean": ["v"], "isArray": ["v"], "isObject": ["v"],
    "isFunction": ["v"],
    "get": ["o", "f", "default"], "objectHasAll": ["o", "f"],
    "startsWith": ["a", "b"], "endsWith": ["a", "b"], "substr": ["str", "from", "len"],
    "stringChars": ["str"], "lines": ["arr"], "removeAt": ["arr", "at"], "find": ["value", "arr"],
    "xor": ["x", "y"], "xnor": ["x", "y"], "equals": ["a", "b"], "assertEqual": ["a", "b"],
    "repeat": ["what", "count"], "slice": ["indexable", "index", "end", "step"],
    "flatMap": ["func", "arr"], "map": ["func", "arr"], "filter": ["func", "arr"],
}


# parameters the native builtin declares as Thunk<Val> (not forced by the call itself)
LAZY = {"get": (2,)}


def V(x):
    return ("var", x)


def N(n):
    return ("num", n)


def S(s):
    return ("str", s)


def App(f, args, ts=False):
    return ("app", f, list(args), [], ts)


def If(c, t, e):
    return ("if", c, t, e)


def Bin(op, a, b):
    return ("bin", op, a, b)


def Len(e):
    return ("len", e)


def Idx(a, i):
    return ("index", a, i)


def Fun(ps, body):
    return ("fun", [(p, None) for p in ps], body)


def Err(msg):
    return ("error", S(msg))


def definition(name, args, u):
    """the core-language term `std.<name>(args)` stands for"""
    p = [f"__s{u}p{i}" for i in range(len(args))]
    aux, rg, i_, x_ = f"__s{u}aux", f"__s{u}rg", f"__s{u}i", f"__s{u}x"
    a = [V(n) for n in p]
    # inclusive integer range as an array, by recursion
    rg_def = (rg, Fun([i_, x_], If(Bin(">", V(i_), V(x_)), ("arr", []),
                                   Bin("+", ("arr", [V(i_)]), App(V(rg), [Bin("+", V(i_), N(1)), V(x_)])))))
    upto = lambda n: App(V(rg), [N(0), Bin("-", n, N(1))])  # noqa  0..n-1
    extra = []

    def foldl(f, arr, init):
        run, idx = f"__s{u}run", f"__s{u}idx"
        extra.append((aux, Fun([run, idx], If(Bin(">=", V(idx), Len(arr)), V(run),
                                              App(V(aux), [App(f, [V(run), Idx(arr, V(idx))]), Bin("+", V(idx), N(1))], True)))))
        return App(V(aux), [init, N(0)])

    if name == "foldl":
        body = foldl(a[0], a[1], a[2])
    elif name == "foldr":
        run, idx = f"__s{u}run", f"__s{u}idx"
        extra.append((aux, Fun([run, idx], If(Bin("<", V(idx), N(0)), V(run),
                                              App(V(aux), [App(a[0], [Idx(a[1], V(idx)), V(run)]), Bin("-", V(idx), N(1))], True)))))
        body = App(V(aux), [a[2], Bin("-", Len(a[1]), N(1))])
    elif name == "makeArray":
        extra.append(rg_def)
        body = If(Bin("<", a[0], N(0)), Err("makeArray requires size >= 0"),
                  ("comp", App(a[1], [V(i_)]), [("for", i_, upto(a[0]))]))
    elif name == "range":
        extra.append(rg_def)
        body = App(V(rg), [a[0], a[1]])
    elif name == "count":
        body = Len(("comp", V(x_), [("for", x_, a[0]), ("if", Bin("==", V(x_), a[1]))]))
    elif name == "sum":
        f = Fun([i_, x_], Bin("+", V(i_), V(x_)))
        body = foldl(f, a[0], N(0))
    elif name == "join":
        run, idx, first = f"__s{u}run", f"__s{u}idx", f"__s{u}first"
        it = Idx(a[1], V(idx))
        nxt = Bin("+", V(idx), N(1))
        extra.append((aux, Fun([idx, first, run],
                               If(Bin(">=", V(idx), Len(a[1])), V(run),
                                  If(Bin("==", it, ("null",)), App(V(aux), [nxt, V(first), V(run)], True),
                                     If(Bin("!=", ("type", it), ("type", a[0])), Err("join: type mismatch"),
                                        If(V(first), App(V(aux), [nxt, ("bool", False), Bin("+", V(run), it)], True),
                                           App(V(aux), [nxt, ("bool", False), Bin("+", Bin("+", V(run), a[0]), it)], True))))))))
        empty = If(Bin("==", ("type", a[0]), S("string")), S(""), ("arr", []))
        body = App(V(aux), [N(0), ("bool", True), empty])
    elif name == "lines":
        return definition("join", [S("\n"), Bin("+", args[0], ("arr", [S("")]))], u)
    elif name == "mapWithIndex":
        extra.append(rg_def)
        body = ("comp", App(a[0], [V(i_), Idx(a[1], V(i_))]), [("for", i_, upto(Len(a[1])))])
    elif name == "reverse":
        extra.append(rg_def)
        body = ("comp", Idx(a[0], Bin("-", Bin("-", Len(a[0]), N(1)), V(i_))), [("for", i_, upto(Len(a[0])))])
    elif name == "filterMap":
        body = ("comp", App(a[1], [V(x_)]), [("for", x_, a[2]), ("if", App(a[0], [V(x_)]))])
    elif name == "map":
        body = ("comp", App(a[0], [V(x_)]), [("for", x_, a[1])])
    elif name == "filter":
        body = ("comp", V(x_), [("for", x_, a[1]), ("if", App(a[0], [V(x_)]))])
    elif name == "flattenArrays":
        f = Fun([i_, x_], Bin("+", V(i_), V(x_)))
        body = foldl(f, a[0], ("arr", []))
    elif name == "flatMap":
        f = Fun([i_, x_], Bin("+", V(i_), V(x_)))
        body = foldl(f, ("comp", App(a[0], [V(x_)]), [("for", x_, a[1])]), ("arr", []))
    elif name == "max":
        body = If(Bin(">", a[0], a[1]), a[0], a[1])
    elif name == "min":
        body = If(Bin("<", a[0], a[1]), a[0], a[1])
    elif name == "abs":
        body = If(Bin(">", a[0], N(0)), a[0], ("un", "-", a[0]))
    elif name == "sign":
        body = If(Bin(">", a[0], N(0)), N(1), If(Bin("<", a[0], N(0)), N(-1), N(0)))
    elif name == "mod":
        body = Bin("%", a[0], a[1])
    elif name in ("isString", "isNumber", "isBoolean", "isArray", "isObject", "isFunction"):
        body = Bin("==", ("type", a[0]), S(name[2:].lower()))
    elif name == "get":
        dflt = a[2] if len(a) > 2 else ("null",)
        body = If(Bin("in", a[1], a[0]), Idx(a[0], a[1]), dflt)
    elif name == "objectHasAll":
        body = Bin("in", a[1], a[0])
    elif name == "startsWith":
        body = If(Bin("<", Len(a[0]), Len(a[1])), ("bool", False),
                  Bin("==", ("slice", a[0], N(0), Len(a[1]), None), a[1]))
    elif name == "endsWith":
        body = If(Bin("<", Len(a[0]), Len(a[1])), ("bool", False),
                  Bin("==", ("slice", a[0], Bin("-", Len(a[0]), Len(a[1])), None, None), a[1]))
    elif name == "substr":
        body = ("slice", a[0], a[1], Bin("+", a[1], a[2]), None)
    elif name == "stringChars":
        extra.append(rg_def)
        body = ("comp", Idx(a[0], V(i_)), [("for", i_, upto(Len(a[0])))])
    elif name == "removeAt":
        extra.append(rg_def)
        body = ("comp", Idx(a[0], V(i_)), [("for", i_, upto(Len(a[0]))), ("if", Bin("!=", V(i_), a[1]))])
    elif name == "find":
        extra.append(rg_def)
        body = ("comp", V(i_), [("for", i_, upto(Len(a[1]))), ("if", Bin("==", Idx(a[1], V(i_)), a[0]))])
    elif name == "xor":
        body = Bin("!=", a[0], a[1])
    elif name == "xnor":
        body = Bin("==", a[0], a[1])
    elif name == "equals":
        body = Bin("==", a[0], a[1])
    elif name == "assertEqual":
        body = If(Bin("==", a[0], a[1]), ("bool", True), Err("assertEqual failed"))
    elif name == "repeat":
        extra.append(rg_def)
        f = Fun([i_, x_], Bin("+", V(i_), V(x_)))
        empty = If(Bin("==", ("type", a[0]), S("string")), S(""), ("arr", []))
        body = If(Bin("<", a[1], N(0)), Err("repeat: negative count"),
                  foldl(f, ("comp", a[0], [("for", i_, upto(a[1]))]), empty))
    elif name == "slice":
        body = ("slice", a[0], a[1], a[2], a[3])
    else:
        raise ValueError(name)
    # a native builtin evaluates its arguments when it is called (every parameter that is not declared
    # as a thunk in jrsonnet-stdlib): the definition is applied tailstrict; LAZY parameters stay thunks
    lazy = LAZY.get(name, ())
    inner = ("local", extra, body) if extra else body
    strict = [i for i in range(len(args)) if i not in lazy]
    call = ("app", ("fun", [(p[i], None) for i in strict], inner), [args[i] for i in strict], [], True)
    lz = [(p[i], args[i]) for i in range(len(args)) if i in lazy]
    return ("local", lz, call) if lz else call


def render(name, args_js, named):
    if named:
        return f"std.{name}(" + ", ".join(f"{n}={x}" for n, x in zip(PARAMS[name], args_js)) + ")"
    return f"std.{name}(" + ", ".join(args_js) + ")"
