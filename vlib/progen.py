"""Program generator shared by C01/C03/C04/C16/C18: emits each program as a python AST that
renders to (a) Jsonnet source for the real code and (b) a term of Sem.Syntax.expr for the
Coq reference interpreter.

AST nodes (tuples):
 ("null",) ("bool",b) ("num",z) ("str",s) ("var",name) ("self",) ("dollar",)
 ("superidx",e) ("insuper",e) ("local",[(name,e)],body) ("if",c,t,f|None) ("un",op,e)
 ("bin",op,a,b) ("arr",[e]) ("comp",body,[("for",x,e)|("if",e)]) ("index",a,i)
 ("slice",a,i,j,k) ("fun",[(name,default|None)],body) ("app",f,[pos],[(name,e)],tailstrict)
 ("obj",[(name,e)] locals,[(cond,msg|None)] asserts,[(name_expr,vis,plus,body)] fields)
 ("error",e) ("assert",c,m|None,rest) ("trace",label,e) ("len",e) ("type",e)
 ("std",name,[args],uid)   a call of the native builtin std.<name>; Sem evaluates its reference
                           definition (vlib/stdref.py)
"""
import json

try:
    from vlib import stdref
except ImportError:            # imported as a top-level module
    import stdref

UNOPS = {"-": "UNeg", "+": "UPlus", "!": "UNot", "~": "UBitNot"}
BINOPS = {"*": "BMul", "/": "BDiv", "%": "BMod", "+": "BAdd", "-": "BSub", "<<": "BShl", ">>": "BShr",
          "<": "BLt", ">": "BGt", "<=": "BLe", ">=": "BGe", "==": "BEq", "!=": "BNe", "in": "BIn",
          "&": "BBitAnd", "^": "BBitXor", "|": "BBitOr", "&&": "BAnd", "||": "BOr"}
VIS = {":": "VisNormal", "::": "VisHidden", ":::": "VisUnhide"}


# ------------------------------------------------------------------ identifiers
class Names:
    def __init__(self):
        self.ids = {}

    def id(self, name):
        if name not in self.ids:
            self.ids[name] = len(self.ids) + 1
        return self.ids[name]


def cq_str(s):
    return "[" + "; ".join(str(ord(c)) for c in s) + "]%N"


def to_coq(e, names=None):
    names = names or Names()
    r = lambda x: to_coq(x, names)  # noqa
    t = e[0]
    if t == "null":
        return "ENull"
    if t == "bool":
        return f"(EBool {'true' if e[1] else 'false'})"
    if t == "num":
        return f"(ENum ({e[1]})%Z)"
    if t == "str":
        return f"(EStr {cq_str(e[1])})"
    if t == "var":
        return f"(EVar {names.id(e[1])}%N)"
    if t == "self":
        return "ESelf"
    if t == "dollar":
        return "EDollar"
    if t == "superidx":
        return f"(ESuperIdx {r(e[1])})"
    if t == "insuper":
        return f"(EInSuper {r(e[1])})"
    if t == "local":
        bs = "; ".join(f"({names.id(n)}%N, {r(x)})" for n, x in e[1])
        return f"(ELocal [{bs}] {r(e[2])})"
    if t == "if":
        return f"(EIf {r(e[1])} {r(e[2])} {r(e[3]) if e[3] is not None else 'ENull'})"
    if t == "un":
        return f"(EUn {UNOPS[e[1]]} {r(e[2])})"
    if t == "bin":
        return f"(EBin {BINOPS[e[1]]} {r(e[2])} {r(e[3])})"
    if t == "arr":
        return "(EArr [" + "; ".join(r(x) for x in e[1]) + "])"
    if t == "comp":
        sp = "; ".join(f"CFor {names.id(s[1])}%N {r(s[2])}" if s[0] == "for" else f"CIf {r(s[1])}" for s in e[2])
        return f"(EComp {r(e[1])} [{sp}])"
    if t == "index":
        return f"(EIndex {r(e[1])} {r(e[2])})"
    if t == "slice":
        o = lambda x: "None" if x is None else f"(Some {r(x)})"  # noqa
        return f"(ESlice {r(e[1])} {o(e[2])} {o(e[3])} {o(e[4])})"
    if t == "fun":
        ps = "; ".join(f"({names.id(n)}%N, {'None' if d is None else '(Some ' + r(d) + ')'})" for n, d in e[1])
        return f"(EFun [{ps}] {r(e[2])})"
    if t == "app":
        pos = "; ".join(r(x) for x in e[2])
        named = "; ".join(f"({names.id(n)}%N, {r(x)})" for n, x in e[3])
        return f"(EApp {r(e[1])} [{pos}] [{named}] {'true' if e[4] else 'false'})"
    if t == "obj":
        ls = "; ".join(f"({names.id(n)}%N, {r(x)})" for n, x in e[1])
        asr = "; ".join(f"({r(c)}, {'None' if m is None else '(Some ' + r(m) + ')'})" for c, m in e[2])
        fs = "; ".join(f"Field {r(n)} {VIS[v]} {'true' if p else 'false'} {r(b)}" for n, v, p, b in e[3])
        return f"(EObj [{ls}] [{asr}] [{fs}])"
    if t == "objcomp":
        sp = "; ".join(f"CFor {names.id(x[1])}%N {r(x[2])}" if x[0] == "for" else f"CIf {r(x[1])}" for x in e[3])
        return f"(EObjComp {r(e[1])} {r(e[2])} [{sp}])"
    if t in ("stdmap", "stdfilter"):
        # std.map(f, arr) = [f(x) for x in arr];  std.filter(f, arr) = [x for x in arr if f(x)]
        # (the function value is bound once, as an argument is)
        fv, xv = f"__f{id(e) % 100000}", f"__x{id(e) % 100000}"
        call = ("app", ("var", fv), [("var", xv)], [], False)
        comp = ("comp", call, [("for", xv, e[2])]) if t == "stdmap" else ("comp", ("var", xv), [("for", xv, e[2]), ("if", call)])
        return r(("local", [(fv, e[1])], comp))
    if t == "std":
        return r(stdref.definition(e[1], e[2], e[3]))
    if t == "error":
        return f"(EError {r(e[1])})"
    if t == "assert":
        return f"(EAssert {r(e[1])} {'None' if e[2] is None else '(Some ' + r(e[2]) + ')'} {r(e[3])})"
    if t == "trace":
        return f"(ETrace {e[1]}%N {r(e[2])})"
    if t == "len":
        return f"(ELen {r(e[1])})"
    if t == "type":
        return f"(EType {r(e[1])})"
    raise ValueError(t)


ATOMS = {"null", "bool", "num", "str", "var", "self", "dollar", "arr", "obj", "comp", "objcomp"}


def to_js(e, named_calls=False):
    """Jsonnet source, fully parenthesised (precedence is C06's business)."""
    r = lambda x: to_js(x, named_calls)  # noqa
    p = lambda x: r(x) if x[0] in ATOMS or (x[0] == "num" and x[1] >= 0) else "(" + r(x) + ")"  # noqa
    t = e[0]
    if t == "null":
        return "null"
    if t == "bool":
        return "true" if e[1] else "false"
    if t == "num":
        return str(e[1]) if e[1] >= 0 else f"({e[1]})"
    if t == "str":
        return json.dumps(e[1], ensure_ascii=False)
    if t == "var":
        return e[1]
    if t == "self":
        return "self"
    if t == "dollar":
        return "$"
    if t == "superidx":
        return f"super[{r(e[1])}]"
    if t == "insuper":
        return f"({p(e[1])} in super)"
    if t == "local":
        return "local " + ", ".join(f"{n} = {r(x)}" for n, x in e[1]) + "; " + r(e[2])
    if t == "if":
        s = f"if {r(e[1])} then {p(e[2])}"
        if e[3] is not None:
            s += f" else {p(e[3])}"
        return s
    if t == "un":
        return f"{e[1]}{p(e[2])}"
    if t == "bin":
        return f"{p(e[2])} {e[1]} {p(e[3])}"
    if t == "arr":
        return "[" + ", ".join(r(x) for x in e[1]) + "]"
    if t == "comp":
        sp = " ".join(f"for {s[1]} in {p(s[2])}" if s[0] == "for" else f"if {p(s[1])}" for s in e[2])
        return f"[{p(e[1])} {sp}]"
    if t == "index":
        return f"{p(e[1])}[{r(e[2])}]"
    if t == "slice":
        o = lambda x: "" if x is None else p(x)  # noqa
        s = f"{p(e[1])}[{o(e[2])}:{o(e[3])}"
        if e[4] is not None:
            s += f":{o(e[4])}"
        return s + "]"
    if t == "fun":
        ps = ", ".join(n if d is None else f"{n}={r(d)}" for n, d in e[1])
        return f"function({ps}) {p(e[2])}"
    if t == "app":
        pos = [r(x) for x in e[2]]
        named = [f"{n}={r(x)}" for n, x in e[3]]
        if named_calls and len(e) > 5 and e[5] is not None and not e[3]:
            # e[5] = parameter names of the callee (known statically): pass everything by name, reversed
            pn = e[5]
            named = [f"{pn[i]}={r(x)}" for i, x in enumerate(e[2])][::-1]
            pos = []
        return f"{p(e[1])}({', '.join(pos + named)})" + (" tailstrict" if e[4] else "")
    if t == "obj":
        parts = [f"local {n} = {r(x)}" for n, x in e[1]]
        parts += [f"assert {r(c)}" + ("" if m is None else f" : {r(m)}") for c, m in e[2]]
        for n, v, pl, b in e[3]:
            key = f"[{r(n)}]"
            parts.append(f"{key}{'+' if pl else ''}{v} {r(b)}")
        return "{" + ", ".join(parts) + "}"
    if t == "objcomp":
        sp = " ".join(f"for {x[1]} in {p(x[2])}" if x[0] == "for" else f"if {p(x[1])}" for x in e[3])
        return f"{{[{r(e[1])}]: {r(e[2])} {sp}}}"
    if t == "stdmap":
        return f"std.map({r(e[1])}, {r(e[2])})"
    if t == "stdfilter":
        return f"std.filter({r(e[1])}, {r(e[2])})"
    if t == "std":
        return stdref.render(e[1], [r(x) for x in e[2]], named_calls)
    if t == "error":
        return f"error {p(e[1])}"
    if t == "assert":
        return f"assert {r(e[1])}" + ("" if e[2] is None else f" : {r(e[2])}") + f"; {r(e[3])}"
    if t == "trace":
        return f"std.trace(\"L{e[1]}\", {r(e[2])})"
    if t == "len":
        return f"std.length({r(e[1])})"
    if t == "type":
        return f"std.type({r(e[1])})"
    raise ValueError(t)


# ------------------------------------------------------------------ Sem outcome -> python
def jval_py(t):
    """Sem.Syntax.jval term (parsed by core.parse_term) -> python value comparable with
    core.decanon(harness canon): numbers float, objects {"__obj__": [(k, v)]}"""
    from vlib.core import App
    if t == "JNull":
        return None
    assert isinstance(t, App), t
    if t.name == "JBool":
        return bool(t.args[0])
    if t.name == "JNum":
        return float(t.args[0])
    if t.name == "JStr":
        return "".join(chr(c) for c in t.args[0])
    if t.name == "JArr":
        return [jval_py(x) for x in t.args[0]]
    if t.name == "JObj":
        return {"__obj__": [("".join(chr(c) for c in k), jval_py(v)) for k, v in t.args[0]]}
    raise ValueError(t)


def outcome_py(t):
    """(outcome, log) -> ("val", value) | ("err", kind), [labels]"""
    from vlib.core import App
    out, log = t
    labels = [int(x) for x in log]
    if isinstance(out, App) and out.name == "OVal":
        return ("val", jval_py(out.args[0])), labels
    if isinstance(out, App) and out.name == "OErr":
        return ("err", out.args[0]), labels
    raise ValueError(out)


SEM_IMPORTS = ("From Coq Require Import List ZArith NArith.\n"
               "From JrV Require Import Sem.Syntax Sem.Interp.\nImport ListNotations.\n")


# ------------------------------------------------------------------ type-directed generator
NUM, BOOL, STR = "num", "bool", "str"


def T_arr(t):
    return ("arr", t)


class ProgGen:
    """Type-directed random programs.  With probability [p_err] per node a deliberately
    erroring / ill-typed term is produced; 'bombs' (errors / self-dependent values) are
    planted in positions the semantics never needs."""

    def __init__(self, rng, p_err=0.04, p_bomb=0.12, max_depth=5, stdlib=0.0):
        self.rng = rng
        self.stdlib = stdlib      # probability of a native standard-library call per node (vlib/stdref.py)
        self.p_err = p_err
        self.p_bomb = p_bomb
        self.max_depth = max_depth
        self.counter = 0
        self.stats = {}

    def note(self, k):
        self.stats[k] = self.stats.get(k, 0) + 1

    def fresh(self, prefix="v"):
        self.counter += 1
        return f"{prefix}{self.counter}"

    # ---- leaves
    def lit(self, ty):
        r = self.rng
        if ty == NUM:
            return ("num", r.choice([0, 1, 2, 3, 4, 5, 7, 10, 12, -1, -3]))
        if ty == BOOL:
            return ("bool", r.chance(0.5))
        if ty == STR:
            return ("str", r.choice(["", "a", "b", "ab", "ba", "x y", "é", "zz", "A", "héllo", "日本語", "a😀b", "naïve"]))
        if ty[0] == "arr":
            return ("arr", [self.lit(ty[1]) for _ in range(r.below(4))])
        if ty[0] == "obj":
            return ("obj", [], [], [(("str", k), ":", False, self.lit(t)) for k, t in ty[1]])
        raise ValueError(ty)

    def vars_of(self, env, ty):
        return [n for n, t in env if t == ty]

    def bomb(self):
        self.note("bomb")
        r = self.rng.below(4)
        if r == 0:
            return ("error", ("str", "bomb"))
        if r == 1:
            z = self.fresh("z")
            return ("local", [(z, ("bin", "+", ("var", z), ("num", 1)))], ("var", z))
        if r == 2:
            return ("index", ("arr", []), ("num", 0))
        return ("assert", ("bool", False), ("str", "bomb"), ("null",))

    def erroring(self, ty, env, d):
        """a term that fails (or is ill-typed) when evaluated"""
        self.note("erroring")
        r = self.rng.below(9)
        if r == 0:
            return ("error", self.gen(STR, env, 0))
        if r == 1:
            return ("bin", "+", self.gen(NUM, env, 0), self.gen(BOOL, env, 0))
        if r == 2:
            return ("index", self.gen(T_arr(NUM), env, 0), ("num", 9))
        if r == 3:
            return ("un", "!", self.gen(NUM, env, 0))
        if r == 4:
            return ("assert", ("bin", "<", self.gen(NUM, env, 0), ("num", -5)), None, self.lit(ty))
        if r == 5:
            return ("bin", "/", self.gen(NUM, env, 0), ("num", 0))
        if r == 6:
            return ("index", ("obj", [], [], [(("str", "a"), ":", False, ("num", 1))]), ("str", "zz"))
        if r == 7:
            return ("app", ("fun", [("p", None)], ("var", "p")), [("num", 1), ("num", 2)], [], False)
        return ("if", self.gen(NUM, env, 0), self.lit(ty), self.lit(ty))

    # ---- generic productions available at every type
    def generic(self, ty, env, d):
        r = self.rng
        k = r.below(100)
        if k < 14:
            c = self.gen(BOOL, env, d - 1)
            return ("if", c, self.gen(ty, env, d - 1), self.gen(ty, env, d - 1))
        if k < 30:
            return self.gen_local(ty, env, d)
        if k < 42:
            return self.gen_call(ty, env, d)
        if k < 52:
            # index into an array literal / variable of that element type
            n = 1 + r.below(3)
            arr = ("arr", [self.gen(ty, env, d - 1) if i == 0 else self.maybe_bomb(ty, env, 0) for i in range(n)])
            items = arr[1]
            r.shuffle(items)
            # index of the non-bomb element is unknown after shuffle: pick a safe one
            idx = r.below(n)
            return ("index", arr, ("num", idx))
        if k < 62:
            # field of an object literal; other fields may be bombs
            fname = r.choice(["a", "b", "c"])
            fields = [(("str", fname), r.choice([":", "::", ":::"]), False, self.gen(ty, env, d - 1))]
            for other in ["a", "b", "c"]:
                if other != fname and r.chance(0.4):
                    fields.append((("str", other), r.choice([":", "::"]), False, self.maybe_bomb(NUM, env, 0)))
            r.shuffle(fields)
            return ("index", ("obj", [], [], fields), ("str", fname))
        if k < 70:
            return ("assert", self.gen(BOOL, env, d - 1), ("str", "msg") if r.chance(0.5) else None,
                    self.gen(ty, env, d - 1))
        if k < 74 and ty == NUM:
            # one array reached through several routes: comprehension / concatenation / slice views
            # created before or after direct element reads
            a, c, x = self.fresh("a"), self.fresh("c"), self.fresh("x")
            elems = [self.gen(NUM, env, d - 1) for _ in range(2 + r.below(2))]
            mk = r.below(4)
            view = [("comp", ("bin", "+", ("var", x), ("num", 1)), [("for", x, ("var", a))]),
                    ("bin", "+", ("var", a), ("arr", [("num", 7)])),
                    ("slice", ("var", a), ("num", 0), None, None),
                    ("comp", ("var", x), [("for", x, ("bin", "+", ("arr", [("num", 0)]), ("var", a)))])][mk]
            uses = [("len", ("var", c)), ("index", ("var", a), ("num", 0)), ("index", ("var", a), ("num", 1)),
                    ("index", ("var", c), ("num", 1)), ("index", ("var", c), ("num", 0))]
            r.shuffle(uses)
            body = uses[0]
            for u in uses[1:1 + 1 + r.below(3)]:
                body = ("bin", "+", body, u)
            return ("local", [(a, ("arr", elems)), (c, view)], body)
        if k < 78:
            # element of a comprehension
            x = self.fresh("x")
            src = self.gen(T_arr(ty), env, d - 1)
            comp = ("comp", ("var", x), [("for", x, src)])
            return ("index", ("bin", "+", comp, ("arr", [self.lit(ty)])), ("num", 0))
        return None

    def maybe_bomb(self, ty, env, d):
        if self.rng.chance(0.5):
            return self.bomb()
        return self.gen(ty, env, d)

    def gen_local(self, ty, env, d):
        r = self.rng
        nb = 1 + r.below(3)
        names, types = [], []
        for _ in range(nb):
            nm = self.fresh("v") if r.chance(0.8) or not env else r.choice(env)[0]   # sometimes shadow
            if nm in names:
                nm = self.fresh("v")
            names.append(nm)
            types.append(r.choice([NUM, NUM, BOOL, STR, T_arr(NUM), T_arr(STR)]))
        inner = [(n, t) for n, t in zip(names, types)] + env
        binds = []
        for n, t in zip(names, types):
            # bindings may refer to each other (mutual recursion is legal; cycles are bombs by construction
            # only if actually needed) -- keep them referring to the OUTER env plus earlier names lazily
            if r.chance(self.p_bomb):
                binds.append((n, self.bomb()))
                inner = [(x, tt) for x, tt in inner if x != n] + [(x, tt) for x, tt in env if x == n]
            else:
                binds.append((n, self.gen(t, env, d - 1)))
        # remove bombed names from the visible env (never referenced => never needed)
        bombed = {n for (n, e) in binds if e[0] in ("error",) or (e[0] == "local" and e[1][0][0].startswith("z"))
                  or (e[0] == "index" and e[1] == ("arr", [])) or (e[0] == "assert" and e[1] == ("bool", False))}
        inner = [(n, t) for n, t in zip(names, types) if n not in bombed] + [(n, t) for n, t in env if n not in names]
        return ("local", binds, self.gen(ty, inner, d - 1))

    def gen_call(self, ty, env, d):
        r = self.rng
        np_ = r.below(4)
        pnames = [self.fresh("p") for _ in range(np_)]
        ptypes = [r.choice([NUM, NUM, BOOL, STR, T_arr(NUM)]) for _ in range(np_)]
        has_def = [r.chance(0.35) for _ in range(np_)]
        # a default may refer to other parameters (also later ones)
        params = []
        for i, n in enumerate(pnames):
            if has_def[i]:
                penv = [(m, t) for m, t in zip(pnames, ptypes) if m != n and not has_def[pnames.index(m)]] + env
                params.append((n, self.gen(ptypes[i], penv, min(d - 1, 1))))
            else:
                params.append((n, None))
        used = [(n, t) for n, t in zip(pnames, ptypes) if r.chance(0.75)]
        body = self.gen(ty, used + env, d - 1)
        fname = self.fresh("f")
        pos, named = [], []
        order = list(range(np_))
        split = r.below(np_ + 1)
        for i in order[:split]:
            pos.append(self.arg_for(i, pnames, ptypes, used, env, d))
        rest = order[split:]
        r.shuffle(rest)
        for i in rest:
            if has_def[i] and r.chance(0.6):
                continue
            named.append((pnames[i], self.arg_for(i, pnames, ptypes, used, env, d)))
        ts = r.chance(0.15)
        if ts:
            # tailstrict forces every argument: no bombs there
            pos = [a if not self.is_bomb(a) else self.lit(ptypes[i]) for i, a in zip(order[:split], pos)]
            named = [(n, a if not self.is_bomb(a) else self.lit(ptypes[pnames.index(n)])) for n, a in named]
        call = ("app", ("var", fname), pos, named, ts, pnames if not named else None)
        self.note("call")
        return ("local", [(fname, ("fun", params, body))], call)

    def is_bomb(self, e):
        return (e[0] == "error" or (e[0] == "local" and e[1][0][0].startswith("z")) or
                (e[0] == "index" and e[1] == ("arr", [])) or (e[0] == "assert" and e[1] == ("bool", False)))

    def arg_for(self, i, pnames, ptypes, used, env, d):
        if pnames[i] not in [n for n, _ in used] and self.rng.chance(0.6):
            return self.bomb()      # unused parameter: its argument is never needed
        return self.gen(ptypes[i], env, d - 1)

    # ---- main entry
    def gen(self, ty, env, d):
        r = self.rng
        if d > 0 and r.chance(self.p_err):
            return self.erroring(ty, env, d)
        vs = self.vars_of(env, ty)
        if d <= 0:
            if vs and r.chance(0.6):
                return ("var", r.choice(vs))
            return self.lit(ty)
        if vs and r.chance(0.15):
            return ("var", r.choice(vs))
        if self.stdlib and r.chance(self.stdlib):
            g = self.gen_std(ty, env, d)
            if g is not None:
                return g
        if r.chance(0.35):
            g = self.generic(ty, env, d)
            if g is not None:
                return g
        sub = lambda t: self.gen(t, env, d - 1)  # noqa
        k = r.below(100)
        if ty == NUM:
            if k < 30:
                return ("bin", r.choice(["+", "-", "*", "+", "-"]), sub(NUM), sub(NUM))
            if k < 36:
                return ("bin", "%", sub(NUM), ("num", r.choice([1, 2, 3, 5, -2])))
            if k < 40:
                return ("bin", "/", ("bin", "*", sub(NUM), ("num", 2)), ("num", r.choice([1, 2, -1, -2])))
            if k < 48:
                return ("bin", r.choice(["&", "|", "^"]), sub(NUM), sub(NUM))
            if k < 52:
                return ("bin", r.choice(["<<", ">>"]), sub(NUM), ("num", r.choice([0, 1, 2, 3])))
            if k < 60:
                return ("un", r.choice(["-", "+", "~"]), sub(NUM))
            if k < 72:
                return ("len", sub(r.choice([STR, T_arr(NUM), T_arr(STR)])))
            if k < 78:
                return ("len", self.gen_obj(env, d - 1))
            if k < 86:
                return self.gen_objread(NUM, env, d)
            if k < 94:
                return self.gen_hof(env, d)
            return self.lit(NUM)
        if ty == BOOL:
            if k < 25:
                t = r.choice([NUM, NUM, STR, T_arr(NUM)])
                return ("bin", r.choice(["<", ">", "<=", ">="]), sub(t), sub(t))
            if k < 50:
                t = r.choice([NUM, STR, BOOL, T_arr(NUM), T_arr(STR)])
                if r.chance(0.15):
                    return ("bin", r.choice(["==", "!="]), sub(t), sub(r.choice([NUM, STR, BOOL])))
                return ("bin", r.choice(["==", "!="]), sub(t), sub(t))
            if k < 56:
                return ("bin", r.choice(["==", "!="]), self.gen_obj(env, d - 1), self.gen_obj(env, d - 1))
            if k < 70:
                op = r.choice(["&&", "||"])
                a = sub(BOOL)
                b = sub(BOOL)
                return ("bin", op, a, b)
            if k < 76:
                # short-circuit with a bomb on the right
                if r.chance(0.5):
                    return ("bin", "||", ("bool", True), self.bomb())
                return ("bin", "&&", ("bool", False), self.bomb())
            if k < 84:
                return ("un", "!", sub(BOOL))
            if k < 92:
                return ("bin", "in", ("str", r.choice(["a", "b", "c", "zz"])), self.gen_obj(env, d - 1))
            return self.lit(BOOL)
        if ty == STR:
            if k < 30:
                return ("bin", "+", sub(STR), sub(STR))
            if k < 42:
                return ("bin", "+", sub(STR), sub(r.choice([NUM, BOOL])))
            if k < 48:
                return ("bin", "+", sub(NUM), sub(STR))
            if k < 52:
                return ("slice", sub(STR), self.slice_part(), self.slice_part(), self.step_part())
            if k < 60:
                # code-point (not byte) positions: negative and out-of-range bounds on non-ASCII text
                base = ("bin", "+", ("str", r.choice(["héllo", "日本語", "a😀b", "naïve café", "ß"])), sub(STR))
                neg = lambda: None if r.chance(0.3) else ("num", r.choice([-1, -2, -3, -4, -6, 1, 2]))  # noqa
                return ("slice", base, neg(), neg(), self.step_part())
            if k < 70:
                return ("type", sub(r.choice([NUM, BOOL, STR, T_arr(NUM)])))
            if k < 76:
                s = self.lit(STR)
                if len(s[1]) > 0:
                    return ("index", s, ("num", r.below(len(s[1]))))
                return s
            if k < 84:
                return self.gen_objread(STR, env, d)
            return self.lit(STR)
        if ty[0] == "arr":
            et = ty[1]
            if k < 30:
                return ("arr", [self.gen(et, env, d - 1) for _ in range(r.below(4))])
            if k < 50:
                x = self.fresh("x")
                src_t = r.choice([NUM, et])
                src = self.gen(T_arr(src_t), env, d - 1)
                specs = [("for", x, src)]
                inner = [(x, src_t)] + env
                if r.chance(0.5):
                    specs.append(("if", self.gen(BOOL, inner, d - 1)))
                if r.chance(0.25):
                    y = self.fresh("y")
                    specs.append(("for", y, self.gen(T_arr(NUM), inner, max(d - 2, 0))))
                    inner = [(y, NUM)] + inner
                return ("comp", self.gen(et, inner, d - 1), specs)
            if k < 65:
                return ("bin", "+", sub(ty), sub(ty))
            if k < 85:
                return ("slice", sub(ty), self.slice_part(), self.slice_part(), self.step_part())
            return self.lit(ty)
        raise ValueError(ty)

    def slice_part(self):
        r = self.rng
        if r.chance(0.35):
            return None
        return ("num", r.choice([0, 1, 2, 3, -1, -2, 5]))

    def step_part(self):
        r = self.rng
        if r.chance(0.6):
            return None
        return ("num", r.choice([1, 2, 3]))

    # ---- objects
    def gen_obj(self, env, d, want=None):
        """an object expression; `want` = (field, type) that must be readable"""
        r = self.rng
        layers = 1 + (r.below(3) if d > 0 else 0)
        names = ["a", "b", "c"]
        ftypes = {"a": NUM, "b": NUM, "c": STR}
        if want:
            ftypes[want[0]] = want[1]
        exprs = []
        defined = set()
        for li in range(layers):
            fields, locals_, asserts = [], [], []
            lenv = list(env)
            if r.chance(0.3):
                ln = self.fresh("l")
                lt = r.choice([NUM, STR])
                locals_.append((ln, self.gen(lt, env, max(d - 1, 0))))
                lenv = [(ln, lt)] + lenv
            for nm in names:
                must = want and nm == want[0] and li == 0
                if not (must or r.chance(0.55)):
                    continue
                t = ftypes[nm]
                plus = nm in defined and t in (NUM, STR) and r.chance(0.4)
                vis = r.choice([":", ":", ":", "::", ":::"])
                k = r.below(100)
                if plus and t == STR and r.chance(0.5):
                    # `+:` chains whose values make + non-associative (string, number, number)
                    body = self.gen(NUM, lenv, 0)
                elif k < 50 or d <= 0:
                    body = self.gen(t, lenv, max(d - 1, 0))
                elif k < 70 and t == NUM:
                    # late-bound reference to another field of the final object
                    other = r.choice([x for x in names if ftypes[x] == NUM and x != nm] or ["a"])
                    if other in defined or any(f[0][1] == other for f in fields):
                        body = ("bin", "+", ("index", ("self",), ("str", other)), ("num", 1))
                    else:
                        body = self.gen(t, lenv, max(d - 1, 0))
                elif k < 85 and nm in defined:
                    sup = ("superidx", ("str", nm))
                    body = ("bin", "+", sup, self.gen(t, lenv, 0)) if t in (NUM, STR) else sup
                elif k < 92 and nm in defined:
                    body = ("if", ("insuper", ("str", nm)), ("superidx", ("str", nm)), self.lit(t))
                else:
                    body = self.gen(t, lenv, max(d - 1, 0))
                fields.append((("str", nm), vis, plus, body))
            if r.chance(0.15) and (defined or fields):
                tgt = r.choice(sorted(defined | {f[0][1] for f in fields}))
                if ftypes.get(tgt) == NUM:
                    asserts.append((("bin", ">", ("index", ("self",), ("str", tgt)), ("num", -1000)), None))
            if r.chance(0.15):
                # a hidden bomb field nobody reads
                fields.append((("str", "h" + str(li)), "::", False, self.bomb()))
            for f in fields:
                defined.add(f[0][1])
            exprs.append(("obj", locals_, asserts, fields))
        e = exprs[0]
        for x in exprs[1:]:
            e = ("bin", "+", e, x)
        self.note(f"obj{layers}")
        return e

    def gen_mixin_reuse(self, env, d):
        """the same object literal (with object-level locals and super references) mixed in several
        times into one chain: each copy must see its own super"""
        r = self.rng
        m, ln = self.fresh("m"), self.fresh("l")
        base = ("obj", [], [], [(("str", "a"), r.choice([":", "::", ":::"]), False, self.gen(NUM, env, max(d - 1, 0))),
                                (("str", "b"), ":", False, ("num", r.choice([0, 1, 5])))])
        how = r.below(4)
        if how == 0:
            fa = (("str", "a"), ":", False, ("bin", "+", ("superidx", ("str", "a")), ("var", ln)))
        elif how == 1:
            fa = (("str", "a"), ":", True, ("var", ln))
        elif how == 2:
            fa = (("str", "a"), ":", False, ("bin", "+", ("bin", "*", ("superidx", ("str", "a")), ("num", 2)), ("var", ln)))
        else:
            fa = (("str", "a"), ":", False, ("if", ("insuper", ("str", "a")),
                                            ("bin", "+", ("superidx", ("str", "a")), ("var", ln)), ("num", 100)))
        locals_ = [(ln, self.gen(NUM, env, 0))] if r.chance(0.8) else []
        if not locals_:
            fa = (fa[0], fa[1], fa[2], ("bin", "+", ("superidx", ("str", "a")), ("num", 1))) if how != 1 else \
                 (fa[0], fa[1], True, ("num", 1))
        fields = [fa]
        if r.chance(0.4):
            fields.append((("str", "b"), ":", False, ("bin", "+", ("superidx", ("str", "b")), ("index", ("self",), ("str", "a")))))
        mixin = ("obj", locals_, [], fields)
        chain = base
        for _ in range(2 + r.below(2)):
            if r.chance(0.25):
                chain = ("bin", "+", chain, ("obj", [], [], [(("str", "c"), ":", False, ("str", "x"))]))
            chain = ("bin", "+", chain, ("var", m))
        self.note("mixin_reuse")
        read = ("index", chain, ("str", r.choice(["a", "a", "b"])))
        return ("local", [(m, mixin)], read)

    def gen_hof(self, env, d):
        """functions as values: currying, functions passed as arguments and returned, closures that
        capture locals, comprehension variables and parameters, bounded recursion"""
        r = self.rng
        k = r.below(5)
        sub = lambda: self.gen(NUM, env, max(d - 2, 0))  # noqa
        a, b, f, g = self.fresh("a"), self.fresh("b"), self.fresh("f"), self.fresh("g")
        op = r.choice(["+", "-", "*"])
        if k == 0:      # currying; the inner closure captures the outer parameter
            mk = ("fun", [(a, None)], ("fun", [(b, ("num", 2))], ("bin", op, ("var", a), ("var", b))))
            call = ("app", ("app", ("var", f), [sub()], [], False), [sub()] if r.chance(0.7) else [], [], False)
            return ("local", [(f, mk)], call)
        if k == 1:      # a function passed as an argument, applied twice
            ap = ("fun", [(g, None), (a, None)], ("app", ("var", g), [("app", ("var", g), [("var", a)], [], False)], [], False))
            inc = ("fun", [(b, None)], ("bin", op, ("var", b), sub()))
            return ("local", [(f, ap)], ("app", ("var", f), [inc, sub()], [], r.chance(0.2)))
        if k == 2:      # closures created in a comprehension, each capturing its own loop variable
            x = self.fresh("x")
            fs = ("comp", ("fun", [(b, None)], ("bin", op, ("var", x), ("var", b))),
                  [("for", x, ("arr", [("num", 1), ("num", 2), ("num", 3)]))])
            i = r.below(3)
            return ("local", [(f, fs)], ("app", ("index", ("var", f), ("num", i)), [sub()], [], False))
        if k == 3:      # bounded recursion with an accumulator, mutual recursion in one local
            ev = ("fun", [(a, None)], ("if", ("bin", "<=", ("var", a), ("num", 0)), ("num", 1),
                                       ("app", ("var", g), [("bin", "-", ("var", a), ("num", 1))], [], False)))
            od = ("fun", [(a, None)], ("if", ("bin", "<=", ("var", a), ("num", 0)), ("num", 0),
                                       ("app", ("var", f), [("bin", "-", ("var", a), ("num", 1))], [], False)))
            return ("local", [(f, ev), (g, od)], ("app", ("var", f), [("num", r.below(7))], [], r.chance(0.3)))
        if k == 4 and r.chance(0.6):
            # a Jsonnet function handed to a library function as a callback; its defaulted parameters refer
            # to each other and shadow outer locals of the same name
            x, kk, rr = self.fresh("x"), self.fresh("kk"), self.fresh("rr")
            arr = ("arr", [("num", 1), ("num", 2), ("num", 3)])
            cb = ("fun", [(x, None), (kk, ("num", 2)), (rr, ("bin", op, ("var", x), ("var", kk)))], ("var", rr))
            inner = ("index", ("stdmap", cb, arr), ("num", r.below(3)))
            if r.chance(0.5):
                pred = ("fun", [(x, None), (kk, ("num", 2)), (rr, ("bin", ">=", ("var", x), ("var", kk)))], ("var", rr))
                inner = ("len", ("stdfilter", pred, arr))
            self.note("callback")
            return ("local", [(kk, ("num", 100)), (rr, ("num", 7))], inner)
        # a function stored in an object field / method using self
        o = self.fresh("o")
        obj = ("obj", [], [], [(("str", "k"), ":", False, sub()),
                               (("str", "m"), "::", False, ("fun", [(a, None)], ("bin", op, ("var", a), ("index", ("self",), ("str", "k")))))])
        ext = ("bin", "+", ("var", o), ("obj", [], [], [(("str", "k"), ":", False, ("num", 100))])) if r.chance(0.5) else ("var", o)
        self.note("hof")
        return ("local", [(o, obj)], ("app", ("index", ext, ("str", "m")), [sub()], [], False))

    # ---- native standard-library calls (Sem runs the reference definition)
    def callback(self, ptypes, rty, env, d):
        """a function literal that uses every parameter (so that the native builtin and the reference
        definition need the same elements), closes over the environment, and sometimes carries extra
        defaulted parameters that refer to the earlier ones"""
        r = self.rng
        ps = [self.fresh("c") for _ in ptypes]
        sub = lambda t: self.gen(t, env, max(d - 2, 0))  # noqa

        def use(i):
            v, t = ("var", ps[i]), ptypes[i]
            if t == rty:
                return v
            if rty == NUM:
                return ("len", v) if t != BOOL else ("if", v, ("num", 1), ("num", 0))
            if rty == STR:
                return ("bin", "+", ("str", ""), v) if t in (NUM, BOOL) else ("type", v)
            if rty == BOOL:
                return {NUM: ("bin", ">", v, ("num", 1)), STR: ("bin", "<", v, ("str", "b"))}.get(
                    t, ("bin", ">", ("len", v), ("num", 1)))
            if rty[0] == "arr":
                return ("arr", [v]) if rty[1] == t else ("arr", [])
            return None
        parts = [use(i) for i in range(len(ps))]
        if any(x is None for x in parts):
            return None
        if rty == NUM:
            body = parts[0]
            for x in parts[1:]:
                body = ("bin", r.choice(["+", "-", "*"]), body, x)
            if r.chance(0.5):
                body = ("bin", r.choice(["+", "-"]), body, sub(NUM))
        elif rty == STR:
            body = parts[0]
            for x in parts[1:]:
                body = ("bin", "+", body, x)
            if r.chance(0.4):
                body = ("bin", "+", body, sub(STR))
        elif rty == BOOL:
            body = parts[0]
            for x in parts[1:]:
                body = ("bin", r.choice(["==", "!="]), body, x)
        else:
            body = parts[0]
            for x in parts[1:]:
                body = ("bin", "+", body, x)
            if r.chance(0.4):
                body = ("bin", "+", body, ("arr", [self.gen(rty[1], env, 0)]))
        params = [(n, None) for n in ps]
        if r.chance(0.25):
            # defaulted extra parameter referring to the first one; shadows nothing, never supplied
            k = self.fresh("k")
            params.append((k, ("var", ps[0])))
            if ptypes[0] == rty and rty in (NUM, STR) or (rty[0] == "arr" and ptypes[0] == rty):
                body = ("bin", "+", body, ("var", k))
        self.note("std:callback")
        return ("fun", params, body)

    def gen_std(self, ty, env, d):
        r = self.rng
        sub = lambda t: self.gen(t, env, d - 1)  # noqa
        small = lambda: ("num", r.below(5))  # noqa
        A_N, A_S = T_arr(NUM), T_arr(STR)
        cand = []
        if ty == NUM:
            cand = ["foldl", "foldr", "count", "sum", "max", "min", "abs", "sign", "mod", "get", "len_of_arr", "idx_of_arr"]
        elif ty == BOOL:
            cand = ["startsWith", "endsWith", "isX", "xor", "xnor", "equals", "assertEqual", "objectHasAll"]
        elif ty == STR:
            cand = ["join", "lines", "substr", "foldl_str", "repeat_str", "get_str"]
        elif ty == A_N:
            cand = ["makeArray", "range", "mapWithIndex", "reverse", "filterMap", "flattenArrays", "removeAt", "find",
                    "repeat", "slice", "flatMap", "map", "filter", "foldl_arr"]
        elif ty == A_S:
            cand = ["stringChars", "reverse", "removeAt", "repeat", "slice", "map_str", "filter"]
        if not cand:
            return None
        c = r.choice(cand)
        self.counter += 1
        u = self.counter
        mk = lambda name, args: ("std", name, args, u)  # noqa
        self.note("std:" + c)
        if c in ("foldl", "foldr"):
            et = r.choice([NUM, STR])
            order = [NUM, et] if c == "foldl" else [et, NUM]
            cb = self.callback(order, NUM, env, d)
            return cb and mk(c, [cb, sub(T_arr(et)), sub(NUM)])
        if c == "foldl_str":
            return self._fold_str(env, d, mk)
        if c == "foldl_arr":
            cb = self.callback([A_N, NUM], A_N, env, d)
            return cb and mk(r.choice(["foldl"]), [cb, sub(A_N), ("arr", [])])
        if c == "count":
            t = r.choice([NUM, STR])
            return mk("count", [sub(T_arr(t)), sub(t)])
        if c == "sum":
            return mk("sum", [sub(A_N)])
        if c in ("max", "min", "mod"):
            b = sub(NUM) if c != "mod" else ("num", r.choice([1, 2, 3, 5, -2]))
            return mk(c, [sub(NUM), b])
        if c in ("abs", "sign"):
            return mk(c, [sub(NUM)])
        if c in ("get", "get_str"):
            vt = NUM if c == "get" else STR
            fname = r.choice(["a", "b", "zz"])
            fields = [(("str", n), r.choice([":", "::"]), False, self.gen(vt, env, max(d - 2, 0))) for n in ("a", "b") if r.chance(0.7)]
            obj = ("obj", [], [], fields)
            args = [obj, ("str", fname)]
            if r.chance(0.8) or fname == "zz" or fname not in [f[0][1] for f in fields]:
                args.append(sub(vt))
            elif fname in [f[0][1] for f in fields]:
                pass
            return mk("get", args)
        if c == "len_of_arr":
            g = self.gen_std(r.choice([A_N, A_S]), env, d - 1)
            return g and ("len", g)
        if c == "idx_of_arr":
            g = self.gen_std(A_N, env, d - 1)
            return g and ("index", ("bin", "+", g, ("arr", [("num", 0)])), ("num", 0))
        if c in ("startsWith", "endsWith"):
            return mk(c, [sub(STR), sub(STR)])
        if c == "isX":
            t = r.choice([NUM, STR, BOOL, A_N])
            return mk(r.choice(["isString", "isNumber", "isBoolean", "isArray", "isObject", "isFunction"]), [sub(t)])
        if c in ("xor", "xnor"):
            return mk(c, [sub(BOOL), sub(BOOL)])
        if c in ("equals", "assertEqual"):
            t = r.choice([NUM, STR, A_N])
            x = sub(t)
            return mk(c, [x, x if (c == "assertEqual" and r.chance(0.7)) else sub(t)])
        if c == "objectHasAll":
            return mk(c, [self.gen_obj(env, d - 1), ("str", r.choice(["a", "b", "c", "zz"]))])
        if c == "join":
            return mk("join", [sub(STR), sub(A_S)])
        if c == "lines":
            return mk("lines", [sub(A_S)])
        if c == "substr":
            return mk("substr", [sub(STR), small(), small()])
        if c == "repeat_str":
            return mk("repeat", [sub(STR), ("num", r.below(4))])
        if c == "makeArray":
            cb = self.callback([NUM], NUM, env, d)
            return cb and mk("makeArray", [small(), cb])
        if c == "range":
            lo = r.choice([0, 1, -2, 3])
            return mk("range", [("num", lo), ("num", lo + r.choice([-2, -1, 0, 1, 3, 4]))])
        if c == "mapWithIndex":
            et = r.choice([NUM, STR])
            cb = self.callback([NUM, et], NUM, env, d)
            return cb and mk("mapWithIndex", [cb, sub(T_arr(et))])
        if c == "reverse":
            return mk("reverse", [sub(ty)])
        if c == "filterMap":
            ff, mf = self.callback([NUM], BOOL, env, d), self.callback([NUM], NUM, env, d)
            return ff and mf and mk("filterMap", [ff, mf, sub(A_N)])
        if c == "flattenArrays":
            return mk("flattenArrays", [("arr", [sub(A_N) for _ in range(r.below(4))])])
        if c == "removeAt":
            return mk("removeAt", [sub(ty), ("num", r.choice([0, 1, 2, 3, -1, 7]))])
        if c == "find":
            return mk("find", [sub(NUM), sub(A_N)])
        if c == "repeat":
            return mk("repeat", [sub(ty), ("num", r.below(4))])
        if c == "slice":
            part = lambda: ("null",) if r.chance(0.35) else ("num", r.choice([0, 1, 2, 3, -1, -2, 6]))  # noqa
            step = ("null",) if r.chance(0.5) else ("num", r.choice([1, 2, 3]))
            return mk("slice", [sub(ty), part(), part(), step])
        if c == "flatMap":
            cb = self.callback([NUM], A_N, env, d)
            return cb and mk("flatMap", [cb, sub(A_N)])
        if c == "map":
            et = r.choice([NUM, STR])
            cb = self.callback([et], NUM, env, d)
            return cb and mk("map", [cb, sub(T_arr(et))])
        if c == "map_str":
            et = r.choice([NUM, STR])
            cb = self.callback([et], STR, env, d)
            return cb and mk("map", [cb, sub(T_arr(et))])
        if c == "filter":
            cb = self.callback([ty[1]], BOOL, env, d)
            return cb and mk("filter", [cb, sub(ty)])
        if c == "stringChars":
            return mk("stringChars", [sub(STR)])
        return None

    def _fold_str(self, env, d, mk):
        r = self.rng
        et = r.choice([NUM, STR])
        cb = self.callback([STR, et], STR, env, d)
        which = r.choice(["foldl", "foldr"])
        if which == "foldr":
            cb = self.callback([et, STR], STR, env, d)
        return cb and mk(which, [cb, self.gen(T_arr(et), env, d - 1), self.gen(STR, env, d - 1)])

    def gen_objcomp(self, env, d):
        """{[k]: body for k in [...] if ..}: field names from the loop variable, bodies that see the loop
        variables, the enclosing scope and (late-bound) self"""
        r = self.rng
        k = self.fresh("k")
        keys = ["a", "b", "c", "zz"]
        r.shuffle(keys)
        src = ("arr", [("str", x) for x in keys[:1 + r.below(4)]])
        if r.chance(0.15):
            src = ("arr", src[1] + [src[1][0]])          # duplicate field name: an error
        specs = [("for", k, src)]
        inner = [(k, STR)] + env
        if r.chance(0.4):
            specs.append(("if", ("bin", "!=", ("var", k), ("str", r.choice(keys)))))
        if r.chance(0.3):
            j = self.fresh("j")
            specs.append(("for", j, ("arr", [("num", 1)] if r.chance(0.7) else [("num", 1), ("num", 2)])))
            inner = [(j, NUM)] + inner
        how = r.below(4)
        if how == 0:
            body = ("len", ("var", k))
        elif how == 1:
            body = ("bin", "+", ("len", ("var", k)), self.gen(NUM, inner, max(d - 1, 0)))
        elif how == 2:
            body = ("if", ("bin", "==", ("var", k), ("str", "a")), ("num", 1),
                    ("bin", "+", ("index", ("self",), ("str", "a")), ("len", ("var", k))))
        else:
            body = self.gen(NUM, inner, max(d - 1, 0))
        name = ("var", k) if r.chance(0.85) else ("if", ("bin", "==", ("var", k), ("str", "zz")), ("null",), ("var", k))
        self.note("objcomp")
        return ("objcomp", name, body, specs)

    def gen_objread(self, ty, env, d):
        if ty == NUM and self.rng.chance(0.25):
            return self.gen_mixin_reuse(env, d)
        if ty == NUM and self.rng.chance(0.2):
            oc = self.gen_objcomp(env, d)
            k = self.rng.below(3)
            if k == 0:
                return ("len", oc)
            if k == 1:
                return ("index", oc, ("str", self.rng.choice(["a", "b"])))
            return ("index", ("bin", "+", ("obj", [], [], [(("str", "a"), ":", False, ("num", 50))]), oc), ("str", "a"))
        nm = self.rng.choice(["a", "b"]) if ty == NUM else "c"
        o = self.gen_obj(env, d - 1, want=(nm, ty))
        if self.rng.chance(0.3):
            v = self.fresh("o")
            return ("local", [(v, o)], ("bin", "+" if ty != BOOL else "==",
                                        ("index", ("var", v), ("str", nm)), ("index", ("var", v), ("str", nm))))
        return ("index", o, ("str", nm))

    def program(self):
        """a closed program whose value manifests"""
        r = self.rng
        d = 2 + r.below(self.max_depth - 1)
        k = r.below(100)
        if k < 25:
            return self.gen(NUM, [], d)
        if k < 35:
            return self.gen(BOOL, [], d)
        if k < 50:
            return self.gen(STR, [], d)
        if k < 70:
            return self.gen(T_arr(r.choice([NUM, STR, BOOL])), [], d)
        if k < 84:
            return self.gen_obj([], d)
        if k < 90:
            return self.gen_objcomp([], d)
        return ("arr", [self.gen(NUM, [], d - 1), self.gen_obj([], d - 1), self.gen(STR, [], d - 1)])


def size(e):
    if isinstance(e, tuple):
        return 1 + sum(size(x) for x in e[1:])
    if isinstance(e, list):
        return sum(size(x) for x in e)
    return 0


def instrument(e, counter=None):
    """wrap every sub-expression in a distinct std.trace label (C03)"""
    counter = counter or [0]

    def lab(x):
        counter[0] += 1
        return ("trace", counter[0], x)

    def w(x):
        return lab(go(x))

    def go(x):
        t = x[0]
        if t in ("null", "bool", "num", "str", "var", "self", "dollar"):
            return x
        if t in ("superidx", "insuper", "error", "len", "type"):
            return (t, w(x[1]))
        if t == "local":
            return ("local", [(n, w(b)) for n, b in x[1]], w(x[2]))
        if t == "if":
            return ("if", w(x[1]), w(x[2]), None if x[3] is None else w(x[3]))
        if t == "un":
            return ("un", x[1], w(x[2]))
        if t == "bin":
            return ("bin", x[1], w(x[2]), w(x[3]))
        if t == "arr":
            return ("arr", [w(y) for y in x[1]])
        if t == "comp":
            return ("comp", w(x[1]), [("for", s[1], w(s[2])) if s[0] == "for" else ("if", w(s[1])) for s in x[2]])
        if t == "index":
            return ("index", w(x[1]), w(x[2]))
        if t == "slice":
            o = lambda y: None if y is None else w(y)  # noqa
            return ("slice", w(x[1]), o(x[2]), o(x[3]), o(x[4]))
        if t == "fun":
            return ("fun", [(n, None if dft is None else w(dft)) for n, dft in x[1]], w(x[2]))
        if t == "app":
            return ("app", w(x[1]), [w(y) for y in x[2]], [(n, w(y)) for n, y in x[3]], x[4]) + tuple(x[5:])
        if t == "obj":
            return ("obj", [(n, w(b)) for n, b in x[1]],
                    [(w(c), None if m is None else w(m)) for c, m in x[2]],
                    [(n, v, p, w(b)) for n, v, p, b in x[3]])
        if t in ("stdmap", "stdfilter"):
            return (t, w(x[1]), w(x[2]))
        if t == "std":
            return ("std", x[1], [w(y) for y in x[2]], x[3])
        if t == "objcomp":
            return ("objcomp", w(x[1]), w(x[2]),
                    [("for", y[1], w(y[2])) if y[0] == "for" else ("if", w(y[1])) for y in x[3]])
        if t == "assert":
            return ("assert", w(x[1]), None if x[2] is None else w(x[2]), w(x[3]))
        if t == "trace":
            return x
        raise ValueError(t)

    return w(e), counter[0]
