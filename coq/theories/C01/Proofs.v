(** C01 proofs: scope flattening; the argument binder refines the language rule. *)
From Coq Require Import List ZArith NArith Bool Arith Lia Permutation.
From JrV Require Import C01.Model.
Import ListNotations.

(** *** Scope *)
Lemma hget_app {V} (k : name) (a b : hmap V) :
  hget k (a ++ b) = match hget k a with Some v => Some v | None => hget k b end.
Proof.
  induction a as [|[k' v] a IH]; cbn [app hget]; [reflexivity|].
  destruct (N.eqb k k'); [reflexivity|exact IH].
Qed.

Lemma scope_flatten {V} (l : layered V) (k : name) : lget k l = hget k (flatten l).
Proof.
  induction l as [cur|parent IH cur]; cbn [lget flatten]; [reflexivity|].
  rewrite hget_app, IH. reflexivity.
Qed.

Lemma scope_contains {V} (l : layered V) (k : name) :
  lcontains k l = match lget k l with Some _ => true | None => false end.
Proof.
  induction l as [cur|parent IH cur]; cbn [lcontains lget]; [reflexivity|].
  destruct (hget k cur); [reflexivity|exact IH].
Qed.

(** innermost binding shadows: extending with a layer that binds [k] hides every outer one *)
Lemma scope_shadow {V} (l : layered V) (cur : hmap V) k v :
  hget k cur = Some v -> lget k (Extend l cur) = Some v.
Proof. intros H. cbn [lget]. rewrite H. reflexivity. Qed.

Lemma scope_inherit {V} (l : layered V) (cur : hmap V) k :
  hget k cur = None -> lget k (Extend l cur) = lget k l.
Proof. intros H. cbn [lget]. rewrite H. reflexivity. Qed.

(** *** association-map facts *)
Lemma aget_aremove k n m : aget n (aremove k m) = if N.eqb n k then None else aget n m.
Proof.
  induction m as [|[k' v] m IH]; cbn [aremove aget].
  - destruct (N.eqb n k); reflexivity.
  - destruct (N.eqb_spec k k') as [->|Hk].
    + rewrite IH. destruct (N.eqb_spec n k'); reflexivity.
    + cbn [aget]. rewrite IH. destruct (N.eqb_spec n k') as [->|Hn].
      * destruct (N.eqb_spec k' k); [congruence|reflexivity].
      * reflexivity.
Qed.

Lemma aget_ainsert k v n m :
  aget n (fst (ainsert k v m)) = if N.eqb n k then Some v else aget n m.
Proof.
  unfold ainsert. cbn [fst aget]. destruct (N.eqb_spec n k) as [->|H]; [reflexivity|].
  rewrite aget_aremove. destruct (N.eqb_spec n k); [contradiction|reflexivity].
Qed.

Lemma aget_app n a b : aget n (a ++ b) = match aget n a with Some v => Some v | None => aget n b end.
Proof.
  induction a as [|[k v] a IH]; cbn [app aget]; [reflexivity|].
  destruct (N.eqb n k); [reflexivity|exact IH].
Qed.

Lemma index_of_shift n l i :
  index_of n l (S i) = option_map S (index_of n l i).
Proof.
  revert i. induction l as [|x t IH]; intros i; cbn [index_of]; [reflexivity|].
  destruct (N.eqb n x); [reflexivity|apply IH].
Qed.

Lemma index_of_none n l i : index_of n l i = None <-> ~ In n l.
Proof.
  revert i. induction l as [|x t IH]; intros i; cbn [index_of In]; [tauto|].
  destruct (N.eqb_spec n x) as [->|H].
  - split; [discriminate|]. intros Hn. exfalso. apply Hn. left. reflexivity.
  - rewrite IH. split; [intros Hn [E|I]; [congruence|contradiction] | tauto].
Qed.

Lemma index_of_some n l i j : index_of n l i = Some j -> i <= j /\ nth_error l (j - i) = Some n.
Proof.
  revert i. induction l as [|x t IH]; intros i; cbn [index_of]; [discriminate|].
  destruct (N.eqb_spec n x) as [->|H].
  - intros E. injection E as <-. rewrite Nat.sub_diag. split; [lia|reflexivity].
  - intros E. apply IH in E. destruct E as [Hle Hn]. split; [lia|].
    replace (j - i) with (S (j - S i)) by lia. exact Hn.
Qed.

Lemma firstn_In' {A} (l : list A) : forall n x, In x (firstn n l) -> In x l.
Proof.
  induction l as [|y t IH]; intros n x H; destruct n; cbn [firstn] in H; try contradiction.
  destruct H as [->|H]; [left; reflexivity|right; eapply IH; exact H].
Qed.

(** *** positional binding *)
Lemma bind_pos_get ps : forall i u m n,
  NoDup (map fst ps) -> u <= length ps ->
  aget n (bind_pos ps i u m) =
  match index_of n (firstn u (map fst ps)) 0 with
  | Some j => Some (SArg (i + j))
  | None => aget n m
  end.
Proof.
  induction ps as [|[p d] ps IH]; intros i u m n Hnd Hu.
  - cbn in Hu. replace u with 0 by lia. reflexivity.
  - destruct u as [|u']; [reflexivity|].
    cbn [bind_pos map fst firstn index_of]. inversion Hnd as [|? ? Hnotin Hnd']; subst.
    rewrite IH by (try assumption; cbn in Hu; lia).
    destruct (N.eqb_spec n p) as [->|Hnp].
    + assert (Hnone : index_of p (firstn u' (map fst ps)) 0 = None).
      { apply index_of_none. intros Hin. apply Hnotin. eapply firstn_In'. exact Hin. }
      rewrite Hnone, aget_ainsert, N.eqb_refl. f_equal. f_equal. lia.
    + rewrite index_of_shift. destruct (index_of n (firstn u' (map fst ps)) 0) as [j|].
      * cbn [option_map]. f_equal. f_equal. lia.
      * cbn [option_map]. rewrite aget_ainsert.
        destruct (N.eqb_spec n p); [contradiction|reflexivity].
Qed.

(** *** named binding *)
Definition known (ps : params) (n : name) : bool := existsb (fun p => N.eqb (fst p) n) ps.

Lemma known_in ps n : known ps n = true <-> In n (map fst ps).
Proof.
  unfold known. rewrite existsb_exists. split.
  - intros [[p d] [Hin He]]. cbn in He. apply N.eqb_eq in He. subst. apply in_map_iff. exists (n, d). auto.
  - intros Hin. apply in_map_iff in Hin. destruct Hin as [[p d] [E Hin]]. cbn in E. subst.
    exists (n, d). split; [exact Hin|]. cbn. apply N.eqb_refl.
Qed.

Lemma bind_named_ok ps : forall named i m,
  (forall n, In n named -> In n (map fst ps)) ->
  NoDup named ->
  (forall n, In n named -> aget n m = None) ->
  exists m', bind_named ps named i m = inl m' /\
    forall n, aget n m' = match index_of n named 0 with
                          | Some j => Some (SArg (i + j))
                          | None => aget n m
                          end.
Proof.
  induction named as [|x t IH]; intros i m Hk Hnd Hfree.
  - exists m. split; reflexivity.
  - cbn [bind_named]. fold (known ps x).
    assert (Hkx : known ps x = true) by (apply known_in, Hk; left; reflexivity).
    rewrite Hkx. cbn [negb]. unfold ainsert at 1.
    rewrite (Hfree x (or_introl eq_refl)).
    inversion Hnd as [|? ? Hxt Hnd']; subst.
    destruct (IH (S i) ((x, SArg i) :: aremove x m)) as (m' & Hm' & Hget).
    + intros n Hn. apply Hk. right. exact Hn.
    + exact Hnd'.
    + intros n Hn. cbn [aget]. destruct (N.eqb_spec n x) as [->|Hne]; [contradiction|].
      rewrite aget_aremove. destruct (N.eqb_spec n x); [contradiction|].
      apply Hfree. right. exact Hn.
    + exists m'. split; [exact Hm'|]. intros n. rewrite Hget. cbn [index_of].
      destruct (N.eqb_spec n x) as [->|Hne].
      * assert (Hnone : index_of x t 0 = None) by (apply index_of_none; exact Hxt).
        rewrite Hnone. cbn [aget]. rewrite N.eqb_refl.
        f_equal. f_equal. lia.
      * rewrite index_of_shift. destruct (index_of n t 0) as [j|]; cbn [option_map].
        -- f_equal. f_equal. lia.
        -- cbn [aget]. destruct (N.eqb_spec n x); [contradiction|].
           rewrite aget_aremove. destruct (N.eqb_spec n x); [contradiction|reflexivity].
Qed.

Lemma bind_named_inv ps : forall named i m m',
  bind_named ps named i m = inl m' ->
  (forall n, In n named -> In n (map fst ps)) /\ NoDup named /\
  (forall n, In n named -> aget n m = None).
Proof.
  induction named as [|x t IH]; intros i m m' H.
  - split; [intros n []|]. split; [constructor|intros n []].
  - cbn [bind_named] in H. fold (known ps x) in H.
    destruct (known ps x) eqn:Hk; cbn [negb] in H; [|discriminate].
    unfold ainsert in H. destruct (aget x m) eqn:Hx; [discriminate|].
    apply IH in H. destruct H as (Hkn & Hnd & Hfree).
    assert (Hxt : ~ In x t).
    { intros Hin. specialize (Hfree x Hin). cbn [aget] in Hfree. rewrite N.eqb_refl in Hfree. discriminate. }
    split; [|split].
    + intros n [<-|Hn]; [apply known_in; exact Hk|apply Hkn; exact Hn].
    + constructor; assumption.
    + intros n [E|Hn]; [subst n; exact Hx|].
      specialize (Hfree n Hn). cbn [aget] in Hfree.
      destruct (N.eqb_spec n x) as [E|Hne]; [subst n; contradiction|].
      rewrite aget_aremove in Hfree. destruct (N.eqb_spec n x); [contradiction|exact Hfree].
Qed.

(** *** defaults *)
Definition bound (passed : amap) (n : name) : bool :=
  match aget n passed with Some _ => true | None => false end.

Lemma bind_defaults_spec ps : forall idx passed,
  NoDup (map fst ps) ->
  let (defs, c) := bind_defaults ps idx passed in
  c = length (filter (fun p => snd p && negb (bound passed (fst p))) ps) /\
  forall n, aget n defs =
    match index_of n (map fst ps) 0 with
    | Some j => match nth_error ps j with
                | Some (_, true) => if bound passed n then None else Some (SDefault (idx + j))
                | _ => None
                end
    | None => None
    end.
Proof.
  induction ps as [|[p d] ps IH]; intros idx passed Hnd.
  - cbn. split; [reflexivity|]. intros n. reflexivity.
  - cbn [bind_defaults]. inversion Hnd as [|? ? Hnotin Hnd']; subst.
    specialize (IH (S idx) passed Hnd').
    destruct (bind_defaults ps (S idx) passed) as [m c]. destruct IH as [Hc Hget].
    assert (Hstep : forall n, n <> p ->
      match index_of n (map fst ((p, d) :: ps)) 0 with
      | Some j => match nth_error ((p, d) :: ps) j with
                  | Some (_, true) => if bound passed n then None else Some (SDefault (idx + j))
                  | _ => None
                  end
      | None => None
      end = aget n m).
    { intros n Hne. cbn [map fst index_of]. destruct (N.eqb_spec n p); [contradiction|].
      rewrite index_of_shift, Hget. destruct (index_of n (map fst ps) 0) as [j|]; cbn [option_map]; [|reflexivity].
      cbn [nth_error]. destruct (nth_error ps j) as [[q [|]]|]; try reflexivity.
      destruct (bound passed n); [reflexivity|]. f_equal. f_equal. lia. }
    assert (Hp : aget p m = None).
    { rewrite Hget. replace (index_of p (map fst ps) 0) with (@None nat); [reflexivity|].
      symmetry. apply index_of_none. exact Hnotin. }
    unfold bound at 1. cbn [filter snd fst].
    destruct d; cbn [andb].
    + unfold bound at 1 in Hc. unfold bound at 1. destruct (aget p passed) eqn:Hpp; cbn [negb].
      * split; [exact Hc|]. intros n. destruct (N.eqb_spec n p) as [->|Hne].
        -- rewrite Hp. cbn [map fst index_of]. rewrite N.eqb_refl. cbn [nth_error].
           unfold bound. rewrite Hpp. reflexivity.
        -- symmetry. apply Hstep. exact Hne.
      * cbn [length]. split; [f_equal; exact Hc|]. intros n. cbn [aget].
        destruct (N.eqb_spec n p) as [->|Hne].
        -- cbn [map fst index_of]. rewrite N.eqb_refl. cbn [nth_error]. unfold bound. rewrite Hpp.
           f_equal. f_equal. lia.
        -- symmetry. apply Hstep. exact Hne.
    + split; [exact Hc|]. intros n. destruct (N.eqb_spec n p) as [->|Hne].
      * rewrite Hp. cbn [map fst index_of]. rewrite N.eqb_refl. reflexivity.
      * symmetry. apply Hstep. exact Hne.
Qed.

(** *** counting *)
Lemma filter_partition3 {A} (f g : A -> bool) (l : list A) :
  length l = length (filter f l)
           + length (filter (fun x => negb (f x) && g x) l)
           + length (filter (fun x => negb (f x) && negb (g x)) l).
Proof.
  induction l as [|x t IH]; [reflexivity|]. cbn [filter length].
  destruct (f x), (g x); cbn [negb andb length]; lia.
Qed.

Fixpoint memb (n : name) (l : list name) : bool :=
  match l with [] => false | x :: t => N.eqb n x || memb n t end.
Lemma memb_in n l : memb n l = true <-> In n l.
Proof.
  induction l as [|x t IH]; cbn [memb In]; [split; [discriminate|tauto]|].
  rewrite orb_true_iff, IH, N.eqb_eq. split; intros [H|H]; auto.
Qed.

Lemma count_members (names L : list name) :
  NoDup names -> NoDup L -> incl L names ->
  length (filter (fun n => memb n L) names) = length L.
Proof.
  intros Hn HL Hincl. apply Permutation_length. apply NoDup_Permutation.
  - apply NoDup_filter. exact Hn.
  - exact HL.
  - intros x. rewrite filter_In, memb_in. split; [tauto|]. intros H. split; [apply Hincl; exact H|exact H].
Qed.

Lemma filter_map_fst (f : name -> bool) (ps : params) :
  length (filter (fun p => f (fst p)) ps) = length (filter f (map fst ps)).
Proof.
  induction ps as [|[n d] t IH]; [reflexivity|]. cbn [filter map fst].
  destruct (f n); cbn [length]; rewrite IH; reflexivity.
Qed.

Lemma filter_ext_len {A} (f g : A -> bool) l :
  (forall x, In x l -> f x = g x) -> length (filter f l) = length (filter g l).
Proof.
  induction l as [|x t IH]; intros H; [reflexivity|]. cbn [filter].
  rewrite (H x (or_introl eq_refl)). destruct (g x); cbn [length]; rewrite IH; auto.
  all: intros y Hy; apply H; right; exact Hy.
Qed.

Lemma index_of_some_iff n l : (exists j, index_of n l 0 = Some j) <-> In n l.
Proof.
  split.
  - intros [j H]. destruct (index_of n l 0) eqn:E; [|discriminate].
    destruct (in_dec N.eq_dec n l) as [Hin|Hnin]; [exact Hin|].
    apply (proj2 (index_of_none n l 0)) in Hnin. rewrite Hnin in E. discriminate.
  - intros Hin. destruct (index_of n l 0) as [j|] eqn:E; [eauto|].
    apply (proj1 (index_of_none n l 0)) in E. contradiction.
Qed.

Lemma index_of_nth (l : list name) : forall i n, NoDup l -> nth_error l i = Some n -> index_of n l 0 = Some i.
Proof.
  induction l as [|x t IH]; intros i n Hnd Hn; [destruct i; discriminate|].
  inversion Hnd as [|? ? Hx Hnd']; subst. destruct i as [|i'].
  - cbn in Hn. injection Hn as ->. cbn [index_of]. rewrite N.eqb_refl. reflexivity.
  - cbn [nth_error] in Hn. cbn [index_of]. destruct (N.eqb_spec n x) as [->|Hne].
    + exfalso. apply Hx. eapply nth_error_In. exact Hn.
    + rewrite index_of_shift, (IH i' n Hnd' Hn). reflexivity.
Qed.

Lemma index_of_firstn (l : list name) u n j :
  index_of n (firstn u l) 0 = Some j -> index_of n l 0 = Some j /\ j < u.
Proof.
  revert u j. induction l as [|x t IH]; intros u j H.
  - rewrite firstn_nil in H. discriminate.
  - destruct u as [|u']; [discriminate|]. cbn [firstn index_of] in *.
    destruct (N.eqb n x); [injection H as <-; split; [reflexivity|lia]|].
    rewrite index_of_shift in *. destruct (index_of n (firstn u' t) 0) as [k|] eqn:E; [|discriminate].
    cbn [option_map] in H. injection H as <-. destruct (IH u' k E) as [E' Hk]. rewrite E'. split; [reflexivity|lia].
Qed.

Lemma NoDup_app_r {A} (a b : list A) : NoDup (a ++ b) -> NoDup b.
Proof. induction a as [|x a IH]; cbn [app]; [auto|]. intros H. inversion H; auto. Qed.
Lemma NoDup_app_l {A} (a b : list A) : NoDup (a ++ b) -> NoDup a.
Proof.
  induction a as [|x a IH]; cbn [app]; intros H; [constructor|]. inversion H as [|? ? Hx Hr]; subst.
  constructor; [intros Hin; apply Hx, in_or_app; left; exact Hin|auto].
Qed.
Lemma NoDup_app_disj {A} (a b : list A) x : NoDup (a ++ b) -> In x a -> In x b -> False.
Proof.
  induction a as [|y a IH]; cbn [app]; intros H Ha Hb; [contradiction|].
  inversion H as [|? ? Hy Hr]; subst. destruct Ha as [->|Ha]; [apply Hy, in_or_app; right; exact Hb|eauto].
Qed.

(** *** the binder refines the language rule *)
Section Binder.
  Variable ps : params.
  Variable u : nat.
  Variable named : list name.
  Hypothesis Hnd : NoDup (map fst ps).

  Let names := map fst ps.
  Let P := firstn u names.

  (** the map built from positional and named arguments, when that succeeds *)
  Lemma passed_spec :
    u <= length ps ->
    (forall n, In n named -> In n names) -> NoDup (P ++ named) ->
    exists passed, bind_named ps named u (bind_pos ps 0 u []) = inl passed /\
      (forall n, aget n passed = match index_of n P 0 with
                                 | Some j => Some (SArg j)
                                 | None => match index_of n named 0 with
                                           | Some j => Some (SArg (u + j))
                                           | None => None
                                           end
                                 end) /\
      (forall n, bound passed n = memb n (P ++ named)).
  Proof.
    intros Hu Hk Hdis.
    assert (HndN : NoDup named) by (eapply NoDup_app_r; exact Hdis).
    assert (Hfree : forall n, In n named -> aget n (bind_pos ps 0 u []) = None).
    { intros n Hn. rewrite bind_pos_get by assumption. fold names. fold P.
      replace (index_of n P 0) with (@None nat); [reflexivity|]. symmetry. apply index_of_none.
      intros HP. eapply NoDup_app_disj; eauto. }
    destruct (bind_named_ok ps named u _ Hk HndN Hfree) as (passed & Hb & Hget).
    exists passed. split; [exact Hb|]. split.
    - intros n. rewrite Hget, bind_pos_get by assumption. fold names. fold P.
      destruct (index_of n P 0) as [j|] eqn:EP.
      + replace (index_of n named 0) with (@None nat); [reflexivity|]. symmetry. apply index_of_none.
        intros Hn. assert (HP : In n P) by (apply index_of_some_iff; eauto).
        eapply NoDup_app_disj; eauto.
      + reflexivity.
    - intros n. unfold bound. rewrite Hget, bind_pos_get by assumption. fold names. fold P.
      destruct (memb n (P ++ named)) eqn:Em.
      + apply memb_in, in_app_or in Em. destruct Em as [HP|HN].
        * apply index_of_some_iff in HP. destruct HP as [j Hj].
          destruct (index_of n named 0); rewrite ?Hj; reflexivity.
        * apply index_of_some_iff in HN. destruct HN as [j Hj]. rewrite Hj. reflexivity.
      + assert (Hnot : ~ In n (P ++ named)) by (rewrite <- memb_in; congruence).
        replace (index_of n named 0) with (@None nat)
          by (symmetry; apply index_of_none; intros H; apply Hnot, in_or_app; right; exact H).
        replace (index_of n P 0) with (@None nat)
          by (symmetry; apply index_of_none; intros H; apply Hnot, in_or_app; left; exact H).
        reflexivity.
  Qed.
End Binder.

Lemma index_of_firstn_nth (l : list name) : forall u i n,
  NoDup l -> nth_error l i = Some n ->
  index_of n (firstn u l) 0 = if Nat.ltb i u then Some i else None.
Proof.
  induction l as [|x t IH]; intros u i n Hnd Hn; [destruct i; discriminate|].
  inversion Hnd as [|? ? Hx Hnd']; subst. destruct u as [|u'].
  - cbn [firstn index_of]. reflexivity.
  - cbn [firstn index_of]. destruct i as [|i'].
    + cbn in Hn. injection Hn as ->. rewrite N.eqb_refl. reflexivity.
    + cbn [nth_error] in Hn. destruct (N.eqb_spec n x) as [->|Hne].
      * exfalso. apply Hx. eapply nth_error_In. exact Hn.
      * rewrite index_of_shift, (IH u' i' n Hnd' Hn).
        change (S i' <? S u') with (i' <? u'). destruct (i' <? u'); reflexivity.
Qed.

Lemma filter_nil_iff {A} (f : A -> bool) l : filter f l = [] <-> forall x, In x l -> f x = false.
Proof.
  induction l as [|x t IH]; cbn [filter]; [split; [intros _ y []|reflexivity]|].
  destruct (f x) eqn:E.
  - split; [discriminate|]. intros H. specialize (H x (or_introl eq_refl)). congruence.
  - rewrite IH. split; [intros H y [<-|Hy]; auto|intros H y Hy; apply H; right; exact Hy].
Qed.

Lemma NoDup_firstn {A} (l : list A) u : NoDup l -> NoDup (firstn u l).
Proof.
  revert u. induction l as [|x t IH]; intros u H; [rewrite firstn_nil; constructor|].
  destruct u; cbn [firstn]; [constructor|]. inversion H as [|? ? Hx Hr]; subst.
  constructor; [intros Hin; apply Hx; eapply firstn_In'; exact Hin|auto].
Qed.

Lemma NoDup_app_intro {A} (a b : list A) :
  NoDup a -> NoDup b -> (forall x, In x a -> In x b -> False) -> NoDup (a ++ b).
Proof.
  induction a as [|x a IH]; cbn [app]; intros Ha Hb Hd; [exact Hb|].
  inversion Ha as [|? ? Hx Hr]; subst. constructor.
  - intros Hin. apply in_app_or in Hin. destruct Hin as [H|H]; [contradiction|].
    eapply Hd; [left; reflexivity|exact H].
  - apply IH; auto. intros y Hy1 Hy2. eapply Hd; [right; exact Hy1|exact Hy2].
Qed.

Section Binder2.
  Variable ps : params.
  Variable u : nat.
  Variable named : list name.
  Hypothesis Hnd : NoDup (map fst ps).
  Hypothesis Hu : u <= length ps.
  Hypothesis Hk : forall n, In n named -> In n (map fst ps).
  Hypothesis Hdis : NoDup (firstn u (map fst ps) ++ named).
  Variable passed : amap.
  Hypothesis Hget : forall n, aget n passed =
     match index_of n (firstn u (map fst ps)) 0 with
     | Some j => Some (SArg j)
     | None => match index_of n named 0 with Some j => Some (SArg (u + j)) | None => None end
     end.
  Hypothesis Hbound : forall n, bound passed n = memb n (firstn u (map fst ps) ++ named).

  Lemma bound_count :
    length (filter (fun p => bound passed (fst p)) ps) = u + length named.
  Proof.
    rewrite (filter_map_fst (bound passed)).
    rewrite (filter_ext_len _ (fun n => memb n (firstn u (map fst ps) ++ named))) by (intros x _; apply Hbound).
    rewrite count_members; try assumption.
    - rewrite app_length, firstn_length, map_length. lia.
    - intros x Hx. apply in_app_or in Hx. destruct Hx as [H|H]; [eapply firstn_In'; exact H|apply Hk; exact H].
  Qed.

  Lemma spec_src_bound i n d :
    nth_error ps i = Some (n, d) ->
    spec_src ps u named i =
      if bound passed n then aget n passed else if d then Some (SDefault i) else None.
  Proof.
    intros Hi. unfold spec_src. rewrite Hi.
    assert (Hn : nth_error (map fst ps) i = Some n) by (rewrite nth_error_map, Hi; reflexivity).
    pose proof (index_of_firstn_nth (map fst ps) u i n Hnd Hn) as HP.
    unfold bound. rewrite Hget, HP. destruct (Nat.ltb i u); [reflexivity|].
    destruct (index_of n named 0); reflexivity.
  Qed.

  Lemma partition_eq :
    length ps = (u + length named)
              + length (filter (fun p => snd p && negb (bound passed (fst p))) ps)
              + length (filter (fun p => negb (bound passed (fst p)) && negb (snd p)) ps).
  Proof.
    rewrite (filter_partition3 (fun p => bound passed (fst p)) (fun p => snd p) ps), bound_count.
    f_equal. f_equal. apply filter_ext_len. intros x _. apply andb_comm.
  Qed.

  Lemma all_specified_iff :
    filter (fun p => negb (bound passed (fst p)) && negb (snd p)) ps = [] <->
    (forall i, i < length ps -> spec_src ps u named i <> None).
  Proof.
    rewrite filter_nil_iff. split.
    - intros H i Hi. destruct (nth_error ps i) as [[n d]|] eqn:E; [|apply nth_error_None in E; lia].
      rewrite (spec_src_bound i n d E). specialize (H (n, d) (nth_error_In _ _ E)). cbn [fst snd] in H.
      destruct (bound passed n) eqn:B.
      + unfold bound in B. destruct (aget n passed); [discriminate|discriminate].
      + destruct d; [discriminate|discriminate].
    - intros H [n d] Hin. cbn [fst snd]. apply In_nth_error in Hin. destruct Hin as [i Hi].
      assert (Hlt : i < length ps) by (apply nth_error_Some; congruence).
      specialize (H i Hlt). rewrite (spec_src_bound i n d Hi) in H.
      destruct (bound passed n); [reflexivity|]. destruct d; [reflexivity|contradiction].
  Qed.
End Binder2.

Theorem argbind_complete ps u named :
  NoDup (map fst ps) -> spec_ok ps u named ->
  exists m, bind_impl ps u named = inl m /\
    forall i n d, nth_error ps i = Some (n, d) -> aget n m = spec_src ps u named i.
Proof.
  intros Hnd (Hu & Hk & Hdis & Hall).
  destruct (passed_spec ps u named Hnd Hu Hk Hdis) as (passed & Hb & Hget & Hbound).
  pose proof (partition_eq ps u named Hnd Hu Hk Hdis passed Hbound) as Hpart.
  pose proof (proj2 (all_specified_iff ps u named Hnd Hu passed Hget) Hall) as Hnil.
  rewrite Hnil in Hpart. cbn [length] in Hpart.
  unfold bind_impl. destruct (Nat.ltb_spec (length ps) u) as [Hlt|_]; [lia|]. rewrite Hb.
  pose proof (bind_defaults_spec ps 0 passed Hnd) as Hd.
  destruct (bind_defaults ps 0 passed) as [defs c]. destruct Hd as [Hc Hdget].
  destruct (Nat.ltb_spec (length named + u) (length ps)) as [Hsmall|Hbig].
  - destruct (Nat.eqb_spec (length named + c + u) (length ps)) as [_|Hne]; [|lia].
    exists (defs ++ passed). split; [reflexivity|]. intros i n d Hi.
    rewrite aget_app, Hdget.
    assert (Hn : nth_error (map fst ps) i = Some n) by (rewrite nth_error_map, Hi; reflexivity).
    rewrite (index_of_nth _ _ _ Hnd Hn), Hi, (spec_src_bound ps u named Hnd passed Hget i n d Hi).
    destruct d, (bound passed n) eqn:B; cbn [Nat.add]; try reflexivity;
      unfold bound in B; destruct (aget n passed); try discriminate; reflexivity.
  - exists passed. split; [reflexivity|]. intros i n d Hi.
    rewrite (spec_src_bound ps u named Hnd passed Hget i n d Hi).
    assert (Hz : length (filter (fun p => snd p && negb (bound passed (fst p))) ps) = 0) by lia.
    apply length_zero_iff_nil in Hz. rewrite filter_nil_iff in Hz.
    specialize (Hz (n, d) (nth_error_In _ _ Hi)). cbn [fst snd] in Hz.
    assert (Hnil' := proj1 (filter_nil_iff _ _) Hnil (n, d) (nth_error_In _ _ Hi)). cbn [fst snd] in Hnil'.
    destruct (bound passed n); [reflexivity|]. destruct d; discriminate.
Qed.

Theorem argbind_sound ps u named m :
  NoDup (map fst ps) -> bind_impl ps u named = inl m -> spec_ok ps u named.
Proof.
  intros Hnd H. unfold bind_impl in H.
  destruct (Nat.ltb_spec (length ps) u) as [|Hu]; [discriminate|].
  destruct (bind_named ps named u (bind_pos ps 0 u [])) as [passed|e] eqn:Hb; [|discriminate].
  destruct (bind_named_inv _ _ _ _ _ Hb) as (Hk & HndN & Hfree).
  assert (Hdis : NoDup (firstn u (map fst ps) ++ named)).
  { apply NoDup_app_intro; [apply NoDup_firstn; exact Hnd|exact HndN|].
    intros x HP HN. specialize (Hfree x HN). rewrite bind_pos_get in Hfree by assumption.
    apply index_of_some_iff in HP. destruct HP as [j Hj]. rewrite Hj in Hfree. discriminate. }
  destruct (passed_spec ps u named Hnd Hu Hk Hdis) as (passed' & Hb' & Hget & Hbound).
  rewrite Hb in Hb'. injection Hb' as <-.
  split; [exact Hu|]. split; [exact Hk|]. split; [exact Hdis|].
  apply (all_specified_iff ps u named Hnd Hu passed Hget).
  pose proof (partition_eq ps u named Hnd Hu Hk Hdis passed Hbound) as Hpart.
  pose proof (bind_defaults_spec ps 0 passed Hnd) as Hd.
  destruct (bind_defaults ps 0 passed) as [defs c]. destruct Hd as [Hc _].
  apply length_zero_iff_nil.
  destruct (Nat.ltb_spec (length named + u) (length ps)) as [Hsmall|Hbig].
  - destruct (Nat.eqb_spec (length named + c + u) (length ps)) as [Heq|Hne].
    + lia.
    + destruct (first_unbound (skipn u ps) named); discriminate.
  - lia.
Qed.

Lemma nth_error_skipn'' {A} (l : list A) : forall n i,
  nth_error (skipn n l) i = nth_error l (n + i).
Proof.
  induction l as [|x xs IH]; intros n i.
  - rewrite skipn_nil. destruct i, (n + _); reflexivity.
  - destruct n as [|n']; [reflexivity|]. cbn [skipn]. rewrite IH. reflexivity.
Qed.

Lemma nth_error_firstn_lt'' {A} (l : list A) : forall n i,
  i < n -> nth_error (firstn n l) i = nth_error l i.
Proof.
  induction l as [|x xs IH]; intros n i Hi.
  - rewrite firstn_nil. reflexivity.
  - destruct n as [|n']; [lia|]. cbn [firstn]. destruct i as [|i']; [reflexivity|].
    cbn [nth_error]. apply IH. lia.
Qed.

(** Call style is irrelevant: passing the last arguments by name, in any order, binds every
    parameter to the same argument expression as passing everything positionally. *)
Theorem call_style_invariant ps u k (perm : list name) :
  NoDup (map fst ps) -> u <= length ps -> k <= u ->
  Permutation perm (firstn (u - k) (skipn k (map fst ps))) ->
  (forall i, i < length ps -> spec_src ps u [] i <> None) ->
  spec_ok ps k perm /\
  forall i n d, nth_error ps i = Some (n, d) ->
    match spec_src ps u [] i, spec_src ps k perm i with
    | Some (SArg a), Some (SArg b) =>
        (* the same argument expression: positional i, or the named one carrying p_i's name *)
        a = i /\ (i < k -> b = i) /\ (k <= i -> exists j, b = k + j /\ nth_error perm j = Some n)
    | Some (SDefault a), Some (SDefault b) => a = b
    | _, _ => False
    end.
Proof.
  intros Hnd Hu Hk Hperm Hall.
  set (names := map fst ps) in *.
  assert (Hmid : incl (firstn (u - k) (skipn k names)) names).
  { intros x Hx. apply firstn_In' in Hx. clear -Hx. revert k Hx. induction names as [|y t IH]; intros k Hx.
    - rewrite skipn_nil in Hx. exact Hx.
    - destruct k; [exact Hx|]. right. eapply IH. exact Hx. }
  assert (HndMid : NoDup (firstn k names ++ firstn (u - k) (skipn k names))).
  { replace (firstn k names ++ firstn (u - k) (skipn k names)) with (firstn u names).
    - apply NoDup_firstn. exact Hnd.
    - rewrite <- (firstn_skipn k (firstn u names)) at 1. f_equal.
      + rewrite firstn_firstn. f_equal. lia.
      + rewrite skipn_firstn_comm. reflexivity. }
  assert (HndP : NoDup (firstn k names ++ perm)).
  { apply NoDup_app_intro.
    - apply NoDup_firstn. exact Hnd.
    - eapply Permutation_NoDup; [apply Permutation_sym; exact Hperm|]. eapply NoDup_app_r. exact HndMid.
    - intros x H1 H2. eapply NoDup_app_disj; [exact HndMid|exact H1|].
      eapply Permutation_in; [exact Hperm|exact H2]. }
  assert (Hsrc : forall i n d, nth_error ps i = Some (n, d) ->
            (i < u -> spec_src ps u [] i = Some (SArg i)) /\
            (u <= i -> spec_src ps u [] i = if d then Some (SDefault i) else None) /\
            (i < k -> spec_src ps k perm i = Some (SArg i)) /\
            (k <= i -> i < u -> exists j, spec_src ps k perm i = Some (SArg (k + j)) /\ nth_error perm j = Some n) /\
            (u <= i -> spec_src ps k perm i = if d then Some (SDefault i) else None)).
  { intros i n d Hi. unfold spec_src. rewrite Hi. cbn [index_of].
    assert (Hn : nth_error names i = Some n) by (unfold names; rewrite nth_error_map, Hi; reflexivity).
    repeat split.
    - intros H. destruct (Nat.ltb_spec i u); [reflexivity|lia].
    - intros H. destruct (Nat.ltb_spec i u); [lia|reflexivity].
    - intros H. destruct (Nat.ltb_spec i k); [reflexivity|lia].
    - intros H1 H2. destruct (Nat.ltb_spec i k); [lia|].
      assert (Hin : In n perm).
      { eapply Permutation_in; [apply Permutation_sym; exact Hperm|].
        apply (nth_error_In _ (i - k)). rewrite nth_error_firstn_lt'' by lia.
        rewrite nth_error_skipn''. replace (k + (i - k)) with i by lia. exact Hn. }
      apply index_of_some_iff in Hin. destruct Hin as [j Hj]. rewrite Hj. exists j. split; [reflexivity|].
      apply index_of_some in Hj. destruct Hj as [_ Hj]. rewrite Nat.sub_0_r in Hj. exact Hj.
    - intros H. destruct (Nat.ltb_spec i k); [lia|].
      replace (index_of n perm 0) with (@None nat); [reflexivity|]. symmetry. apply index_of_none.
      intros Hin. apply (Permutation_in _ Hperm) in Hin.
      apply In_nth_error in Hin. destruct Hin as [j Hj].
      assert (Hjlt : j < u - k).
      { assert (j < length (firstn (u - k) (skipn k names))) by (apply nth_error_Some; congruence).
        rewrite firstn_length in *. lia. }
      rewrite nth_error_firstn_lt'' in Hj by exact Hjlt. rewrite nth_error_skipn'' in Hj.
      assert (k + j = i).
      { eapply NoDup_nth_error; [exact Hnd| |rewrite Hj, Hn; reflexivity].
        apply nth_error_Some. congruence. }
      lia. }
  split.
  - split; [lia|]. split; [|split; [exact HndP|]].
    + intros n Hn. apply Hmid. eapply Permutation_in; [exact Hperm|exact Hn].
    + intros i Hi. destruct (nth_error ps i) as [[n d]|] eqn:E; [|apply nth_error_None in E; lia].
      destruct (Hsrc i n d E) as (A & B & C & D & F).
      destruct (Nat.lt_ge_cases i k) as [H1|H1]; [rewrite C by lia; discriminate|].
      destruct (Nat.lt_ge_cases i u) as [H2|H2].
      * destruct (D H1 H2) as (j & -> & _). discriminate.
      * rewrite F by lia. specialize (Hall i Hi). rewrite B in Hall by lia. exact Hall.
  - intros i n d Hi. destruct (Hsrc i n d Hi) as (A & B & C & D & F).
    assert (Hi' : i < length ps) by (apply nth_error_Some; congruence).
    destruct (Nat.lt_ge_cases i u) as [H2|H2].
    + rewrite A by lia. destruct (Nat.lt_ge_cases i k) as [H1|H1].
      * rewrite C by lia. split; [reflexivity|]. split; [reflexivity|lia].
      * destruct (D H1 H2) as (j & -> & Hj). split; [reflexivity|]. split; [lia|]. intros _. eauto.
    + specialize (Hall i Hi'). rewrite B in * by lia. rewrite F by lia.
      destruct d; [reflexivity|contradiction].
Qed.
