(** C01 — property theorems (kernels of the evaluator; the language SPEC is Sem). *)
From Coq Require Import List ZArith NArith Bool Arith Permutation.
From JrV Require Sem.Syntax Sem.Interp Sem.Mono.
From JrV Require Import C01.Model C01.Proofs.
Import ListNotations.

(** variable lookup through any chain of scope layers = lookup in the right-biased union *)
Theorem C01_scope_flatten :
  forall (V : Type) (l : layered V) (k : name), lget k l = hget k (flatten l).
Proof. exact @scope_flatten. Qed.
Print Assumptions C01_scope_flatten.

Theorem C01_scope_contains :
  forall (V : Type) (l : layered V) (k : name),
    lcontains k l = match lget k l with Some _ => true | None => false end.
Proof. exact @scope_contains. Qed.
Print Assumptions C01_scope_contains.

(** the transliterated binder succeeds exactly on the calls the language admits ... *)
Theorem C01_argbind_sound :
  forall ps u named m,
    NoDup (map fst ps) -> bind_impl ps u named = inl m -> spec_ok ps u named.
Proof. exact argbind_sound. Qed.
Print Assumptions C01_argbind_sound.

(** ... and then binds every parameter to the source the language prescribes *)
Theorem C01_argbind_complete :
  forall ps u named,
    NoDup (map fst ps) -> spec_ok ps u named ->
    exists m, bind_impl ps u named = inl m /\
      forall i n d, nth_error ps i = Some (n, d) -> aget n m = spec_src ps u named i.
Proof. exact argbind_complete. Qed.
Print Assumptions C01_argbind_complete.

(** positional vs named call style: any suffix of the arguments may be passed by name in
    any order without changing which argument expression each parameter receives *)
Theorem C01_call_style_invariant :
  forall ps u k (perm : list name),
    NoDup (map fst ps) -> u <= length ps -> k <= u ->
    Permutation perm (firstn (u - k) (skipn k (map fst ps))) ->
    (forall i, i < length ps -> spec_src ps u [] i <> None) ->
    spec_ok ps k perm /\
    forall i n d, nth_error ps i = Some (n, d) ->
      match spec_src ps u [] i, spec_src ps k perm i with
      | Some (SArg a), Some (SArg b) =>
          a = i /\ (i < k -> b = i) /\ (k <= i -> exists j, b = k + j /\ nth_error perm j = Some n)
      | Some (SDefault a), Some (SDefault b) => a = b
      | _, _ => False
      end.
Proof. exact call_style_invariant. Qed.
Print Assumptions C01_call_style_invariant.

(** non-vacuity: f(a, b=.., c) called as f(x, c=y) *)
Example C01_binder_example :
  spec_ok [(1%N, false); (2%N, true); (3%N, false)] 1 [3%N] /\
  bind_impl [(1%N, false); (2%N, true); (3%N, false)] 1 [3%N]
    = inl [(2%N, SDefault 1); (3%N, SArg 1); (1%N, SArg 0)].
Proof.
  split; [|reflexivity]. unfold spec_ok. cbn. repeat split.
  - auto.
  - intros n [<-|[]]. auto.
  - repeat constructor; cbn; intuition discriminate.
  - intros i Hi. destruct i as [|[|[|i]]]; cbn; try discriminate. exfalso. inversion Hi as [|? H1]. inversion H1 as [|? H2]. inversion H2 as [|? H3]. inversion H3.
Qed.

(** Sem, the whole-language SPEC of C01 (and, through its trace log, of C03): an outcome that is not
    "out of fuel" - value or error class, and the log of labelled evaluations - does not depend on
    the fuel.  The FUEL constant of the correspondence checks therefore selects which programs are
    judged (the others are skipped and counted), never what the judgement is. *)
Theorem C01_sem_fuel_independent :
  forall n m e, n <= m ->
    fst (JrV.Sem.Interp.run n e) <> JrV.Sem.Interp.OErr JrV.Sem.Interp.KFuel ->
    JrV.Sem.Interp.run m e = JrV.Sem.Interp.run n e.
Proof. exact JrV.Sem.Mono.run_fuel_independent. Qed.
Print Assumptions C01_sem_fuel_independent.
