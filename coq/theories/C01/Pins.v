From Coq Require Import List ZArith NArith Bool Arith Permutation.
From JrV Require Import C01.Model C01.Properties.
Import ListNotations.
Check C01_scope_flatten : forall (V : Type) (l : layered V) (k : name), lget k l = hget k (flatten l).
Check C01_scope_contains : forall (V : Type) (l : layered V) (k : name),
    lcontains k l = match lget k l with Some _ => true | None => false end.
Check C01_argbind_sound : forall ps u named m,
    NoDup (map fst ps) -> bind_impl ps u named = inl m -> spec_ok ps u named.
Check C01_argbind_complete : forall ps u named,
    NoDup (map fst ps) -> spec_ok ps u named ->
    exists m, bind_impl ps u named = inl m /\
      forall i n d, nth_error ps i = Some (n, d) -> aget n m = spec_src ps u named i.
Check C01_call_style_invariant : forall ps u k (perm : list name),
    NoDup (map fst ps) -> u <= length ps -> k <= u ->
    Permutation perm (firstn (u - k) (skipn k (map fst ps))) ->
    (forall i, i < length ps -> spec_src ps u [] i <> None) ->
    spec_ok ps k perm /\
    forall i n d, nth_error ps i = Some (n, d) ->
      match spec_src ps u [] i, spec_src ps k perm i with
      | Some (SArg a), Some (SArg b) =>
          a = i /\ (i < k -> b = i) /\ (k <= i -> exists j, b = k + j /\ nth_error perm j = Some n)
      | Some (SDefault a), Some (SDefault b) => a = b
      | _, _ => False
      end.
Check eq_refl : bind_impl [(1%N, false); (2%N, true)] 3 [] = inr TooMany.
Check eq_refl : bind_impl [(1%N, false); (2%N, true)] 1 [1%N] = inr (Twice 1%N).
Check eq_refl : bind_impl [(1%N, false); (2%N, true)] 0 [2%N] = inr (NotBound 1%N).
Check eq_refl : bind_impl [(1%N, false); (2%N, true)] 1 [7%N] = inr (Unknown 7%N).
Check eq_refl : spec_src [(1%N, false); (2%N, true)] 1 [] 1 = Some (SDefault 1).
Check C01_sem_fuel_independent :
  forall n m e, n <= m ->
    fst (JrV.Sem.Interp.run n e) <> JrV.Sem.Interp.OErr JrV.Sem.Interp.KFuel ->
    JrV.Sem.Interp.run m e = JrV.Sem.Interp.run n e.
