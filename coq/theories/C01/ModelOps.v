(** C01/ModelOps.v — the operator dispatch of the evaluator, as read from the source.

    IMPL side: [gen_class] / [gen_uclass] / [gen_special] / [gen_eq] / [gen_cmp] give the first-match
    reading of the arm lists that translator/gens/ops.py copies out of evaluate/operator.rs and
    val.rs into Gen/GenOps.v on every run: for an operator, the [Val] variants of the operands and
    the three facts a guard may look at (left / right operand is the empty string, right operand
    is the number zero), the CLASS of action the code performs.  [None] = the arm list has no
    reading (no arm matches, or a body class stands under a pattern it makes no sense for).

    SPEC side: [spec_class] etc. are written from Sem (Sem/Interp.v: binop_val, equals,
    compare_val, the EUn / EBin cases of eval); [class_sem] says what each class means in Sem's
    terms.  ProofsOps.v proves that Sem IS [class_sem] of [spec_class] for all values, and checks
    (vm_compute over the finite index set) that the translated tables equal the spec tables.

    Definitions only. *)
From Coq Require Import List ZArith NArith Bool.
From JrV Require Import Sem.Syntax Sem.Interp Common.OpClass Gen.GenOps.
Import ListNotations.

Scheme Equality for vty.
Scheme Equality for binop.
Scheme Equality for unop.

Definition ty (v : value) : vty :=
  match v with
  | VNull => TNull | VBool _ => TBool | VNum _ => TNum | VStr _ => TStr
  | VArr _ => TArr | VObj _ _ => TObj | VFun _ _ _ _ => TFunc
  end.

(** what a guard may look at besides the variants *)
Record flags := Flags { f_lempty : bool; f_rempty : bool; f_rzero : bool }.

Definition is_empty_str (v : value) : bool := match v with VStr [] => true | _ => false end.
Definition is_zero_num (v : value) : bool := match v with VNum 0 => true | _ => false end.
Definition flags_of (a b : value) : flags := Flags (is_empty_str a) (is_empty_str b) (is_zero_num b).

(** only strings are empty, only numbers are zero *)
Definition flags_consistent (ta tb : vty) (f : flags) : bool :=
  implb (f_lempty f) (vty_beq ta TStr) && implb (f_rempty f) (vty_beq tb TStr)
  && implb (f_rzero f) (vty_beq tb TNum).

(** *** final classes *)
Inductive cmpk := KNum | KStr | KArr.
Inductive eqk := QFalse | QTrue | QBool | QNum | QStr | QArr | QObj | QFuncErr | QContainerErr.

Inductive fclass :=
| CTypeError
| CDivZero                         (* the division-by-zero test fires before anything else *)
| CNum (o : arith)                 (* arithmetic on two numbers *)
| CBit (o : bitop) | CShl | CShr
| CStrConcat                       (* string ++ string *)
| CNumStr | CStrNum                (* number formatted directly, concatenated with the string *)
| CToStrOf (s : side)              (* the to-string of the operand on side s, alone *)
| CStrToStr | CToStrStr            (* string ++ to-string(right),  to-string(left) ++ string *)
| CObjExtend | CArrExtend
| CRepeat (s : side)               (* string repetition (documented deviation; outside Sem) *)
| CFormat                          (* string % values *)
| CCmp (k : cmpk) (t : ordtest)
| CEq (neg : bool) (k : eqk)
| CIn | CBoolAnd | CBoolOr.

Scheme Equality for arith.
Scheme Equality for bitop.
Scheme Equality for ordtest.
Scheme Equality for side.
Scheme Equality for cmpk.
Scheme Equality for eqk.
Scheme Equality for fclass.
Scheme Equality for uaction.
Scheme Equality for saction.

Definition opt_fclass_beq (a b : option fclass) : bool :=
  match a, b with Some x, Some y => fclass_beq x y | _, _ => false end.

(** *** IMPL: first-match reading of the translated arm lists *)
Definition pat_ok (p : pat) (t : vty) : bool :=
  match p with PAny => true | PTy u => vty_beq u t end.
Definition opat_ok (p : opat) (o : binop) : bool :=
  match p with OAny => true | OOp o' => binop_beq o' o end.
Definition guard_ok (g : guard) (ta tb : vty) (f : flags) : bool :=
  match g with
  | GNone => true
  | GLeftEmpty => f_lempty f
  | GRightEmpty => f_rempty f
  | GBothFunc => vty_beq ta TFunc && vty_beq tb TFunc
  end.

Fixpoint first2 (arms : list arm2) (ta tb : vty) (f : flags) : option action :=
  match arms with
  | [] => None
  | Arm2 l r g a :: t =>
      if pat_ok l ta && pat_ok r tb && guard_ok g ta tb f then Some a else first2 t ta tb f
  end.
Fixpoint firstz (arms : list zarm) (ta tb : vty) : option zres :=
  match arms with
  | [] => None
  | ZArm l r z :: t => if pat_ok l ta && pat_ok r tb then Some z else firstz t ta tb
  end.
Fixpoint firstc (arms : list carm) (ta tb : vty) : option caction :=
  match arms with
  | [] => None
  | CArm l r c :: t => if pat_ok l ta && pat_ok r tb then Some c else firstc t ta tb
  end.
Fixpoint firstnorm (arms : list narm) (ta : vty) (o : binop) (tb : vty) : option naction :=
  match arms with
  | [] => None
  | NArm l po r a :: t =>
      if pat_ok l ta && opat_ok po o && pat_ok r tb then Some a else firstnorm t ta o tb
  end.
Fixpoint firste (arms : list earm) (ta tb : vty) : option eaction :=
  match arms with
  | [] => None
  | EArm l r a :: t => if pat_ok l ta && pat_ok r tb then Some a else firste t ta tb
  end.
Fixpoint firstp (arms : list parm) (ta tb : vty) : option paction :=
  match arms with
  | [] => None
  | PArm l r g a :: t =>
      if pat_ok l ta && pat_ok r tb && guard_ok g ta tb (Flags false false false) then Some a
      else firstp t ta tb
  end.
Fixpoint firstu (arms : list uarm) (o : unop) (t : vty) : option uaction :=
  match arms with
  | [] => None
  | UArm po p a :: r =>
      if (match po with UAnyOp => true | UOp o' => unop_beq o' o end) && pat_ok p t then Some a
      else firstu r o t
  end.

Definition both (t : vty) (ta tb : vty) : bool := vty_beq ta t && vty_beq tb t.

(** a body class under the variants it is applied to *)
Definition act_class (a : action) (ta tb : vty) : option fclass :=
  match a with
  | ATypeError => Some CTypeError
  | ANumArith o => if both TNum ta tb then Some (CNum o) else None
  | AStrConcat => if both TStr ta tb then Some CStrConcat else None
  | ADisplayConcat =>
      match ta, tb with
      | TNum, TStr => Some CNumStr
      | TStr, TNum => Some CStrNum
      | _, _ => None
      end
  | AToStringOf s => Some (CToStrOf s)
  | AStrThenToString => if vty_beq ta TStr then Some CStrToStr else None
  | AToStringThenStr => if vty_beq tb TStr then Some CToStrStr else None
  | AObjExtend => if both TObj ta tb then Some CObjExtend else None
  | AArrExtend => if both TArr ta tb then Some CArrExtend else None
  | AStrRepeat SideL => if vty_beq ta TStr && vty_beq tb TNum then Some (CRepeat SideL) else None
  | AStrRepeat SideR => if vty_beq ta TNum && vty_beq tb TStr then Some (CRepeat SideR) else None
  | AFormat => if vty_beq ta TStr then Some CFormat else None
  end.

Definition plain (arms : list arm2) (ta tb : vty) (f : flags) : option fclass :=
  match first2 arms ta tb f with Some a => act_class a ta tb | None => None end.

(** is_attempt_to_divide_by_zero *)
Definition divzero (ta tb : vty) (f : flags) : option bool :=
  match firstz gen_divzero_arms ta tb with
  | Some ZFalse => Some false
  | Some ZRightIsZero => if vty_beq tb TNum then Some (f_rzero f) else None
  | None => None
  end.

(** evaluate_div_op / evaluate_mod_op: with the test first, a zero divisor is reported before the
    operands are looked at; with the test after the match it can no longer fire (the arithmetic arm
    has already failed on the non-finite result and every other arm either bails or has a string
    on the left, for which the test is false) *)
Definition guarded (test_first : bool) (arms : list arm2) (ta tb : vty) (f : flags) : option fclass :=
  match divzero ta tb f, plain arms ta tb f with
  | Some z, Some c => Some (if test_first && z then CDivZero else c)
  | _, _ => None
  end.

Definition gen_cmp (ta tb : vty) : option (option cmpk) :=
  match firstc gen_compare_arms ta tb with
  | Some CmpPayload =>
      if both TNum ta tb then Some (Some KNum) else if both TStr ta tb then Some (Some KStr) else None
  | Some CmpArr => if both TArr ta tb then Some (Some KArr) else None
  | Some CmpTypeError => Some None
  | None => None
  end.

Definition gen_eq (ta tb : vty) : option eqk :=
  if negb (vty_beq ta tb) then Some QFalse      (* `if val_a.value_type() != val_b.value_type()` *)
  else
    match firste gen_equals_arms ta tb with
    | Some EArrElems => if both TArr ta tb then Some QArr else None
    | Some EObjFields => if both TObj ta tb then Some QObj else None
    | Some EPrimitive =>
        match firstp gen_primitive_equals_arms ta tb with
        | Some PEqPayload =>
            if both TBool ta tb then Some QBool else if both TStr ta tb then Some QStr
            else if both TNum ta tb then Some QNum else None
        | Some PEqNum => if both TNum ta tb then Some QNum else None
        | Some PTrue => Some QTrue
        | Some PFalse => Some QFalse
        | Some PBailContainer => Some QContainerErr
        | Some PBailFunc => Some QFuncErr
        | None => None
        end
    | None => None
    end.

Definition gen_class (o : binop) (ta tb : vty) (f : flags) : option fclass :=
  match firstnorm gen_normal_arms ta o tb with
  | None => None
  | Some NTypeError => Some CTypeError
  | Some (NEquals neg) => match gen_eq ta tb with Some k => Some (CEq neg k) | None => None end
  | Some (NCompare t) =>
      match gen_cmp ta tb with
      | Some (Some k) => Some (CCmp k t)
      | Some None => Some CTypeError
      | None => None
      end
  | Some NIn => if vty_beq ta TStr && vty_beq tb TObj then Some CIn else None
  | Some NBoolAnd => if both TBool ta tb then Some CBoolAnd else None
  | Some NBoolOr => if both TBool ta tb then Some CBoolOr else None
  | Some (NCall FAdd) => plain gen_add_arms ta tb f
  | Some (NCall FSub) => plain gen_sub_arms ta tb f
  | Some (NCall FMul) => plain gen_mul_arms ta tb f
  | Some (NCall FDiv) => guarded gen_div_guard_first gen_div_arms ta tb f
  | Some (NCall FMod) => guarded gen_mod_guard_first gen_mod_arms ta tb f
  | Some (NBit b) => if both TNum ta tb then Some (CBit b) else None
  | Some NShl => if both TNum ta tb then Some CShl else None
  | Some NShr => if both TNum ta tb then Some CShr else None
  end.

Definition gen_uclass (o : unop) (t : vty) : option uaction :=
  match firstu gen_unary_arms o t with
  | Some UaTypeError => Some UaTypeError
  | Some UaNot => if vty_beq t TBool then Some UaNot else None
  | Some a => if vty_beq t TNum then Some a else None
  | None => None
  end.

(** evaluate_binary_op_special on the evaluated left operand *)
Definition lpat_ok (p : lpat) (v : value) : bool :=
  match p, v with
  | LAny, _ => true
  | LBool b, VBool x => Bool.eqb b x
  | LBool _, _ => false
  end.
Fixpoint gen_special_from (arms : list sarm) (o : binop) (v : value) : option saction :=
  match arms with
  | [] => None
  | SArm l po a :: t => if lpat_ok l v && opat_ok po o then Some a else gen_special_from t o v
  end.
Definition gen_special := gen_special_from gen_special_arms.

(** *** SPEC: the arm Sem takes, written from Sem/Interp.v *)
Definition spec_eq (ta tb : vty) : eqk :=
  if negb (vty_beq ta tb) then QFalse
  else match ta with
       | TNull => QTrue | TBool => QBool | TNum => QNum | TStr => QStr
       | TArr => QArr | TObj => QObj | TFunc => QFuncErr
       end.
Definition spec_cmp (t : ordtest) (ta tb : vty) : fclass :=
  match ta, tb with
  | TNum, TNum => CCmp KNum t
  | TStr, TStr => CCmp KStr t
  | TArr, TArr => CCmp KArr t
  | _, _ => CTypeError
  end.
Definition num2 (c : fclass) (ta tb : vty) : fclass :=
  match ta, tb with TNum, TNum => c | _, _ => CTypeError end.

Definition spec_class (o : binop) (ta tb : vty) (f : flags) : fclass :=
  match o with
  | BEq => CEq false (spec_eq ta tb)
  | BNe => CEq true (spec_eq ta tb)
  | BLt => spec_cmp IsLt ta tb
  | BGt => spec_cmp IsGt ta tb
  | BLe => spec_cmp IsLe ta tb
  | BGe => spec_cmp IsGe ta tb
  | BIn => match ta, tb with TStr, TObj => CIn | _, _ => CTypeError end
  | BAdd =>
      match ta, tb with
      | TNum, TNum => CNum OpAdd
      | TStr, TStr => CStrConcat
      | TNum, TStr => CNumStr
      | TStr, TNum => CStrNum
      | TStr, _ => if f_lempty f then CToStrOf SideR else CStrToStr
      | _, TStr => if f_rempty f then CToStrOf SideL else CToStrStr
      | TArr, TArr => CArrExtend
      | TObj, TObj => CObjExtend
      | _, _ => CTypeError
      end
  | BSub => num2 (CNum OpSub) ta tb
  | BMul =>
      match ta, tb with
      | TNum, TNum => CNum OpMul
      | TStr, TNum => CRepeat SideL
      | TNum, TStr => CRepeat SideR
      | _, _ => CTypeError
      end
  | BDiv =>
      match ta, tb with
      | TStr, _ => CTypeError
      | _, TNum => if f_rzero f then CDivZero else num2 (CNum OpDiv) ta tb
      | _, _ => CTypeError
      end
  | BMod =>
      match ta, tb with
      | TStr, _ => CFormat                     (* `str % x` is formatting, never a division *)
      | _, TNum => if f_rzero f then CDivZero else num2 (CNum OpRem) ta tb
      | _, _ => CTypeError
      end
  | BBitAnd => num2 (CBit OpAnd) ta tb
  | BBitOr => num2 (CBit OpOr) ta tb
  | BBitXor => num2 (CBit OpXor) ta tb
  | BShl => num2 CShl ta tb
  | BShr => num2 CShr ta tb
  | BAnd => match ta, tb with TBool, TBool => CBoolAnd | _, _ => CTypeError end
  | BOr => match ta, tb with TBool, TBool => CBoolOr | _, _ => CTypeError end
  end.

Definition spec_uclass (o : unop) (t : vty) : uaction :=
  match o, t with
  | UPlus, TNum => UaKeep
  | UNeg, TNum => UaNegate
  | UNot, TBool => UaNot
  | UBitNot, TNum => UaBitNot
  | _, _ => UaTypeError
  end.

Definition spec_special (o : binop) (v : value) : saction :=
  match o, v with
  | BOr, VBool true => SShort true
  | BAnd, VBool false => SShort false
  | _, _ => SNormal
  end.

(** *** what the classes mean, in Sem's terms.
    [n]: the fuel left for a nested comparison / equality ([S n] is handed to Sem's
    [compare_val] / [equals], as [binop_val (S (S n))] does). *)
Definition ord_test (t : ordtest) (c : comparison) : bool :=
  match t with
  | IsLt => match c with Lt => true | _ => false end
  | IsGt => match c with Gt => true | _ => false end
  | IsLe => match c with Gt => false | _ => true end
  | IsGe => match c with Lt => false | _ => true end
  end.

Definition cmp_sem (k : cmpk) (n : nat) (a b : value) : M comparison :=
  match k, a, b with
  | KNum, VNum x, VNum y => ret (Z.compare x y)
  | KStr, VStr x, VStr y => ret (str_cmp x y)
  | KArr, VArr _, VArr _ => compare_val (S n) a b      (* element-wise, by Sem *)
  | _, _, _ => fail KType
  end.

Definition eq_sem (k : eqk) (n : nat) (a b : value) : M bool :=
  match k, a, b with
  | QFalse, _, _ => ret false
  | QTrue, _, _ => ret true
  | QBool, VBool x, VBool y => ret (Bool.eqb x y)
  | QNum, VNum x, VNum y => ret (x =? y)%Z
  | QStr, VStr x, VStr y => ret (str_eqb x y)
  | QArr, VArr _, VArr _ => equals (S n) a b            (* element-wise, by Sem *)
  | QObj, VObj _ _, VObj _ _ => equals (S n) a b        (* field-wise, by Sem *)
  | QFuncErr, _, _ => fail KType      (* the code reports a runtime error; classes are compared coarsely *)
  | QContainerErr, _, _ => fail KRuntime
  | _, _, _ => fail KType
  end.

(** to-string of an operand of `+` (primitives; containers are outside Sem's modelled core) *)
Definition with_to_str (v : value) (k : str -> M value) : M value :=
  match prim_to_str v with
  | Some t => k t
  | None => match v with VFun _ _ _ _ => fail KType | _ => fail KUnsup end
  end.

Definition class_sem (c : fclass) (n : nat) (a b : value) : M value :=
  match c, a, b with
  | CTypeError, _, _ => fail KType
  (* Sem: a zero divisor is a runtime error when the dividend is a number and a type error
     otherwise; the code reports DivisionByZero in both cases (error classes are compared coarsely) *)
  | CDivZero, VNum _, VNum _ => fail KRuntime
  | CDivZero, _, VNum _ => fail KType
  | CNum OpAdd, VNum x, VNum y => retnum (x + y)
  | CNum OpSub, VNum x, VNum y => retnum (x - y)
  | CNum OpMul, VNum x, VNum y =>
      if ((x * y =? 0) && ((x <? 0) || (y <? 0)))%Z then fail KUnsup else retnum (x * y)
  | CNum OpDiv, VNum x, VNum y =>
      if ((x =? 0) && (y <? 0))%Z then fail KUnsup
      else if (Z.rem x y =? 0)%Z then retnum (Z.quot x y) else fail KUnsup
  | CNum OpRem, VNum x, VNum y =>
      if ((Z.rem x y =? 0) && (x <? 0))%Z then fail KUnsup else retnum (Z.rem x y)
  | CBit OpAnd, VNum x, VNum y => retnum (Z.land x y)
  | CBit OpOr, VNum x, VNum y => retnum (Z.lor x y)
  | CBit OpXor, VNum x, VNum y => retnum (Z.lxor x y)
  | CShl, VNum x, VNum y =>
      if (y <? 0)%Z then fail KRuntime
      else if arith_shift_ok x y then retnum (x * 2 ^ y) else fail KUnsup
  | CShr, VNum x, VNum y =>
      if (y <? 0)%Z then fail KRuntime
      else if arith_shift_ok x y then retnum (Z.shiftr x y) else fail KUnsup
  | CStrConcat, VStr x, VStr y => ret (VStr (x ++ y))
  | CNumStr, VNum x, VStr y => ret (VStr (show_int x ++ y))
  | CStrNum, VStr x, VNum y => ret (VStr (x ++ show_int y))
  | CToStrOf SideR, _, y => with_to_str y (fun t => ret (VStr t))
  | CToStrOf SideL, x, _ => with_to_str x (fun t => ret (VStr t))
  | CStrToStr, VStr x, y => with_to_str y (fun t => ret (VStr (x ++ t)))
  | CToStrStr, x, VStr y => with_to_str x (fun t => ret (VStr (t ++ y)))
  | CObjExtend, VObj _ x, VObj _ y => oid <- fresh_oid ;; ret (VObj oid (x ++ y))
  | CArrExtend, VArr x, VArr y => ret (VArr (x ++ y))
  | CRepeat SideL, VStr _, VNum _ => fail KUnsup
  | CRepeat SideR, VNum _, VStr _ => fail KUnsup
  | CFormat, VStr _, _ => fail KUnsup
  | CCmp k t, _, _ => c <- cmp_sem k n a b ;; ret (VBool (ord_test t c))
  | CEq neg k, _, _ => r <- eq_sem k n a b ;; ret (VBool (if neg then negb r else r))
  | CIn, VStr s, VObj _ ls =>
      ret (VBool (match top_def ls s (length ls) with Some _ => true | None => false end))
  | CBoolAnd, VBool x, VBool y => ret (VBool (x && y))
  | CBoolOr, VBool x, VBool y => ret (VBool (x || y))
  | _, _, _ => fail KType          (* a class applied to operands it has no reading for *)
  end.

Definition uclass_sem (c : uaction) (v : value) : M value :=
  match c, v with
  | UaKeep, VNum z => retnum z
  | UaNegate, VNum z => if (z =? 0)%Z then fail KUnsup else retnum (- z)
  | UaNot, VBool b => ret (VBool (negb b))
  | UaBitNot, VNum z => retnum (- z - 1)
  | _, _ => fail KType
  end.

(** *** index sets of the finite checks *)
Definition all_vty : list vty := [TNull; TBool; TNum; TStr; TArr; TObj; TFunc].
Definition all_binop : list binop :=
  [BMul; BDiv; BMod; BAdd; BSub; BShl; BShr; BLt; BGt; BLe; BGe; BEq; BNe; BIn;
   BBitAnd; BBitXor; BBitOr; BAnd; BOr].
Definition all_unop : list unop := [UNeg; UPlus; UNot; UBitNot].
Definition all_flags : list flags :=
  [Flags false false false; Flags false false true; Flags false true false; Flags false true true;
   Flags true false false; Flags true false true; Flags true true false; Flags true true true].

(** 19 operators x 7 x 7 variants x 8 guard facts (inconsistent combinations excluded) *)
Definition optable_ok : bool :=
  forallb (fun o => forallb (fun ta => forallb (fun tb => forallb (fun f =>
    implb (flags_consistent ta tb f)
          (opt_fclass_beq (gen_class o ta tb f) (Some (spec_class o ta tb f))))
    all_flags) all_vty) all_vty) all_binop.

(** the cells where the translated table and the spec table differ (empty iff [optable_ok]);
    the check renders them into one-line programs when the obligation breaks *)
Definition optable_diff : list (binop * vty * vty * flags * option fclass * fclass) :=
  flat_map (fun o => flat_map (fun ta => flat_map (fun tb => flat_map (fun f =>
    if implb (flags_consistent ta tb f)
             (opt_fclass_beq (gen_class o ta tb f) (Some (spec_class o ta tb f)))
    then [] else [(o, ta, tb, f, gen_class o ta tb f, spec_class o ta tb f)])
    all_flags) all_vty) all_vty) all_binop.

Definition unary_table_ok : bool :=
  forallb (fun o => forallb (fun t =>
    match gen_uclass o t with Some c => uaction_beq c (spec_uclass o t) | None => false end)
    all_vty) all_unop.

(** the short-circuit arms decide on the VALUE of the left operand: representatives of every shape *)
Definition special_reps : list value :=
  [VNull; VBool true; VBool false; VNum 0; VStr []; VArr []; VObj 0 []; VFun [] no_octx [] ENull].
Definition special_table_ok : bool :=
  forallb (fun o => forallb (fun v =>
    match gen_special o v with Some c => saction_beq c (spec_special o v) | None => false end)
    special_reps) all_binop.

(** the same for the check script (plain tuples): cells of the three tables that differ *)
Definition optable_cells :=
  map (fun c => match c with (o, ta, tb, f, g, s) => (o, ta, tb, (f_lempty f, f_rempty f, f_rzero f), g, s) end)
      optable_diff.
Definition unary_cells : list (unop * vty * option uaction * uaction) :=
  flat_map (fun o => flat_map (fun t =>
    if match gen_uclass o t with Some c => uaction_beq c (spec_uclass o t) | None => false end
    then [] else [(o, t, gen_uclass o t, spec_uclass o t)]) all_vty) all_unop.
Definition special_cells : list (binop * vty * bool * option saction * saction) :=
  flat_map (fun o => flat_map (fun v =>
    if match gen_special o v with Some c => saction_beq c (spec_special o v) | None => false end
    then [] else [(o, ty v, match v with VBool b => b | _ => false end, gen_special o v, spec_special o v)])
    special_reps) all_binop.
Definition eqcmp_cells : list (vty * vty * option eqk * eqk * option (option cmpk)) :=
  flat_map (fun ta => flat_map (fun tb =>
    if match gen_eq ta tb with Some k => eqk_beq k (spec_eq ta tb) | None => false end
       && match gen_cmp ta tb, spec_cmp IsLt ta tb with
          | Some (Some k), CCmp k' _ => cmpk_beq k k'
          | Some None, CTypeError => true
          | _, _ => false
          end
    then [] else [(ta, tb, gen_eq ta tb, spec_eq ta tb, gen_cmp ta tb)]) all_vty) all_vty.
