From Coq Require Import List ZArith NArith Bool.
From JrV Require Import Sem.Syntax Sem.Interp Common.OpClass Gen.GenOps C01.ModelOps C01.ProofsOps C01.PropertiesOps.
Import ListNotations.
Check C01_optable_actions_table :
  forallb (fun o => forallb (fun ta => forallb (fun tb => forallb (fun f =>
    implb (flags_consistent ta tb f)
          (opt_fclass_beq (gen_class o ta tb f) (Some (spec_class o ta tb f))))
    all_flags) all_vty) all_vty) all_binop = true.
Check C01_optable_actions :
  forall n o a b s, o <> BAnd -> o <> BOr ->
    exists c, gen_class o (ty a) (ty b) (flags_of a b) = Some c /\
              c = spec_class o (ty a) (ty b) (flags_of a b) /\
              binop_val (S (S n)) o a b s = class_sem c n a b s.
Check C01_optable_type_errors :
  forall n o a b s, o <> BAnd -> o <> BOr ->
    (gen_class o (ty a) (ty b) (flags_of a b) = Some CTypeError ->
     binop_val (S (S n)) o a b s = (Err KType, s))
    /\
    (forall c, gen_class o (ty a) (ty b) (flags_of a b) = Some c -> c <> CTypeError ->
               dispatch_level c a b = true ->
               fst (binop_val (S (S n)) o a b s) <> Err KType).
Check C01_optable_strconcat_iff :
  forall o a b,
    gen_class o (ty a) (ty b) (flags_of a b) = Some CStrConcat <->
    o = BAdd /\ exists x y, a = VStr x /\ b = VStr y.
Check C01_optable_divzero_iff :
  forall o a b,
    gen_class o (ty a) (ty b) (flags_of a b) = Some CDivZero <->
    (o = BDiv \/ o = BMod) /\ b = VNum 0 /\ ty a <> TStr.
Check C01_optable_divzero_first :
  forall n o x s, o = BDiv \/ o = BMod ->
    gen_class o TNum TNum (flags_of (VNum x) (VNum 0)) = Some CDivZero /\
    binop_val (S (S n)) o (VNum x) (VNum 0) s = (Err KRuntime, s).
Check C01_optable_str_mod_never_divzero :
  forall o sa b, gen_class o TStr (ty b) (flags_of (VStr sa) b) <> Some CDivZero.
Check C01_optable_unary_table :
  forallb (fun o => forallb (fun t =>
    match gen_uclass o t with Some c => uaction_beq c (spec_uclass o t) | None => false end)
    all_vty) all_unop = true.
Check C01_optable_unary :
  forall n ev oc o e s,
    eval (S n) ev oc (EUn o e) s =
    match eval n ev oc e s with
    | (Ok v, s') =>
        match gen_uclass o (ty v) with
        | Some c => uclass_sem c v s'
        | None => (Err KType, s')
        end
    | (Err k, s') => (Err k, s')
    end.
Check C01_optable_unary_type_errors :
  forall n ev oc o e s v s',
    eval n ev oc e s = (Ok v, s') ->
    (gen_uclass o (ty v) = Some UaTypeError <-> eval (S n) ev oc (EUn o e) s = (Err KType, s')).
Check C01_optable_short_circuit :
  forall n ev oc o a b s, o = BAnd \/ o = BOr ->
    eval (S n) ev oc (EBin o a b) s =
    match eval n ev oc a s with
    | (Err k, s1) => (Err k, s1)
    | (Ok va, s1) =>
        match gen_special o va with
        | Some (SShort r) => (Ok (VBool r), s1)
        | Some SNormal =>
            match eval n ev oc b s1 with
            | (Err k, s2) => (Err k, s2)
            | (Ok vb, s2) =>
                match gen_class o (ty va) (ty vb) (flags_of va vb) with
                | Some c => class_sem c n va vb s2
                | None => (Err KType, s2)
                end
            end
        | None => (Err KType, s1)
        end
    end.
Check C01_short_circuit_skips_right :
  forall n ev oc o a b s r s1,
    (o = BAnd /\ r = false) \/ (o = BOr /\ r = true) ->
    eval n ev oc a s = (Ok (VBool r), s1) ->
    gen_special o (VBool r) = Some (SShort r) /\
    eval (S n) ev oc (EBin o a b) s = (Ok (VBool r), s1).
Check C01_short_circuit_nonbool_left :
  forall n ev oc o a b s va s1 vb s2,
    o = BAnd \/ o = BOr ->
    eval n ev oc a s = (Ok va, s1) -> ty va <> TBool ->
    eval n ev oc b s1 = (Ok vb, s2) ->
    gen_special o va = Some SNormal /\
    gen_class o (ty va) (ty vb) (flags_of va vb) = Some CTypeError /\
    eval (S n) ev oc (EBin o a b) s = (Err KType, s2).
Check C01_optable_equals :
  forall n a b s,
    exists k, gen_eq (ty a) (ty b) = Some k /\ equals (S n) a b s = eq_sem k n a b s.
Check C01_optable_equals_type_mismatch :
  forall n a b s,
    ty a <> ty b -> gen_eq (ty a) (ty b) = Some QFalse /\ equals (S n) a b s = (Ok false, s).
Check C01_optable_compare :
  forall n a b s,
    match gen_cmp (ty a) (ty b) with
    | Some (Some k) => compare_val (S n) a b s = cmp_sem k n a b s
    | Some None => compare_val (S n) a b s = (Err KType, s)
    | None => False
    end.
(* the translated tables on a few cells, and the definitions the statements rest on *)
Check eq_refl : gen_class BAdd TNum TStr (Flags false false false) = Some CNumStr.
Check eq_refl : gen_class BAdd TStr TNull (Flags true false false) = Some (CToStrOf SideR).
Check eq_refl : gen_class BAdd TStr TNull (Flags false false false) = Some CStrToStr.
Check eq_refl : gen_class BAdd TBool TNull (Flags false false false) = Some CTypeError.
Check eq_refl : gen_class BDiv TNull TNum (Flags false false true) = Some CDivZero.
Check eq_refl : gen_class BMod TStr TNum (Flags false false true) = Some CFormat.
Check eq_refl : gen_class BShl TNum TNum (Flags false false false) = Some CShl.
Check eq_refl : gen_class BShr TNum TNum (Flags false false false) = Some CShr.
Check eq_refl : gen_class BIn TStr TArr (Flags false false false) = Some CTypeError.
Check eq_refl : gen_class BIn TStr TObj (Flags false false false) = Some CIn.
Check eq_refl : gen_class BLt TArr TArr (Flags false false false) = Some (CCmp KArr IsLt).
Check eq_refl : gen_class BNe TFunc TFunc (Flags false false false) = Some (CEq true QFuncErr).
Check eq_refl : gen_uclass UBitNot TNum = Some UaBitNot.
Check eq_refl : gen_special BOr (VBool true) = Some (SShort true).
Check eq_refl : gen_special BAnd (VBool true) = Some SNormal.
Check eq_refl : length all_binop = 19.
Check eq_refl : length all_vty = 7.
Check eq_refl : length all_flags = 8.
Check eq_refl : class_sem CNumStr 0 (VNum 12) (VStr [97%N]) empty_store = (Ok (VStr [49%N; 50%N; 97%N]), empty_store).
Check eq_refl : class_sem CDivZero 0 (VNum 1) (VNum 0) empty_store = (Err KRuntime, empty_store).
Check eq_refl : dispatch_level (CCmp KArr IsLt) (VArr []) (VArr []) = false.
Check eq_refl : dispatch_level CStrConcat (VStr []) (VStr []) = true.
