(** C01 kernels: transliterations of the evaluator's scope chain (map.rs / ctx.rs) and of
    its argument binder (function/parse.rs [parse_function_call]) with their specs.
    The whole-language SPEC is Sem (coq/theories/Sem). *)
From Coq Require Import List ZArith NArith Bool Arith.
Import ListNotations.

Definition name := N.

(** *** Scope: LayeredHashMap *)
Section Scope.
  Variable V : Type.
  (** one hash-map layer: FxHashMap<IStr, Thunk>; keys of a layer are distinct by construction *)
  Definition hmap := list (name * V).
  Fixpoint hget (k : name) (m : hmap) : option V :=
    match m with [] => None | (k', v) :: t => if N.eqb k k' then Some v else hget k t end.
  (** LayeredHashMap: [current] first, then [parent] *)
  Inductive layered := Root (cur : hmap) | Extend (parent : layered) (cur : hmap).
  Fixpoint lget (k : name) (l : layered) : option V :=
    match l with
    | Root cur => hget k cur
    | Extend parent cur => match hget k cur with Some v => Some v | None => lget k parent end
    end.
  Fixpoint lcontains (k : name) (l : layered) : bool :=
    match l with
    | Root cur => match hget k cur with Some _ => true | None => false end
    | Extend parent cur => match hget k cur with Some _ => true | None => lcontains k parent end
    end.
  (** SPEC: the scope is the right-biased union of its layers, innermost binding shadows *)
  Fixpoint flatten (l : layered) : hmap :=
    match l with Root cur => cur | Extend parent cur => cur ++ flatten parent end.
End Scope.
Arguments hget {V}. Arguments lget {V}. Arguments lcontains {V}. Arguments flatten {V}.
Arguments Root {V}. Arguments Extend {V}.

(** *** Argument binding *)
Inductive src := SArg (i : nat) (* i-th argument expression of the call *) | SDefault (p : nat).
Inductive berr := TooMany | Unknown (n : name) | Twice (n : name) | NotBound (n : name).

Definition amap := list (name * src).
Fixpoint aget (k : name) (m : amap) : option src :=
  match m with [] => None | (k', v) :: t => if N.eqb k k' then Some v else aget k t end.
(** FxHashMap::insert: replaces, returns whether the key was present *)
Fixpoint aremove (k : name) (m : amap) : amap :=
  match m with [] => [] | (k', v) :: t => if N.eqb k k' then aremove k t else (k', v) :: aremove k t end.
Definition ainsert (k : name) (v : src) (m : amap) : amap * bool :=
  ((k, v) :: aremove k m, match aget k m with Some _ => true | None => false end).

Definition params := list (name * bool).   (* (name, has_default) *)

(** positional arguments: `for (id, arg) in args.unnamed.iter().enumerate()` *)
Fixpoint bind_pos (ps : params) (i u : nat) (m : amap) : amap :=
  match u with
  | O => m
  | S u' => match ps with
            | [] => m
            | (n, _) :: t => bind_pos t (S i) u' (fst (ainsert n (SArg i) m))
            end
  end.

(** named arguments, numbered after the positional ones *)
Fixpoint bind_named (ps : params) (named : list name) (i : nat) (m : amap) : amap + berr :=
  match named with
  | [] => inl m
  | n :: t =>
      if negb (existsb (fun p => N.eqb (fst p) n) ps) then inr (Unknown n)
      else let (m', was) := ainsert n (SArg i) m in
           if was then inr (Twice n) else bind_named ps t (S i) m'
  end.

(** defaults for parameters not passed; returns the map and how many were filled *)
Fixpoint bind_defaults (ps : params) (idx : nat) (passed : amap) : amap * nat :=
  match ps with
  | [] => ([], 0)
  | (n, d) :: t =>
      let (m, c) := bind_defaults t (S idx) passed in
      if d then match aget n passed with
                | Some _ => (m, c)
                | None => ((n, SDefault idx) :: m, S c)
                end
      else (m, c)
  end.

Fixpoint first_unbound (ps : params) (named : list name) : option name :=
  match ps with
  | [] => None
  | (n, _) :: t => if existsb (N.eqb n) named then first_unbound t named else Some n
  end.

(** parse_function_call; [u] positional arguments, then the named ones in call order *)
Definition bind_impl (ps : params) (u : nat) (named : list name) : amap + berr :=
  if Nat.ltb (length ps) u then inr TooMany
  else
    match bind_named ps named u (bind_pos ps 0 u []) with
    | inr e => inr e
    | inl passed =>
        if Nat.ltb (length named + u) (length ps) then
          let (defs, c) := bind_defaults ps 0 passed in
          if Nat.eqb (length named + c + u) (length ps) then inl (defs ++ passed)
          else match first_unbound (skipn u ps) named with
               | Some n => inr (NotBound n)
               | None => inr (NotBound 0%N) (* `unreachable!()` *)
               end
        else inl passed
    end.

(** SPEC (Jsonnet): parameter [i] is bound to the i-th positional argument if i < u, else
    to the named argument carrying its name, else to its default; the call is an error when
    there are too many positionals, a name is unknown or bound twice, or a parameter without
    default stays unbound. *)
Fixpoint index_of (n : name) (l : list name) (i : nat) : option nat :=
  match l with [] => None | x :: t => if N.eqb n x then Some i else index_of n t (S i) end.

Definition spec_src (ps : params) (u : nat) (named : list name) (i : nat) : option src :=
  match nth_error ps i with
  | None => None
  | Some (n, d) =>
      if Nat.ltb i u then Some (SArg i)
      else match index_of n named 0 with
           | Some j => Some (SArg (u + j))
           | None => if d then Some (SDefault i) else None
           end
  end.

Definition spec_ok (ps : params) (u : nat) (named : list name) : Prop :=
  u <= length ps /\
  (forall n, In n named -> In n (map fst ps)) /\
  NoDup (firstn u (map fst ps) ++ named) /\
  (forall i, i < length ps -> spec_src ps u named i <> None).
