(** C01 — property theorems on the operator dispatch (evaluate/operator.rs, val.rs equals), translated from
    the source on every run (Gen/GenOps.v) and proved to be the dispatch of Sem (Sem/Interp.v).
    Only statements; proofs are in ProofsOps.v. *)
From Coq Require Import List ZArith NArith Bool.
From JrV Require Import Sem.Syntax Sem.Interp Common.OpClass Gen.GenOps C01.ModelOps C01.ProofsOps.
Import ListNotations.

(** the translated table = the table of the arms Sem takes: 19 operators x 7 x 7 operand variants x 8 guard facts *)
Theorem C01_optable_actions_table :
  forallb (fun o => forallb (fun ta => forallb (fun tb => forallb (fun f =>
    implb (flags_consistent ta tb f)
          (opt_fclass_beq (gen_class o ta tb f) (Some (spec_class o ta tb f))))
    all_flags) all_vty) all_vty) all_binop = true.
Proof. exact optable_table. Qed.
Print Assumptions C01_optable_actions_table.

(** lifted to ALL operands, fuels and stores: Sem's binop_val computes what the class in the translated table means *)
Theorem C01_optable_actions :
  forall n o a b s, o <> BAnd -> o <> BOr ->
    exists c, gen_class o (ty a) (ty b) (flags_of a b) = Some c /\
              c = spec_class o (ty a) (ty b) (flags_of a b) /\
              binop_val (S (S n)) o a b s = class_sem c n a b s.
Proof. exact optable_actions. Qed.
Print Assumptions C01_optable_actions.

(** the table says `type error` => Sem fails with KType, store untouched; the table gives an action decided at the dispatch level => Sem does not fail with KType *)
Theorem C01_optable_type_errors :
  forall n o a b s, o <> BAnd -> o <> BOr ->
    (gen_class o (ty a) (ty b) (flags_of a b) = Some CTypeError ->
     binop_val (S (S n)) o a b s = (Err KType, s))
    /\
    (forall c, gen_class o (ty a) (ty b) (flags_of a b) = Some c -> c <> CTypeError ->
               dispatch_level c a b = true ->
               fst (binop_val (S (S n)) o a b s) <> Err KType).
Proof. exact optable_type_errors. Qed.
Print Assumptions C01_optable_type_errors.

(** `string concat` stands in the table exactly where Sem evaluates `+` on two strings *)
Theorem C01_optable_strconcat_iff :
  forall o a b,
    gen_class o (ty a) (ty b) (flags_of a b) = Some CStrConcat <->
    o = BAdd /\ exists x y, a = VStr x /\ b = VStr y.
Proof. exact optable_strconcat_iff. Qed.
Print Assumptions C01_optable_strconcat_iff.

(** `division-by-zero test first` stands exactly at / and % with divisor 0 and a non-string dividend *)
Theorem C01_optable_divzero_iff :
  forall o a b,
    gen_class o (ty a) (ty b) (flags_of a b) = Some CDivZero <->
    (o = BDiv \/ o = BMod) /\ b = VNum 0 /\ ty a <> TStr.
Proof. exact optable_divzero_iff. Qed.
Print Assumptions C01_optable_divzero_iff.

(** and there Sem reports the runtime error before anything else *)
Theorem C01_optable_divzero_first :
  forall n o x s, o = BDiv \/ o = BMod ->
    gen_class o TNum TNum (flags_of (VNum x) (VNum 0)) = Some CDivZero /\
    binop_val (S (S n)) o (VNum x) (VNum 0) s = (Err KRuntime, s).
Proof. exact optable_divzero_first. Qed.
Print Assumptions C01_optable_divzero_first.

(** `str % x` (and any operator with a string on the left) is never a division by zero *)
Theorem C01_optable_str_mod_never_divzero :
  forall o sa b, gen_class o TStr (ty b) (flags_of (VStr sa) b) <> Some CDivZero.
Proof. exact optable_str_mod_never_divzero. Qed.
Print Assumptions C01_optable_str_mod_never_divzero.

(** unary operators: 4 operators x 7 variants *)
Theorem C01_optable_unary_table :
  forallb (fun o => forallb (fun t =>
    match gen_uclass o t with Some c => uaction_beq c (spec_uclass o t) | None => false end)
    all_vty) all_unop = true.
Proof. exact unary_table. Qed.
Print Assumptions C01_optable_unary_table.

(** Sem's EUn case is the reading of the translated unary table, for all operand expressions *)
Theorem C01_optable_unary :
  forall n ev oc o e s,
    eval (S n) ev oc (EUn o e) s =
    match eval n ev oc e s with
    | (Ok v, s') =>
        match gen_uclass o (ty v) with
        | Some c => uclass_sem c v s'
        | None => (Err KType, s')
        end
    | (Err k, s') => (Err k, s')
    end.
Proof. exact optable_unary. Qed.
Print Assumptions C01_optable_unary.

(** unary type errors: exactly where the table says so *)
Theorem C01_optable_unary_type_errors :
  forall n ev oc o e s v s',
    eval n ev oc e s = (Ok v, s') ->
    (gen_uclass o (ty v) = Some UaTypeError <-> eval (S n) ev oc (EUn o e) s = (Err KType, s')).
Proof. exact optable_unary_type_errors. Qed.
Print Assumptions C01_optable_unary_type_errors.

(** && and ||: Sem's EBin BAnd / BOr cases are the reading of the arms of evaluate_binary_op_special followed by the strict table *)
Theorem C01_optable_short_circuit :
  forall n ev oc o a b s, o = BAnd \/ o = BOr ->
    eval (S n) ev oc (EBin o a b) s =
    match eval n ev oc a s with
    | (Err k, s1) => (Err k, s1)
    | (Ok va, s1) =>
        match gen_special o va with
        | Some (SShort r) => (Ok (VBool r), s1)
        | Some SNormal =>
            match eval n ev oc b s1 with
            | (Err k, s2) => (Err k, s2)
            | (Ok vb, s2) =>
                match gen_class o (ty va) (ty vb) (flags_of va vb) with
                | Some c => class_sem c n va vb s2
                | None => (Err KType, s2)
                end
            end
        | None => (Err KType, s1)
        end
    end.
Proof. exact optable_short_circuit. Qed.
Print Assumptions C01_optable_short_circuit.

(** the right operand is not evaluated when the left decides (result, store and trace log are those after the left operand, whatever the right operand is) *)
Theorem C01_short_circuit_skips_right :
  forall n ev oc o a b s r s1,
    (o = BAnd /\ r = false) \/ (o = BOr /\ r = true) ->
    eval n ev oc a s = (Ok (VBool r), s1) ->
    gen_special o (VBool r) = Some (SShort r) /\
    eval (S n) ev oc (EBin o a b) s = (Ok (VBool r), s1).
Proof. exact short_circuit_skips_right. Qed.
Print Assumptions C01_short_circuit_skips_right.

(** a non-boolean left operand of && / || is a type error (after the right operand has been evaluated) *)
Theorem C01_short_circuit_nonbool_left :
  forall n ev oc o a b s va s1 vb s2,
    o = BAnd \/ o = BOr ->
    eval n ev oc a s = (Ok va, s1) -> ty va <> TBool ->
    eval n ev oc b s1 = (Ok vb, s2) ->
    gen_special o va = Some SNormal /\
    gen_class o (ty va) (ty vb) (flags_of va vb) = Some CTypeError /\
    eval (S n) ev oc (EBin o a b) s = (Err KType, s2).
Proof. exact short_circuit_nonbool_left. Qed.
Print Assumptions C01_short_circuit_nonbool_left.

(** equals / primitive_equals: Sem's equals takes the arm the translated type dispatch names *)
Theorem C01_optable_equals :
  forall n a b s,
    exists k, gen_eq (ty a) (ty b) = Some k /\ equals (S n) a b s = eq_sem k n a b s.
Proof. exact optable_equals. Qed.
Print Assumptions C01_optable_equals.

(** operands of different variants are unequal without looking inside *)
Theorem C01_optable_equals_type_mismatch :
  forall n a b s,
    ty a <> ty b -> gen_eq (ty a) (ty b) = Some QFalse /\ equals (S n) a b s = (Ok false, s).
Proof. exact optable_equals_type_mismatch. Qed.
Print Assumptions C01_optable_equals_type_mismatch.

(** evaluate_compare_op: numbers, strings, arrays; everything else a type error *)
Theorem C01_optable_compare :
  forall n a b s,
    match gen_cmp (ty a) (ty b) with
    | Some (Some k) => compare_val (S n) a b s = cmp_sem k n a b s
    | Some None => compare_val (S n) a b s = (Err KType, s)
    | None => False
    end.
Proof. exact optable_compare. Qed.
Print Assumptions C01_optable_compare.

