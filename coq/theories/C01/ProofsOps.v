(** C01/ProofsOps.v — the translated operator dispatch (Gen/GenOps.v, read from evaluate/operator.rs and
    val.rs on every run) against Sem.

    Two halves.  (1) For ALL values, fuels and stores, Sem's [binop_val] / [equals] / [compare_val] and
    the EUn / EBin BAnd / EBin BOr cases of [eval] are [class_sem] of the SPEC tables of ModelOps.v
    (case analysis on operator and operand constructors, each case closed by conversion).  (2) The
    translated tables equal the SPEC tables on the finite index set (vm_compute).  Together: Sem takes,
    for every operator and all operands, the arm whose action class the source text of the evaluator
    names. *)
From Coq Require Import List ZArith NArith Bool Lia.
From JrV Require Import Sem.Syntax Sem.Interp Common.OpClass Gen.GenOps C01.ModelOps.
Import ListNotations.

Definition lazy_op (o : binop) : bool := match o with BAnd | BOr => true | _ => false end.

(** *** (1) Sem is the reading of the spec tables *)
Lemma spec_correct n o a b s :
  lazy_op o = false ->
  binop_val (S (S n)) o a b s = class_sem (spec_class o (ty a) (ty b) (flags_of a b)) n a b s.
Proof.
  intro H.
  destruct o; try discriminate H; clear H.
  all: destruct a as [|ba|za|sa|ca|oa la|fe fo fp fb], b as [|bb|zb|sb|cb|ob lb|ge go gp gb].
  all: try reflexivity.
  all: try (destruct zb; reflexivity).
  all: try (destruct sa; reflexivity).
  all: try (destruct sb; try reflexivity).
  all: try (destruct ba; reflexivity).
Qed.

Lemma equals_spec n a b s :
  equals (S n) a b s = eq_sem (spec_eq (ty a) (ty b)) n a b s.
Proof. destruct a, b; reflexivity. Qed.

Lemma compare_spec n a b s :
  compare_val (S n) a b s =
  match spec_cmp IsLt (ty a) (ty b) with
  | CCmp k _ => cmp_sem k n a b s
  | _ => (Err KType, s)
  end.
Proof. destruct a, b; reflexivity. Qed.

Lemma eval_un_unfold n ev oc o e :
  eval (S n) ev oc (EUn o e) =
  (v <- eval n ev oc e ;;
   match o, v with
   | UNeg, VNum z => if (z =? 0)%Z then fail KUnsup else retnum (- z)
   | UPlus, VNum z => retnum z
   | UNot, VBool b => ret (VBool (negb b))
   | UBitNot, VNum z => retnum (- z - 1)
   | _, _ => fail KType
   end).
Proof. reflexivity. Qed.

Lemma unary_spec n ev oc o e s :
  eval (S n) ev oc (EUn o e) s =
  match eval n ev oc e s with
  | (Ok v, s') => uclass_sem (spec_uclass o (ty v)) v s'
  | (Err k, s') => (Err k, s')
  end.
Proof.
  rewrite eval_un_unfold. unfold bind.
  destruct (eval n ev oc e s) as [[v|k] s']; [|reflexivity].
  destruct o, v; reflexivity.
Qed.

Lemma eval_and_unfold n ev oc a b :
  eval (S n) ev oc (EBin BAnd a b) =
  (va <- eval n ev oc a ;;
   match va with
   | VBool false => ret (VBool false)
   | _ => vb <- eval n ev oc b ;;
          match va, vb with
          | VBool true, VBool x => ret (VBool x)
          | _, _ => fail KType
          end
   end).
Proof. reflexivity. Qed.

Lemma eval_or_unfold n ev oc a b :
  eval (S n) ev oc (EBin BOr a b) =
  (va <- eval n ev oc a ;;
   match va with
   | VBool true => ret (VBool true)
   | _ => vb <- eval n ev oc b ;;
          match va, vb with
          | VBool false, VBool x => ret (VBool x)
          | _, _ => fail KType
          end
   end).
Proof. reflexivity. Qed.

Lemma special_spec n ev oc o a b s :
  lazy_op o = true ->
  eval (S n) ev oc (EBin o a b) s =
  match eval n ev oc a s with
  | (Err k, s1) => (Err k, s1)
  | (Ok va, s1) =>
      match spec_special o va with
      | SShort r => (Ok (VBool r), s1)
      | SNormal =>
          match eval n ev oc b s1 with
          | (Err k, s2) => (Err k, s2)
          | (Ok vb, s2) => class_sem (spec_class o (ty va) (ty vb) (flags_of va vb)) n va vb s2
          end
      end
  end.
Proof.
  intro H. destruct o; try discriminate H; clear H.
  - rewrite eval_and_unfold. unfold bind.
    destruct (eval n ev oc a s) as [[va|k] s1]; [|reflexivity].
    destruct va as [|[|]| | | | |]; try reflexivity;
      destruct (eval n ev oc b s1) as [[vb|k] s2]; try reflexivity;
      destruct vb; reflexivity.
  - rewrite eval_or_unfold. unfold bind.
    destruct (eval n ev oc a s) as [[va|k] s1]; [|reflexivity].
    destruct va as [|[|]| | | | |]; try reflexivity;
      destruct (eval n ev oc b s1) as [[vb|k] s2]; try reflexivity;
      destruct vb; reflexivity.
Qed.

(** *** (2) the translated tables are the spec tables *)
Lemma optable_table : optable_ok = true.
Proof. vm_compute. reflexivity. Qed.

Lemma unary_table : unary_table_ok = true.
Proof. vm_compute. reflexivity. Qed.

Lemma special_table : special_table_ok = true.
Proof. vm_compute. reflexivity. Qed.

Lemma eqcmp_table :
  forallb (fun ta => forallb (fun tb =>
    match gen_eq ta tb with Some k => eqk_beq k (spec_eq ta tb) | None => false end
    && match gen_cmp ta tb, spec_cmp IsLt ta tb with
       | Some (Some k), CCmp k' _ => cmpk_beq k k'
       | Some None, CTypeError => true
       | _, _ => false
       end) all_vty) all_vty = true.
Proof. vm_compute. reflexivity. Qed.

Lemma in_all_binop o : In o all_binop.
Proof. destruct o; simpl; tauto. Qed.
Lemma in_all_unop o : In o all_unop.
Proof. destruct o; simpl; tauto. Qed.
Lemma in_all_vty t : In t all_vty.
Proof. destruct t; simpl; tauto. Qed.
Lemma in_all_flags f : In f all_flags.
Proof. destruct f as [[|] [|] [|]]; simpl; tauto. Qed.

Lemma flags_of_consistent a b : flags_consistent (ty a) (ty b) (flags_of a b) = true.
Proof.
  destruct a as [|ba|za|sa|ca|oa la|fe fo fp fb], b as [|bb|zb|sb|cb|ob lb|ge go gp gb].
  all: try reflexivity.
  all: try (destruct sa; try reflexivity).
  all: try (destruct sb; try reflexivity).
  all: try (destruct zb; reflexivity).
Qed.

Lemma gen_is_spec o ta tb f :
  flags_consistent ta tb f = true -> gen_class o ta tb f = Some (spec_class o ta tb f).
Proof.
  intro Hc. pose proof optable_table as H. unfold optable_ok in H.
  rewrite forallb_forall in H. specialize (H o (in_all_binop o)).
  rewrite forallb_forall in H. specialize (H ta (in_all_vty ta)).
  rewrite forallb_forall in H. specialize (H tb (in_all_vty tb)).
  rewrite forallb_forall in H. specialize (H f (in_all_flags f)).
  rewrite Hc in H. simpl in H.
  destruct (gen_class o ta tb f) as [c|]; [|discriminate H].
  simpl in H. apply internal_fclass_dec_bl in H. congruence.
Qed.

Lemma gen_is_spec_val o a b :
  gen_class o (ty a) (ty b) (flags_of a b) = Some (spec_class o (ty a) (ty b) (flags_of a b)).
Proof. apply gen_is_spec, flags_of_consistent. Qed.

Lemma gen_uclass_is_spec o t : gen_uclass o t = Some (spec_uclass o t).
Proof.
  pose proof unary_table as H. unfold unary_table_ok in H.
  rewrite forallb_forall in H. specialize (H o (in_all_unop o)).
  rewrite forallb_forall in H. specialize (H t (in_all_vty t)).
  destruct (gen_uclass o t) as [c|]; [|discriminate H].
  apply internal_uaction_dec_bl in H. congruence.
Qed.

(** the short-circuit arms look at the left VALUE only through [lpat_ok]: every value behaves like
    its representative *)
Definition rep (v : value) : value :=
  match v with
  | VNull => VNull | VBool b => VBool b | VNum _ => VNum 0 | VStr _ => VStr []
  | VArr _ => VArr [] | VObj _ _ => VObj 0 [] | VFun _ _ _ _ => VFun [] no_octx [] ENull
  end.
Lemma in_special_reps v : In (rep v) special_reps.
Proof. destruct v as [|[|]| | | | |]; simpl; tauto. Qed.
Lemma gen_special_rep arms o v : gen_special_from arms o v = gen_special_from arms o (rep v).
Proof.
  induction arms as [|[l po a] t IH]; [reflexivity|]. simpl. rewrite IH.
  replace (lpat_ok l (rep v)) with (lpat_ok l v); [reflexivity|].
  destruct l, v; reflexivity.
Qed.
Lemma spec_special_rep o v : spec_special o v = spec_special o (rep v).
Proof. destruct o, v; reflexivity. Qed.

Lemma gen_special_is_spec o v : gen_special o v = Some (spec_special o v).
Proof.
  unfold gen_special. rewrite gen_special_rep, spec_special_rep.
  pose proof special_table as H. unfold special_table_ok in H.
  rewrite forallb_forall in H. specialize (H o (in_all_binop o)).
  rewrite forallb_forall in H. specialize (H (rep v) (in_special_reps v)).
  unfold gen_special in H.
  destruct (gen_special_from gen_special_arms o (rep v)) as [c|]; [|discriminate H].
  apply internal_saction_dec_bl in H. congruence.
Qed.

Lemma gen_eq_is_spec ta tb : gen_eq ta tb = Some (spec_eq ta tb).
Proof.
  pose proof eqcmp_table as H.
  rewrite forallb_forall in H. specialize (H ta (in_all_vty ta)).
  rewrite forallb_forall in H. specialize (H tb (in_all_vty tb)).
  apply andb_prop in H. destruct H as [H _].
  destruct (gen_eq ta tb) as [k|]; [|discriminate H].
  apply internal_eqk_dec_bl in H. congruence.
Qed.

(** *** the property statements *)

(** action classes: for every strict operator and ALL operands, Sem computes what the class
    in the translated table means *)
Lemma optable_actions n o a b s :
  o <> BAnd -> o <> BOr ->
  exists c, gen_class o (ty a) (ty b) (flags_of a b) = Some c /\
            c = spec_class o (ty a) (ty b) (flags_of a b) /\
            binop_val (S (S n)) o a b s = class_sem c n a b s.
Proof.
  intros H1 H2. eexists. split; [apply gen_is_spec_val|]. split; [reflexivity|].
  apply spec_correct. destruct o; try reflexivity; congruence.
Qed.

(** type errors *)
Definition is_fun (v : value) : bool := match v with VFun _ _ _ _ => true | _ => false end.
Definition is_num (v : value) : bool := match v with VNum _ => true | _ => false end.

(** the classes whose outcome is decided at the dispatch itself (no nested comparison / equality
    of elements, no to-string of a function, no zero divisor under a non-number) *)
Definition dispatch_level (c : fclass) (a b : value) : bool :=
  match c with
  | CTypeError => false
  | CDivZero => is_num a
  | CCmp KArr _ => false
  | CEq _ QArr | CEq _ QObj | CEq _ QFuncErr => false
  | CToStrOf SideR | CStrToStr => negb (is_fun b)
  | CToStrOf SideL | CToStrStr => negb (is_fun a)
  | _ => true
  end.

Lemma optable_type_errors n o a b s :
  o <> BAnd -> o <> BOr ->
  (gen_class o (ty a) (ty b) (flags_of a b) = Some CTypeError ->
   binop_val (S (S n)) o a b s = (Err KType, s))
  /\
  (forall c, gen_class o (ty a) (ty b) (flags_of a b) = Some c -> c <> CTypeError ->
             dispatch_level c a b = true ->
             fst (binop_val (S (S n)) o a b s) <> Err KType).
Proof.
  intros H1 H2.
  assert (Hl : lazy_op o = false) by (destruct o; try reflexivity; congruence).
  rewrite gen_is_spec_val, (spec_correct n o a b s Hl). split.
  - intro E. injection E as E. rewrite E. reflexivity.
  - intros c E Hc Hd. injection E as E. subst c. clear H1 H2. revert Hc Hd.
    destruct o; try discriminate Hl; clear Hl.
    all: destruct a as [|ba|za|sa|ca|oa la|fe fo fp fb], b as [|bb|zb|sb|cb|ob lb|ge go gp gb].
    all: try (intros Hc _; exfalso; apply Hc; reflexivity).
    all: try (intros _ Hd; discriminate Hd).
    all: try (destruct zb; try (intros _ Hd; discriminate Hd)).
    all: try (destruct sa); try (destruct sb).
    all: try (intros Hc _; exfalso; apply Hc; reflexivity).
    all: try (intros _ Hd; discriminate Hd).
    all: intros _ _; cbn -[Z.abs Z.leb Z.mul Z.add Z.sub Z.quot Z.rem Z.land Z.lor Z.lxor Z.shiftr Z.pow
                              show_int two53 arith_shift_ok Z.eqb Z.ltb app str_eqb str_cmp Z.compare top_def].
    all: unfold retnum, num, ret, fail, bind, fresh_oid.
    all: repeat match goal with
                | |- context [if ?c then _ else _] => destruct c
                | |- context [match prim_to_str (VBool ?b) with _ => _ end] => destruct b
                end.
    all: cbn; try discriminate.
    all: match goal with |- context [with_to_str (VBool ?b)] => destruct b end; cbn; discriminate.
Qed.

(** readable instances of the action agreement *)
Lemma optable_strconcat_iff o a b :
  gen_class o (ty a) (ty b) (flags_of a b) = Some CStrConcat <->
  o = BAdd /\ exists x y, a = VStr x /\ b = VStr y.
Proof.
  rewrite gen_is_spec_val. split.
  - intro H. injection H as H.
    destruct o, a as [| | |sa| | |], b as [| |zb|sb| | |]; try discriminate H;
      try (destruct sa; discriminate H); try (destruct sb; discriminate H);
      try (destruct zb; discriminate H).
    split; [reflexivity|]. eauto.
  - intros [-> (x & y & -> & ->)]. reflexivity.
Qed.

Lemma optable_divzero_iff o a b :
  gen_class o (ty a) (ty b) (flags_of a b) = Some CDivZero <->
  (o = BDiv \/ o = BMod) /\ b = VNum 0 /\ ty a <> TStr.
Proof.
  rewrite gen_is_spec_val. split.
  - intro H. injection H as H.
    destruct o, a as [| | |sa| | |], b as [| |zb|sb| | |]; try discriminate H;
      try (destruct sa; discriminate H); try (destruct sb; discriminate H);
      try (destruct zb; try discriminate H).
    all: repeat split; try (left; reflexivity); try (right; reflexivity); discriminate.
  - intros [[-> | ->] [-> Ht]]; destruct a; try reflexivity; exfalso; apply Ht; reflexivity.
Qed.

(** the zero test comes before anything else: a zero divisor under a number is a runtime error
    whatever the dividend *)
Lemma optable_divzero_first n o x s :
  o = BDiv \/ o = BMod ->
  gen_class o TNum TNum (flags_of (VNum x) (VNum 0)) = Some CDivZero /\
  binop_val (S (S n)) o (VNum x) (VNum 0) s = (Err KRuntime, s).
Proof. intros [-> | ->]; split; reflexivity. Qed.

Lemma optable_str_mod_never_divzero o sa b :
  gen_class o TStr (ty b) (flags_of (VStr sa) b) <> Some CDivZero.
Proof.
  intro H. apply (optable_divzero_iff o (VStr sa) b) in H.
  destruct H as (_ & _ & H). apply H. reflexivity.
Qed.

(** unary operators *)
Lemma optable_unary n ev oc o e s :
  eval (S n) ev oc (EUn o e) s =
  match eval n ev oc e s with
  | (Ok v, s') =>
      match gen_uclass o (ty v) with
      | Some c => uclass_sem c v s'
      | None => (Err KType, s')
      end
  | (Err k, s') => (Err k, s')
  end.
Proof.
  rewrite unary_spec. destruct (eval n ev oc e s) as [[v|k] s']; [|reflexivity].
  rewrite gen_uclass_is_spec. reflexivity.
Qed.

Lemma optable_unary_type_errors n ev oc o e s v s' :
  eval n ev oc e s = (Ok v, s') ->
  (gen_uclass o (ty v) = Some UaTypeError <-> eval (S n) ev oc (EUn o e) s = (Err KType, s')).
Proof.
  intro H. rewrite optable_unary, H, gen_uclass_is_spec. split.
  - intro E. injection E as E. rewrite E. destruct v; reflexivity.
  - destruct o, v; try reflexivity; cbn; unfold retnum, num, ret, fail;
      repeat match goal with |- context [if ?c then _ else _] => destruct c end; discriminate.
Qed.

(** && and || : evaluate_binary_op_special against the EBin BAnd / EBin BOr cases of eval *)
Lemma optable_short_circuit n ev oc o a b s :
  o = BAnd \/ o = BOr ->
  eval (S n) ev oc (EBin o a b) s =
  match eval n ev oc a s with
  | (Err k, s1) => (Err k, s1)
  | (Ok va, s1) =>
      match gen_special o va with
      | Some (SShort r) => (Ok (VBool r), s1)
      | Some SNormal =>
          match eval n ev oc b s1 with
          | (Err k, s2) => (Err k, s2)
          | (Ok vb, s2) =>
              match gen_class o (ty va) (ty vb) (flags_of va vb) with
              | Some c => class_sem c n va vb s2
              | None => (Err KType, s2)
              end
          end
      | None => (Err KType, s1)
      end
  end.
Proof.
  intro H. rewrite special_spec by (destruct H as [-> | ->]; reflexivity).
  destruct (eval n ev oc a s) as [[va|k] s1]; [|reflexivity].
  rewrite gen_special_is_spec. destruct (spec_special o va); [reflexivity|].
  destruct (eval n ev oc b s1) as [[vb|k] s2]; [|reflexivity].
  rewrite gen_is_spec_val. reflexivity.
Qed.

(** the right operand is not evaluated when the left decides: result, store and trace log are
    those reached after the left operand, for EVERY right operand *)
Lemma short_circuit_skips_right n ev oc o a b s r s1 :
  (o = BAnd /\ r = false) \/ (o = BOr /\ r = true) ->
  eval n ev oc a s = (Ok (VBool r), s1) ->
  gen_special o (VBool r) = Some (SShort r) /\
  eval (S n) ev oc (EBin o a b) s = (Ok (VBool r), s1).
Proof.
  intros H E.
  assert (G : gen_special o (VBool r) = Some (SShort r))
    by (rewrite gen_special_is_spec; destruct H as [[-> ->] | [-> ->]]; reflexivity).
  split; [exact G|].
  rewrite optable_short_circuit by (destruct H as [[-> _] | [-> _]]; auto).
  rewrite E, G. reflexivity.
Qed.

(** a non-boolean left operand: the right operand IS evaluated (its error wins), then a type error *)
Lemma short_circuit_nonbool_left n ev oc o a b s va s1 vb s2 :
  o = BAnd \/ o = BOr ->
  eval n ev oc a s = (Ok va, s1) -> ty va <> TBool ->
  eval n ev oc b s1 = (Ok vb, s2) ->
  gen_special o va = Some SNormal /\
  gen_class o (ty va) (ty vb) (flags_of va vb) = Some CTypeError /\
  eval (S n) ev oc (EBin o a b) s = (Err KType, s2).
Proof.
  intros H Ea Ht Eb.
  assert (G : gen_special o va = Some SNormal).
  { rewrite gen_special_is_spec. destruct H as [-> | ->], va; try reflexivity; exfalso; apply Ht; reflexivity. }
  assert (C : gen_class o (ty va) (ty vb) (flags_of va vb) = Some CTypeError).
  { rewrite gen_is_spec_val. destruct H as [-> | ->], va; try reflexivity; exfalso; apply Ht; reflexivity. }
  repeat split; [exact G | exact C |].
  rewrite optable_short_circuit by exact H. rewrite Ea, G, Eb, C. reflexivity.
Qed.

(** equals / primitive_equals and evaluate_compare_op: the type dispatch *)
Lemma optable_equals n a b s :
  exists k, gen_eq (ty a) (ty b) = Some k /\ equals (S n) a b s = eq_sem k n a b s.
Proof. eexists. split; [apply gen_eq_is_spec | apply equals_spec]. Qed.

Lemma optable_equals_type_mismatch n a b s :
  ty a <> ty b -> gen_eq (ty a) (ty b) = Some QFalse /\ equals (S n) a b s = (Ok false, s).
Proof.
  intro H. rewrite gen_eq_is_spec, equals_spec.
  destruct a, b; try (exfalso; apply H; reflexivity); split; reflexivity.
Qed.

Lemma optable_compare n a b s :
  match gen_cmp (ty a) (ty b) with
  | Some (Some k) => compare_val (S n) a b s = cmp_sem k n a b s
  | Some None => compare_val (S n) a b s = (Err KType, s)
  | None => False
  end.
Proof.
  rewrite compare_spec.
  pose proof eqcmp_table as H.
  rewrite forallb_forall in H. specialize (H (ty a) (in_all_vty _)).
  rewrite forallb_forall in H. specialize (H (ty b) (in_all_vty _)).
  apply andb_prop in H. destruct H as [_ H].
  destruct (gen_cmp (ty a) (ty b)) as [[k|]|]; destruct (spec_cmp IsLt (ty a) (ty b)); try discriminate H.
  - apply internal_cmpk_dec_bl in H. subst. reflexivity.
  - reflexivity.
Qed.

(** non-vacuity: the hypotheses of the statements above are met by non-trivial instances *)
Example ex_type_error : gen_class BSub (ty (VStr [97%N])) (ty (VNum 1)) (flags_of (VStr [97%N]) (VNum 1)) = Some CTypeError.
Proof. reflexivity. Qed.
Example ex_dispatch_level :
  gen_class BAdd (ty (VStr [])) (ty VNull) (flags_of (VStr []) VNull) = Some (CToStrOf SideR)
  /\ dispatch_level (CToStrOf SideR) (VStr []) VNull = true.
Proof. split; reflexivity. Qed.
Example ex_actions :
  binop_val 2 BAdd (VNum 2) (VStr [120%N]) empty_store = (Ok (VStr [50%N; 120%N]), empty_store)
  /\ gen_class BAdd TNum TStr (flags_of (VNum 2) (VStr [120%N])) = Some CNumStr.
Proof. split; reflexivity. Qed.
Example ex_divzero : gen_class BMod (ty VNull) (ty (VNum 0)) (flags_of VNull (VNum 0)) = Some CDivZero.
Proof. reflexivity. Qed.
Example ex_unary :
  eval 1 [] no_octx (ENum 5) empty_store = (Ok (VNum 5), empty_store)
  /\ gen_uclass UNot (ty (VNum 5)) = Some UaTypeError
  /\ eval 2 [] no_octx (EUn UNot (ENum 5)) empty_store = (Err KType, empty_store).
Proof. repeat split; reflexivity. Qed.
Example ex_short :
  eval 2 [] no_octx (EBin BAnd (EBool false) (EError (EStr []))) empty_store = (Ok (VBool false), empty_store)
  /\ eval 3 [] no_octx (EBin BAnd (EBool true) (EError (EStr []))) empty_store = (Err KRuntime, empty_store).
Proof. split; reflexivity. Qed.
Example ex_nonbool_left :
  eval 2 [] no_octx (EBin BOr (ENum 1) (EBool true)) empty_store = (Err KType, empty_store)
  /\ ty (VNum 1) <> TBool.
Proof. split; [reflexivity | discriminate]. Qed.
Example ex_equals_mismatch : ty (VNum 1) <> ty (VStr []) /\ gen_eq TFunc TFunc = Some QFuncErr.
Proof. split; [discriminate | reflexivity]. Qed.
Example ex_compare : gen_cmp TArr TArr = Some (Some KArr) /\ gen_cmp TBool TBool = Some None.
Proof. split; reflexivity. Qed.
