(** C12 — source tie, definitions only.

    Gen/GenFormatParse.v is written on every run by translator/gens/formatparse.py from the
    statements of crates/jrsonnet-evaluator/src/stdlib/format.rs (try_parse_mapping_key,
    try_parse_cflags, try_parse_field_width, try_parse_precision, try_parse_length_modifier,
    parse_conversion_type, parse_code, parse_codes, format_arr, format_obj).  Here the translated
    functions are assembled into the translated std.format ([src_std_format]): the dispatch on the
    right-hand value (array / object / single value) is std_format's in stdlib/mod.rs, as in the hand
    model; the renderer (format_code) and `u16::from_untyped` are the hand model's. *)
From Coq Require Import List ZArith NArith Bool.
From JrV Require Import Gen.GenFormat Gen.GenFormatParse C12.Model.
Import ListNotations.
Open Scope N_scope.

Definition src_parse_codes (s : list N) : res (list element) := gen_parse_codes s.

Definition src_std_format (fmt : list N) (t : top) : res (list N) :=
  match t with
  | TArr vs => gen_format_arr impl_u16_of impl_format_code fmt vs
  | TObj fs => gen_format_obj impl_format_code fmt fs
  | TOne v => gen_format_arr impl_u16_of impl_format_code fmt [v]
  end.

(** projection for the correspondence / the targeted search: (translated source, hand model) *)
Definition src_run_case (fmt : list N) (t : top) : (N * list N) * (N * list N) :=
  (show (src_std_format fmt t), show (impl_std_format fmt t)).
Definition src_run_cases (fmt : list N) (ts : list top) := map (src_run_case fmt) ts.
Definition src_run_parse (fmt : list N) : N * N :=
  (parse_class (src_parse_codes fmt), parse_class (impl_parse_codes fmt)).
